#!/venv/bin/python
"""Quick one-off mutation probe on a scratch copy:  mut.py <PID[,PID]> <relpath under src/y0> <old-text> <new-text>   (never touches /repo)."""
import os, shutil, subprocess, sys, tempfile
pids, rel, old, new = sys.argv[1].split(","), sys.argv[2], sys.argv[3], sys.argv[4]
d = tempfile.mkdtemp(prefix="yvmut-", dir="/tmp")
try:
    shutil.copytree("/repo/src", os.path.join(d, "src"))
    p = os.path.join(d, "src", "y0", rel)
    s = open(p).read()
    if s.count(old) != 1:
        print("old text occurs", s.count(old), "times"); sys.exit(3)
    open(p, "w").write(s.replace(old, new))
    r = subprocess.run(["/venv/bin/python", "-m", "py_compile", p], capture_output=True, text=True)
    if r.returncode: print("NOCOMPILE", r.stderr[-300:]); sys.exit(3)
    for pid in pids:
        r = subprocess.run(["/venv/bin/python", "/verif/yv/check.py", pid, "--repo", d, "--no-evidence"], capture_output=True, text=True, env=dict(os.environ, YV_EVIDENCE_DIR=d + "/ev"))
        print(f"== {pid} exit={r.returncode}")
        for l in r.stdout.splitlines():
            if l.startswith(("REFUTED", "UNKNOWN", "ANALYSIS", "   ")): print("   ", l[:500])
        if r.stderr.strip(): print(r.stderr[-500:])
finally:
    shutil.rmtree(d, ignore_errors=True)
