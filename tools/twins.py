#!/venv/bin/python
"""Mechanical semantics-preserving twins of /repo/src (scratch copies only) -- every check must stay silent (exit 0) on each.

usage: twins.py [--keep] [PID ...]
Twins:
  reformat     every module re-emitted by ast.unparse (drops comments, moves every line, normalises parentheses/quotes)
  rename       every function-local variable (not parameters) renamed  x -> x_rn  (nested scopes and comprehensions included)
  ifswap       `if c: A else: B` -> `if not c: B else: A` wherever both arms exist and the test is not already a negation
  setmethods   `a - b` <-> `a.difference(b)`, `a | b` <-> `a.union(b)`, `a & b` <-> `a.intersection(b)` on names that are annotated as sets
               is NOT attempted mechanically (needs types); hand-written twins live in /verif/twins/*.diff
  all          reformat + rename + ifswap
A twin that makes a check exit 1 is a FALSE ALARM of that check (rule brittle); exit 2 is reported as BROKEN.
"""
import ast
import concurrent.futures as cf
import json
import os
import shutil
import subprocess
import sys
import tempfile

V = "/verif"


sys.path.insert(0, V)
from yv.selftest import transform  # noqa: E402


def compiles(src_root):
    r = subprocess.run(["/venv/bin/python", "-m", "compileall", "-q", os.path.join(src_root, "src", "y0")], capture_output=True, text=True)
    return r.returncode == 0, (r.stdout + r.stderr)[-300:]


def run_twin(name, kinds, pids, patch=None):
    d = tempfile.mkdtemp(prefix="yvtwin-", dir=os.environ.get("TMPDIR", "/tmp"))
    out = {}
    try:
        shutil.copytree("/repo/src", os.path.join(d, "src"))
        if patch:
            r = subprocess.run(["patch", "-p1", "-s", "-d", d, "-i", patch], capture_output=True, text=True)
            if r.returncode != 0:
                return name, {"_": {"exit": "NOAPPLY", "lines": [(r.stdout + r.stderr)[-200:]]}}
        if kinds:
            transform(d, kinds)
        ok, msg = compiles(d)
        if not ok:
            return name, {"_": {"exit": "NOCOMPILE", "lines": [msg]}}
        for pid in pids:
            env = dict(os.environ, YV_EVIDENCE_DIR=os.path.join(d, "ev"))
            r = subprocess.run(["/venv/bin/python", f"{V}/yv/check.py", pid, "--repo", d, "--no-evidence"], capture_output=True, text=True, env=env)
            lines = [l[:400] for l in r.stdout.splitlines() if l.startswith(("VIOLATION", "ANALYSIS"))]
            out[pid] = {"exit": r.returncode, "lines": lines[:4]}
    finally:
        if "--keep" in sys.argv:
            print("kept", d)
        else:
            shutil.rmtree(d, ignore_errors=True)
    return name, out


def main():
    only = None
    for a in list(sys.argv[1:]):
        if a.startswith("--only="):
            only = set(a[7:].split(","))
    pids = [a for a in sys.argv[1:] if not a.startswith("--")]
    if not pids:
        pids = [c["property_id"] for c in json.load(open(f"{V}/MANIFEST.json"))["checks"]]
    twins = [("reformat", ["reformat"], None), ("rename", ["rename"], None), ("ifswap", ["ifswap"], None), ("all", ["reformat", "rename", "ifswap"], None)]
    tw_dir = f"{V}/twins"
    if os.path.isdir(tw_dir):
        for fn in sorted(os.listdir(tw_dir)):
            if fn.endswith(".diff"):
                twins.append((fn[:-5], [], os.path.join(tw_dir, fn)))
    if only is not None:
        twins = [t for t in twins if t[0] in only or t[0].split("-")[0] in only]
    bad = 0
    with cf.ThreadPoolExecutor(max_workers=14) as ex:
        futs = [ex.submit(run_twin, n, k, pids, p) for n, k, p in twins]
        for fu in futs:
            name, res = fu.result()
            fails = {p: r for p, r in res.items() if r["exit"] != 0}
            print(f"{name:28s} {'SILENT' if not fails else 'ALARM ' + ','.join(f'{p}={r['exit']}' for p, r in fails.items())}")
            for p, r in fails.items():
                bad += 1
                for l in r["lines"][:3]:
                    print("      ", p, l)
    print("twins:", len(twins), "false alarms / broken:", bad)
    return 1 if bad else 0


sys.exit(main())
