TB = "Trusted base: networkx primitives, Python set/tuple/sorted semantics, the published soundness theorems; the check decides structural clauses only (see DESIGN.md per property for the undecided remainder)."
CLAIMED["C14"] = ("proof", "symbolic evaluation of graph.py + exhaustive membership truth tables (set algebra), effects/freshness analysis",
    "Proof of the node-set/edge-set clause, the receiver-untouched clause and the order-independence clause for all graphs and all subsets: each operation's result is derived from source as three membership formulas whose truth tables are compared exhaustively with the mathematical definition.",
    "Relative to networkx views/ancestors/connected_components/predecessors and S ⊆ V(G). intervene/get_nodes_in_directed_paths: filter structure and purity only.", "§3 C14")
CLAIMED["C13"] = ("other", "symbolic path enumeration of every operator/helper + exponent-vector (monomial) normal forms + membership truth tables",
    "Every branch of every __mul__/__truediv__, Fraction.simplify, Sum.simplify, marginalize/conditional, chain/fraction/bayes expansion, contract and Applier is shown to be an algebraic identity under the multiplicative denotation (for every dynamic class of the operands the branch admits).",
    "Does not decide numeric values; denotation of Probability leaves is the definition. One residual known finding (Expression.conditional on counterfactual bases).", "§3 C13")
CLAIMED["C10"] = ("other", "symbolic evaluation of Canonicalizer.canonicalize per class + exponent vectors with the recursive call as induction hypothesis",
    "Each rewrite step of the canonicaliser is an identity (branch-wise), dispatch is exhaustive for the quantified classes, canonical_expr_equal uses one ordering; R13.1-R13.3 re-run for the callees.",
    "Structural induction on strict sub-terms; a == b => a/b = 1 assumes b != 0 (well-scoped precondition). Values not decided.", "§3 C10")
CLAIMED["C11"] = ("other", "read-footprint of _get_key vs dataclass equality footprint, shape checks on canonicalize branches, hash-order dataflow",
    "Necessary conditions of a normal form: injective-looking sort keys (coverage of every equality field), flat sorted products, shortcuts on canonical operands, no hash-ordered iteration into ordered values.",
    "Coverage is necessary, not sufficient, for injectivity; full confluence of the rewriting is not decided.", "§3 C11")
CLAIMED["C12"] = ("other", "printer templates extracted by symbolic evaluation, parsed with ast.parse (Python grammar as precedence oracle), constant-folded parser table, hash-order dataflow",
    "Writer's and reader's name tables agree; no slot after `/` can be filled by an exposed * or / text (all slot x class x template triples enumerated); printed text is independent of hash order; +/bare subscript convention agrees with the parser default.",
    "Object equality of the round trip beyond these necessary conditions is not decided; variable names outside the parser's alphabet are out of scope.", "§3 C12")
CLAIMED["C04"] = ("other", "symbolic evaluation of are_d_separated to one term + stage/order extraction + membership truth tables + effects analysis",
    "Necessary structure of a correct moralisation-based m-separation test: ancestral restriction to An({a,b} ∪ C), a latent common parent for EVERY bidirected edge before moralising, deletion of C after moralising, symmetric reachability, canonical hash-order-free record, no cached/mutated state.",
    "Equivalence with path-based d-separation on all graphs rests on Lauritzen's moralisation theorem and networkx (trusted); C14 for the graph primitives.", "§3 C04")
CLAIMED["C15"] = ("other", "partial evaluation of d_separations for k in {None,0,1,3} (constant folding through the call site) + term-shape checks + C04 rules",
    "Exactly-once pair enumeration, conditioning sets from V∖{a,b}, first-hit (minimum size first) search, inclusive size limit (largest size tried is k), one size-first representative per pair.",
    "Truth of each separation verdict is C04 (re-run inside this check); itertools/range trusted.", "§3 C15")
CLAIMED["C16"] = ("other", "symbolic evaluation of both conversions and of every Evans-rule generator + guard truth tables + removed-set ⊆ latents implication + effects analysis",
    "Node set survives both conversions, edge roles of the round trip, only latents are removed, each rule's guard equals the published guard, middle-latent transformation steps, rule order, evans_simplify works on a fresh LV-DAG and only adds latent tags.",
    "Idempotence of the four-rule pipeline, equality with the latent projection and invariance of separation/identifiability are behavioural and NOT decided.", "§3 C16")
CLAIMED["C01"] = ("other", "symbolic path enumeration of identify() + reference terms of the 7 published lines compared modulo set algebra (guard truth tables, action normal forms) + must-depend on the current distribution",
    "Refinement to Shpitser & Pearl's ID: each published line (guard, arguments of the recursive call, summation ranges, conditional factors over the prefix of the current order) is matched by a path of identify(), in the published order of tests; every action depends on identification.estimand.",
    "The numerical identity itself is the paper's soundness theorem + C14 (graph primitives) + C13 (DSL constructors), all trusted/checked elsewhere; termination not decided.", "§3 C01")
CLAIMED["C02"] = ("other", "effects/freshness analysis over the call cone, AST check of the wrapper's handler, dead-raise discharge on symbolic paths, node-membership truth tables from graph.py-derived node tables",
    "No mutation of graph/query/set arguments; Unidentifiable -> None exactly; the refusal is raised only on the line-5 path; every other coded raise is unreachable; ancestors/index lookups are asked only about nodes the derived surgery keeps; the Identification's graph copy is the same graph.",
    "Termination and completeness (refuses exactly when a hedge exists) are the published theorem, not decided; networkx assumed to raise only on missing nodes.", "§3 C02")
CLAIMED["C03"] = ("other", "symbolic evaluation of idc()/rule_2 + truth tables of the conditioning set and query triples + inherited ID/C04/R13.4 rules",
    "Refinement to IDC: rule-2 graph (edges into X and out of z removed), ALL-outcomes quantifier, conditioning set X ∪ (Z∖{z}), exchange (Y, X∪{z}, Z∖{z}), base case identify(Y∪Z, X) normalised over Y; the internal ValueError is unreachable.",
    "Value identity is the IDC theorem; separation oracle is C04; ID is C01/C02 (their rules are re-run inside this check).", "§3 C03")
CLAIMED["C06"] = ("other", "constructor census on symbolically evaluated paths + provenance of population tags / intervention arguments + membership formulas implying 'not a transport node'",
    "ID/IDC can only build P(v | predecessors) over nodes of the current graph; every TRSO leaf is tagged with the current/target domain and intervened only with Z_i ∩ X of its own domain; no transport node reaches a summation range or a distribution; ID*'s only leaf builder applies one intervention set to all variables.",
    "Vocabulary clause only (which constructors can run). Assumes districts and query sets contain no transport node; that ID's conditionals are the right observational terms is C01.", "§3 C06")
