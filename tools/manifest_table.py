TB = "Trusted base: networkx primitives, Python set/tuple/sorted semantics, the published soundness theorems; the check decides structural clauses only (see DESIGN.md per property for the undecided remainder)."
CLAIMED["C14"] = ("proof", "symbolic evaluation of graph.py + exhaustive membership truth tables (set algebra), effects/freshness analysis",
    "Proof of the node-set/edge-set clause, the receiver-untouched clause and the order-independence clause for all graphs and all subsets: each operation's result is derived from source as three membership formulas whose truth tables are compared exhaustively with the mathematical definition.",
    "Relative to networkx views/ancestors/connected_components/predecessors and S ⊆ V(G). intervene/get_nodes_in_directed_paths: filter structure and purity only.", "§3 C14")
CLAIMED["C13"] = ("other", "symbolic path enumeration of every operator/helper + exponent-vector (monomial) normal forms + membership truth tables",
    "Every branch of every __mul__/__truediv__, Fraction.simplify, Sum.simplify, marginalize/conditional, chain/fraction/bayes expansion, contract and Applier is shown to be an algebraic identity under the multiplicative denotation (for every dynamic class of the operands the branch admits).",
    "Does not decide numeric values; denotation of Probability leaves is the definition. One residual known finding (Expression.conditional on counterfactual bases).", "§3 C13")
CLAIMED["C10"] = ("other", "symbolic evaluation of Canonicalizer.canonicalize per class + exponent vectors with the recursive call as induction hypothesis",
    "Each rewrite step of the canonicaliser is an identity (branch-wise), dispatch is exhaustive for the quantified classes, canonical_expr_equal uses one ordering; R13.1-R13.3 re-run for the callees.",
    "Structural induction on strict sub-terms; a == b => a/b = 1 assumes b != 0 (well-scoped precondition). Values not decided.", "§3 C10")
CLAIMED["C11"] = ("other", "read-footprint of _get_key vs dataclass equality footprint, shape checks on canonicalize branches, hash-order dataflow",
    "Necessary conditions of a normal form: injective-looking sort keys (coverage of every equality field), flat sorted products, shortcuts on canonical operands, no hash-ordered iteration into ordered values.",
    "Coverage is necessary, not sufficient, for injectivity; full confluence of the rewriting is not decided.", "§3 C11")
CLAIMED["C12"] = ("other", "printer templates extracted by symbolic evaluation, parsed with ast.parse (Python grammar as precedence oracle), constant-folded parser table, hash-order dataflow",
    "Writer's and reader's name tables agree; no slot after `/` can be filled by an exposed * or / text (all slot x class x template triples enumerated); printed text is independent of hash order; +/bare subscript convention agrees with the parser default.",
    "Object equality of the round trip beyond these necessary conditions is not decided; variable names outside the parser's alphabet are out of scope.", "§3 C12")
CLAIMED["C04"] = ("other", "symbolic evaluation of are_d_separated to one term + stage/order extraction + membership truth tables + effects analysis",
    "Necessary structure of a correct moralisation-based m-separation test: ancestral restriction to An({a,b} ∪ C), a latent common parent for EVERY bidirected edge before moralising, deletion of C after moralising, symmetric reachability, canonical hash-order-free record, no cached/mutated state.",
    "Equivalence with path-based d-separation on all graphs rests on Lauritzen's moralisation theorem and networkx (trusted); C14 for the graph primitives.", "§3 C04")
CLAIMED["C15"] = ("other", "partial evaluation of d_separations for k in {None,0,1,3} (constant folding through the call site) + term-shape checks + C04 rules",
    "Exactly-once pair enumeration, conditioning sets from V∖{a,b}, first-hit (minimum size first) search, inclusive size limit (largest size tried is k), one size-first representative per pair.",
    "Truth of each separation verdict is C04 (re-run inside this check); itertools/range trusted.", "§3 C15")
CLAIMED["C16"] = ("other", "symbolic evaluation of both conversions and of every Evans-rule generator + guard truth tables + removed-set ⊆ latents implication + effects analysis",
    "Node set survives both conversions, edge roles of the round trip, only latents are removed, each rule's guard equals the published guard, middle-latent transformation steps, rule order, evans_simplify works on a fresh LV-DAG and only adds latent tags.",
    "Idempotence of the four-rule pipeline, equality with the latent projection and invariance of separation/identifiability are behavioural and NOT decided.", "§3 C16")
CLAIMED["C01"] = ("other", "symbolic path enumeration of identify() + reference terms of the 7 published lines compared modulo set algebra (guard truth tables, action normal forms) + must-depend on the current distribution",
    "Refinement to Shpitser & Pearl's ID: each published line (guard, arguments of the recursive call, summation ranges, conditional factors over the prefix of the current order) is matched by a path of identify(), in the published order of tests; every action depends on identification.estimand.",
    "The numerical identity itself is the paper's soundness theorem + C14 (graph primitives) + C13 (DSL constructors), all trusted/checked elsewhere; termination not decided.", "§3 C01")
CLAIMED["C02"] = ("other", "effects/freshness analysis over the call cone, AST check of the wrapper's handler, dead-raise discharge on symbolic paths, node-membership truth tables from graph.py-derived node tables",
    "No mutation of graph/query/set arguments; Unidentifiable -> None exactly; the refusal is raised only on the line-5 path; every other coded raise is unreachable; ancestors/index lookups are asked only about nodes the derived surgery keeps; the Identification's graph copy is the same graph.",
    "Termination and completeness (refuses exactly when a hedge exists) are the published theorem, not decided; networkx assumed to raise only on missing nodes.", "§3 C02")
CLAIMED["C03"] = ("other", "symbolic evaluation of idc()/rule_2 + truth tables of the conditioning set and query triples + inherited ID/C04/R13.4 rules",
    "Refinement to IDC: rule-2 graph (edges into X and out of z removed), ALL-outcomes quantifier, conditioning set X ∪ (Z∖{z}), exchange (Y, X∪{z}, Z∖{z}), base case identify(Y∪Z, X) normalised over Y; the internal ValueError is unreachable.",
    "Value identity is the IDC theorem; separation oracle is C04; ID is C01/C02 (their rules are re-run inside this check).", "§3 C03")
CLAIMED["C06"] = ("other", "constructor census on symbolically evaluated paths + provenance of population tags / intervention arguments + membership formulas implying 'not a transport node'",
    "ID/IDC can only build P(v | predecessors) over nodes of the current graph; every TRSO leaf is tagged with the current/target domain and intervened only with Z_i ∩ X of its own domain; no transport node reaches a summation range or a distribution; ID*'s only leaf builder applies one intervention set to all variables.",
    "Vocabulary clause only (which constructors can run). Assumes districts and query sets contain no transport node; that ID's conditionals are the right observational terms is C01.", "§3 C06")
CLAIMED["C05"] = ("other", "symbolic path enumeration of trso() with line helpers as primitives + per-helper record-update extraction + membership/guard satisfiability checks + order zones + effects analysis with shallow-copy aliasing",
    "Structure of TRSO: selection-node set and diagram, guards of lines 1-4 over regular nodes in published order, failure points, line 9/10 selection, line-6 gate (Z_i∩X≠∅ and all transport nodes separated from all outcomes given X in the diagram without edges into X) and sub-query, line-9 c-factor zones from the current distribution, line-10 factors on predecessors, deep-copy purity; activation and transport-node freedom (R6.2/R6.3) re-run.",
    "The transport formula's value (Tikka & Karvanen's theorem), the choice among several usable domains and termination are not decided. Line 10's dependence on the current distribution is NOT armed: no failing input could be exhibited (triage/witness_trso_line10.py).", "§3 C05")
CLAIMED["C07"] = ("other", "symbolic path enumeration of id_star() + polarity tables + line-6 term checks + must-depend of subscripts on the event + inherited counterfactual-graph rules (C18) and single-world leaf rule (R6.4)",
    "Line order and constant answers of ID*, the two polarity predicates (different vs equal value), line-6 decomposition over districts with Markov-pillow subscripts, conflict test, single-world base case. One known finding: pillow subscripts lose the event's value (R7.4).",
    "Value identity (Shpitser & Pearl 2008) and legitimacy of the counterfactual graph (C18's undecided core) are not decided.", "§3 C07")
CLAIMED["C08"] = ("other", "symbolic path enumeration of idc_star() + AST check of the line-1 handler + rule-2 term checks + R13.4",
    "Impossible conditions are rejected unconditionally (only Unidentifiable is swallowed), inconsistent joint -> Zero, rule 2 on the counterfactual graph for ALL outcomes with edges out of z removed and the blocked nodes as conditioning set, exchange on the original graph, final normalisation over the conditions' bases. Known finding inherited from Expression.conditional (R13.4 bound-bases).",
    "Value identity and the re-association of merged nodes (get_new_outcomes_and_conditions) are not decided; ID* itself is C07.", "§3 C08")
CLAIMED["C18"] = ("other", "def-use discipline of the loop-carried graph/event variables + Lemma-24 predicates as boolean formulas compared by satisfiability with the published case table + enumeration-family checks",
    "Structural clauses only: caller's event untouched; the relabelled event is what is tested/relabelled/returned; None only right after a merge of two nodes with different recorded values; success return is (H[An(E)], E); same-function / same-value / all-parent-pairs predicates; topological visiting order; all unordered world pairs.",
    "That merged nodes are the same random variable in every SCM (Lemma 24), acyclicity and probability preservation are the core of C18 and are NOT decided by this (or any in-reach static) analysis.", "§3 C18")
CLAIMED["C20"] = ("other", "triple predicates evaluated to boolean formulas compared by satisfiability with their mirror images and the published σ-open formulas; quantifier-term checks of the path/verdict functions; effects analysis",
    "Symmetry in the two nodes (mirror predicates + symmetric path family), adjacency (no triples on a two-node path, endpoints only), each triple rule equals its published formula (so on acyclic graphs it is the d-separation rule), statelessness. Known finding: simple paths + 'collider ∈ Z' is incomplete (R20.3).",
    "Agreement with d-separation on all ADMGs beyond these necessary conditions is not decided.", "§3 C20")
CLAIMED["C17"] = ("other", "symbolic evaluation of the IDENTIFY recursion and of Lemma 1/3/4 routines; range membership by satisfiability; position arithmetic compared as terms",
    "Formula-level refinement to Tian & Pearl: IDENTIFY's three cases in order with the published arguments (T' = district of G[A] containing C, Q[A] keeps Q[T]'s conditioning variables), Lemma 3's range T∖A, Lemma 4's ratio Q[H^(i)]/Q[H^(i-1)] with sums over successors, Lemma 1's conditioning sets and population tag, dispatch and the restricted order.",
    "Value identity is the paper's theorem; precondition 'C is a single district of G[C]' is the caller's.", "§3 C17")
CLAIMED["C19"] = ("other", "reference-definition comparison: each routine and the published definition (written as Python, parsed only) are evaluated symbolically by the same evaluator and compared path-pair by path-pair (guards by satisfiability with universal instantiation of search loops, values by canonical form modulo set algebra); structural recogniser for the component closure; def-use rule on defaultdict reads",
    "Refinement of every routine of the cone (minimisation, Def. 2.1 ancestors, Def. 4.2 ancestral sets / merge relations / closure, ctf-factor form, ctf-factors, factorisation, SIMPLIFY and its four helpers) to its published definition, plus well-formedness/totality: no DSL constructor precondition can fire where the definition returns; no phantom default of a defaultdict is used as data.",
    "That the published definitions preserve probability in every SCM (Correa-Lee-Bareinboim 2022, Lemmas/Thm 1) is the trusted base, not decided. C14 for graph primitives, C13 for Sum/Product.", "§3 C19")
CLAIMED["C09"] = ("other", "reference-definition comparison of Algorithms 2-4, Definition 4.1, the sigma-TR gates and the wrappers (symbolic evaluation of implementation and published line by the same evaluator; guards by satisfiability, values by canonical form) + inherited C19 / C17 rules for the sub-routines + coded-raise census",
    "Partial refinement to Correa-Lee-Bareinboim's ctfTRu / ctfTR / sigma-TR: every algorithm body and line helper equals its published line over the repository's sub-routines, whose own definitions (C19: SIMPLIFY, ancestors, ancestral components, ctf-factors; C17: c-factor, IDENTIFY) are re-checked in the same run; DSL constructions in the cone cannot hit a constructor precondition; the only coded raise of the algorithm bodies is sigma-TR's split-district guard.",
    "The value identity in every compatible multi-domain model family (Thm 2-3), the coverage of the input validators and termination are NOT decided.", "§3 C09")

# ---- additions of the last round (appended to the texts above) ---------------------------------------------------------------------
def _add(pid, method="", text="", note=""):
    cat, tech, txt, nt, ref = CLAIMED[pid]
    CLAIMED[pid] = (cat, tech + method, txt + text, nt + note, ref)

_SP = "; single-pass dataflow (E10) over every function reachable from the property's routines: a parameter declared Iterable is traversed at most once before it is materialised"
_SP += " -- parameters and local one-shot objects (generators, map / filter / zip / chain results) alike, a traversal inside a loop counting once per round"
for _p in sorted(CLAIMED):
    _add(_p, method=_SP)
_add("C11", method="; closure of the Fraction branch under its own shortcuts (operator table of __truediv__ with the class invariant 'a canonical fraction's denominator is not One'); agreement of the two orders (ensure_ordering vs Distribution.safe)",
     text=" The quotient the Fraction branch returns is a fixed point of that branch; the ordering the canonicaliser sorts by is the order in which Sum.simplify rebuilds marginals.")
_add("C12", method="; operator-table check that `*` never nests a Product; printer-family check (slots of a to_y0 text are filled by to_y0 texts, or by another notation only where both coincide for every class of the receiver)",
     text=" Products built by the operators are flat (necessary for object equality of the round trip); y0 printers never splice text-notation output.")
_add("C13", text=" _get_free_variables (what Expression.conditional normalises over) equals the definition of free variables.")
_add("C14", text=" get_intervened_ancestors / get_no_effect_on_outcomes equal An(Y) in the graph without arrows into X, resp. V∖X∖An(Y) there (also run inside C01/C02/C03/C05).")
_add("C15", method="; powerset evaluated on literal pools of 0..3 elements (144 configurations, constant folding) against itertools' subsets by size")
_add("C18", text=" Lemma 24 as used by make-cg, equivalence under the parallel-worlds assumption, 'same domain of values' and the own-intervention value are each held to their definitions (also inside C07/C08).")
_add("C20", text=" disorient() is the flat graph over ALL nodes (C14's comparison, run here).")
_add("C05", text=" The problem handed to TRSO keeps each domain's own data (R6.5), and domain activation moves every probability term -- children and conditioning set -- into the experimental world (R6.5 whole-term-moves; a genuine defect found by this clause's reference was repaired).")
_add("C06", text=" Domain activation is compared with its definition (R6.5 whole-term-moves).")

# ---- round 4 ----------------------------------------------------------------------------------------------------------------------------
_DEPS_NOTE = " The rules of the properties this one is stated over (graph primitives C14, DSL constructors C13, and whatever else check.py's DEPS table names, transitively) are run in BOTH tiers; a refutation there is a violation here unless it is a recorded finding of that property."
for _p in sorted(CLAIMED):
    _add(_p, note=_DEPS_NOTE)
_add("C13", method="; ordering-key discipline (E11): every key function and explicit __lt__ the DSL sorts by is evaluated symbolically, one term per return path -- no set-typed component, one scalar type per position on every path, compared fields read as they are (no int() of name pieces, regular expression, lower/strip/split)",
     text=" Sort keys of the DSL are total and injective on what equality compares (R13.6); product factors are compared with multiplicity.")
_add("C18", text=" The key merge_pw keeps 'the lower of two copies' by is the documented one (R18.5).")
_add("C12", method="; transparent-reader check (the reader's post-processing of the evaluated text is the identity on expressions); field-container check (a field equality compares and the printers sort is held in an order-free container)",
     text=" parse_y0 returns what the text denotes, unsimplified (R12.10); fields that equality compares order-free are stored order-free (R12.11).")
_add("C06", text=" Probability.intervene moves the whole distribution -- children and conditioning set (R6.4 reference row).")
_add("C14", text=" _to_interventions keeps every (name, star) pair (keyed-collapse refutation: a dict keyed by one field of a multi-field class and read back through .values()).")

# ---- round 5 ----------------------------------------------------------------------------------------------------------------------------
_add("C16", method="; must-pass-through rule over the return paths of evans_simplify (LV-DAG -> caller's latents tagged -> Evans' rules -> read-off); option-threading rule (a routine that takes `tag` hands it to every callee that takes `tag`)",
     text=" Every answer of evans_simplify goes through the whole pipeline (R16.6); the latent tag is threaded through every LV-DAG routine and the Taheri design helpers (R16.7).")
_add("C12", text=" The parser's alphabet is closed under the documented naming scheme: every letter x digits 0-9 x with/without underscore (R12.1 alphabet-closed).")
_add("C06", text=" Reader and writer of selection-node names (is_transport_node / transport_variable) are held to their definitions: a prefix test on the name and nothing else (R6.5 selection-node-names).")
_add("C05", text=" TRSO line 2 is held to its definition (the CURRENT domain's diagram decides what is marginalised; R5.3 line2-restriction); selection-node names as in C06.")
_add("C07", text=" Integer recursion counters are left free in the comparison: a step that depends on the depth of the recursion is a deviation.")
_add("C08", text=" Integer recursion counters are left free in the comparison.")
_add("C13", text=" A path of Sum.simplify that returns the constant Zero() is refuted (R13.3).")
# round 6
_add("C18", method="; def-use of the merged pair (R18.6): the names handed to the event renaming are bound, at every binding, to positions 1 and 2 of what the merge routine returned",
     text=" The event is renamed with the pair the merge returned (R18.6): which copy survives in the graph is the merge's decision, and the event follows it.")
_add("C13", method="; small-domain folding of key components computed from the three-valued `star` field (E11 K2: one-to-one on {None, False, True}, on {False, True} for subscripts)",
     text=" Sum.simplify's no-capture test is held to its definition (ONE subscript of ONE counterfactual child is enough); the lookup of children by base variable happens only on paths that look at how often a base occurs (R13.3 one-to-one lookup -- the repaired defect of joints like P(C @ A, C @ B)).")
_add("C11", method="; small-domain folding of key components computed from the three-valued `star` field (one-to-one on {None, False, True})",
     text=" A sort-key component computed from `star` alone distinguishes a variable from its values and the two values from each other.")
_add("C10", text=" Inherits R13.3's no-capture definition and one-to-one lookup clause for Sum.simplify, which canonicalize runs on every Sum.")
