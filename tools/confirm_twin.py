#!/venv/bin/python
"""Confirm a sub-agent's behaviour-preserving refactoring in a fresh scratch worktree and keep it under /verif/twins/.

usage: confirm_twin.py <srcdir with patch.diff notes.md> <twin-id>     e.g. confirm_twin.py /tmp/agents/C14/t1 C14-t1
Confirms: the patch applies to HEAD and the unedited suite gives 387 passed and exactly the 6 baseline failures with it.
(Behaviour preservation itself is the sub-agent's argument in notes.md plus the suite; a twin on which a check alarms is triaged by hand:
 either the check is brittle -- fix the check -- or the 'refactoring' does change behaviour -- then it is moved to /verif/seeded or dropped.)
"""
import json, os, re, shutil, subprocess, sys, tempfile

BASE_FAIL = {"test_ci_test_continuous", "test_discrete_graph_falsifications", "test_falsifications", "test_method_mismatch",
             "test_graph_with_latents", "test_graph_without_latents"}

def sh(cmd, cwd=None, env=None, timeout=1800):
    r = subprocess.run(cmd, shell=True, cwd=cwd, env=env, capture_output=True, text=True, timeout=timeout)
    return r.returncode, r.stdout + r.stderr

def main():
    src, tid = sys.argv[1:3]
    wt = tempfile.mkdtemp(prefix="confirm-", dir="/tmp")
    os.rmdir(wt)
    res = {"twin": tid}
    try:
        rc, out = sh(f"git -C /repo worktree add -q --detach {wt} HEAD")
        assert rc == 0, out
        rc, out = sh(f"git -C {wt} apply {os.path.abspath(os.path.join(src, 'patch.diff'))}")
        res["applies"] = rc == 0
        if rc == 0:
            rc2, out2 = sh("/venv/bin/python -m pytest -q -p no:cacheprovider -n 4 --timeout=900 2>&1 | tail -12", cwd=wt, env=dict(os.environ, PYTHONPATH=f"{wt}/src"))
            m = re.search(r"(\d+) failed, (\d+) passed", out2)
            res["suite"] = m.group(0) if m else out2[-200:]
            failed = set(re.findall(r"FAILED \S+::(\w+)", out2))
            res["suite_same_as_baseline"] = bool(m) and m.group(2) == "387" and failed == BASE_FAIL
        res["confirmed"] = bool(res.get("applies") and res.get("suite_same_as_baseline"))
    finally:
        sh(f"git -C /repo worktree remove --force {wt}")
        shutil.rmtree(wt, ignore_errors=True)
    if res["confirmed"]:
        os.makedirs("/verif/twins", exist_ok=True)
        shutil.copy(os.path.join(src, "patch.diff"), f"/verif/twins/{tid}.diff")
        notes = open(os.path.join(src, "notes.md")).read() if os.path.exists(os.path.join(src, "notes.md")) else ""
        json.dump({"twin": tid, "origin": "independent sub-agent given only the property text and a scratch worktree", "title": notes.strip().splitlines()[0][:200] if notes.strip() else "",
                   "argument": notes.strip()[:2500], "suite_with_patch": res["suite"] + " (same 6 baseline failures)",
                   "repo_head_at_confirmation": sh("git -C /repo rev-parse --short HEAD")[1].strip()}, open(f"/verif/twins/{tid}.json", "w"), indent=1)
    print(json.dumps(res))

main()
