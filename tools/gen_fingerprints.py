#!/venv/bin/python
"""Record the fingerprint (parameters + body, name-free) of every private routine of /repo/src/y0 in /verif/yv/refs/fingerprints.json.
Run after a change of /repo that the checks accept (like gen_manifest.py): the file lets the model keep a renamed private helper under its old
name when nothing but the name changed."""
import json, sys
sys.path.insert(0, "/verif")
from yv.model import Model
import os
p = "/verif/yv/refs/fingerprints.json"
if os.path.exists(p):
    os.rename(p, p + ".old")
try:
    m = Model(None)
    out = {q: {"fp": Model.fingerprint(f), "arity": Model.arity(f), "params": Model.param_names(f), "sketch": Model.sketch(f)} for q, f in sorted(m.functions.items())
           if q.startswith("y0.") and f.node.name.startswith("_") and not f.node.name.startswith("__")}
    json.dump(out, open(p, "w"), indent=0, sort_keys=True)
    print(len(out), "private routines recorded")
finally:
    if os.path.exists(p + ".old"):
        os.remove(p + ".old")
