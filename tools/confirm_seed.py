#!/venv/bin/python
"""Confirm a sub-agent's seeded change in a fresh scratch worktree and, if confirmed, keep it under /verif/seeded/.

usage: confirm_seed.py <srcdir with patch.diff demo.py notes.md> <seed-id> <property-id>
Confirms: patch applies to HEAD; demo fails with it and passes without it; the unedited suite gives 387 passed and
exactly the 6 baseline failures with it.
"""
import json, os, re, shutil, subprocess, sys, tempfile

BASE_FAIL = {"test_ci_test_continuous", "test_discrete_graph_falsifications", "test_falsifications", "test_method_mismatch",
             "test_graph_with_latents", "test_graph_without_latents"}

def sh(cmd, cwd=None, env=None, timeout=1800):
    r = subprocess.run(cmd, shell=True, cwd=cwd, env=env, capture_output=True, text=True, timeout=timeout)
    return r.returncode, r.stdout + r.stderr

def main():
    src, seed, pid = sys.argv[1:4]
    wt = tempfile.mkdtemp(prefix="confirm-", dir="/tmp")
    os.rmdir(wt)
    res = {"seed": seed, "property": pid}
    try:
        rc, out = sh(f"git -C /repo worktree add -q --detach {wt} HEAD")
        assert rc == 0, out
        env = dict(os.environ, PYTHONPATH=f"{wt}/src", PYTHONHASHSEED="0")
        demo = os.path.abspath(os.path.join(src, "demo.py"))
        rc0, out0 = sh(f"/venv/bin/python {demo}", cwd=wt, env=env, timeout=900)
        res["demo_clean_exit"] = rc0
        rc, out = sh(f"git -C {wt} apply {os.path.abspath(os.path.join(src, 'patch.diff'))}")
        res["applies"] = rc == 0
        if rc != 0:
            res["error"] = out[-300:]
        else:
            rc1, out1 = sh(f"/venv/bin/python {demo}", cwd=wt, env=env, timeout=900)
            res["demo_patched_exit"] = rc1
            res["demo_patched_tail"] = out1.strip().splitlines()[-1][:300] if out1.strip() else ""
            rc2, out2 = sh("/venv/bin/python -m pytest -q -p no:cacheprovider -n 4 --timeout=900 2>&1 | tail -12", cwd=wt, env=dict(os.environ, PYTHONPATH=f"{wt}/src"))
            m = re.search(r"(\d+) failed, (\d+) passed", out2)
            res["suite"] = m.group(0) if m else out2[-200:]
            failed = set(re.findall(r"FAILED \S+::(\w+)", out2))
            res["suite_same_as_baseline"] = bool(m) and m.group(2) == "387" and failed == BASE_FAIL
        res["confirmed"] = bool(res.get("applies") and res.get("demo_clean_exit") == 0 and res.get("demo_patched_exit", 0) != 0 and res.get("suite_same_as_baseline"))
    finally:
        sh(f"git -C /repo worktree remove --force {wt}")
        shutil.rmtree(wt, ignore_errors=True)
    if res["confirmed"]:
        dst = f"/verif/seeded/{seed}"
        os.makedirs(dst, exist_ok=True)
        for fn in ("patch.diff", "demo.py", "notes.md"):
            if os.path.exists(os.path.join(src, fn)):
                shutil.copy(os.path.join(src, fn), os.path.join(dst, fn))
        notes = open(os.path.join(src, "notes.md")).read() if os.path.exists(os.path.join(src, "notes.md")) else ""
        meta = {"seed": seed, "breaks_property": pid, "origin": "independent sub-agent given only the property text and a scratch worktree",
                "needs_to_manifest": notes.strip().split("\n\n")[0][:1200],
                "confirmed_by": {"demo on clean HEAD": f"exit {res['demo_clean_exit']}", "demo with patch": f"exit {res['demo_patched_exit']}: {res.get('demo_patched_tail','')}",
                                 "unedited suite with patch (pytest -n 4)": res["suite"] + " (same 6 baseline failures)"},
                "repo_head_at_confirmation": sh("git -C /repo rev-parse --short HEAD")[1].strip()}
        json.dump(meta, open(os.path.join(dst, "meta.json"), "w"), indent=1)
    print(json.dumps(res))

main()
