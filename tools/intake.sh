#!/bin/bash
# intake.sh <PID> [items...]: confirm $AGENTS_DIR/<PID>/<item> (AGENTS_DIR default /tmp/agents; items default: m6 m7 t3 t4) and file them under /verif/seeded and /verif/twins
P=$1; shift
A=${AGENTS_DIR:-/tmp/agents}
ITEMS=${@:-m6 m7 t3 t4}
for i in $ITEMS; do
  [ -f $A/$P/$i/patch.diff ] || continue
  case $i in
    m*) [ -d /verif/seeded/$P-$i ] || /venv/bin/python /verif/tools/confirm_seed.py $A/$P/$i $P-$i $P 2>&1 | grep -v conda;;
    t*) [ -f /verif/twins/$P-$i.diff ] || /venv/bin/python /verif/tools/confirm_twin.py $A/$P/$i $P-$i 2>&1 | grep -v conda;;
  esac
done
