#!/bin/bash
# intake.sh <PID>: confirm /tmp/agents/<PID>/{m4,m5,t1,t2} and file them under /verif/seeded and /verif/twins
P=$1
for m in m4 m5 m6 m7; do [ -f /tmp/agents/$P/$m/patch.diff ] && /venv/bin/python /verif/tools/confirm_seed.py /tmp/agents/$P/$m $P-$m $P 2>&1 | grep -v conda; done
for t in t1 t2 t3 t4; do [ -f /tmp/agents/$P/$t/patch.diff ] && /venv/bin/python /verif/tools/confirm_twin.py /tmp/agents/$P/$t $P-$t 2>&1 | grep -v conda; done
