#!/bin/bash
# intake.sh <PID> [items...]: confirm /tmp/agents/<PID>/<item> (default: m6 m7 t3 t4) and file them under /verif/seeded and /verif/twins
P=$1; shift
ITEMS=${@:-m6 m7 t3 t4}
for i in $ITEMS; do
  [ -f /tmp/agents/$P/$i/patch.diff ] || continue
  case $i in
    m*) [ -d /verif/seeded/$P-$i ] || /venv/bin/python /verif/tools/confirm_seed.py /tmp/agents/$P/$i $P-$i $P 2>&1 | grep -v conda;;
    t*) [ -f /verif/twins/$P-$i.diff ] || /venv/bin/python /verif/tools/confirm_twin.py /tmp/agents/$P/$i $P-$i 2>&1 | grep -v conda;;
  esac
done
