#!/venv/bin/python
"""Apply a patch to a scratch copy of /repo (never /repo itself), run checks with --repo, clean up.

usage: trypatch.py <patch.diff> <PID> [<PID> ...] [-R]     (-R: apply in reverse)
Prints per property: exit code and the VIOLATION / ANALYSIS lines.
"""
import os, shutil, subprocess, sys, tempfile

def main():
    args = [a for a in sys.argv[1:] if a != "-R"]
    reverse = "-R" in sys.argv
    patch, pids = args[0], args[1:]
    d = tempfile.mkdtemp(prefix="yvscratch-", dir=os.environ.get("TMPDIR", "/tmp"))
    try:
        shutil.copytree("/repo/src", os.path.join(d, "src"))
        cmd = ["patch", "-p1", "-s", "-d", d, "-i", os.path.abspath(patch)] + (["-R"] if reverse else [])
        r = subprocess.run(cmd, capture_output=True, text=True)
        if r.returncode != 0:
            print("PATCH-FAILED", r.stdout, r.stderr)
            return 3
        worst = 0
        for pid in pids:
            env = dict(os.environ, YV_EVIDENCE_DIR=os.path.join(d, "ev"))
            r = subprocess.run(["/venv/bin/python", "/verif/yv/check.py", pid, "--repo", d, "--no-evidence"], capture_output=True, text=True, env=env)
            lines = [l for l in r.stdout.splitlines() if l.startswith(("VIOLATION", "ANALYSIS", "KNOWN-FINDING", "SUMMARY")) or l.startswith("REFUTED") or l.startswith("UNKNOWN") or l.startswith("   ")]
            print(f"== {pid} exit={r.returncode}")
            for l in lines[:14]:
                print("   ", l[:400])
            if r.stderr.strip():
                print("    STDERR:", r.stderr.strip()[-400:])
            worst = max(worst, r.returncode)
        return worst
    finally:
        shutil.rmtree(d, ignore_errors=True)

sys.exit(main())
