#!/venv/bin/python
"""Run the checks against every seeded change under /verif/seeded (on scratch copies, never /repo).

usage: seed_matrix.py [--all] [seed-id ...]
  default: each seed is checked against the property it breaks;  --all: against every claimed property.
Prints one line per seed: CAUGHT (exit 1 + VIOLATION naming the property), MISSED (exit 0), BROKEN (exit 2), NOAPPLY.
Writes /verif/seeded/MATRIX.json.
"""
import concurrent.futures as cf
import json
import os
import shutil
import subprocess
import sys
import tempfile

V = "/verif"


def claimed():
    m = json.load(open(f"{V}/MANIFEST.json"))
    return [c["property_id"] for c in m["checks"]]


def run_seed(seed, pids):
    sd = f"{V}/seeded/{seed}"
    d = tempfile.mkdtemp(prefix="yvseed-", dir=os.environ.get("TMPDIR", "/tmp"))
    out = {"seed": seed, "results": {}}
    try:
        shutil.copytree("/repo/src", os.path.join(d, "src"))
        r = subprocess.run(["patch", "-p1", "-s", "-d", d, "-i", f"{sd}/patch.diff"], capture_output=True, text=True)
        if r.returncode != 0:
            out["noapply"] = (r.stdout + r.stderr)[-300:]
            return out
        for pid in pids:
            env = dict(os.environ, YV_EVIDENCE_DIR=os.path.join(d, "ev"))
            r = subprocess.run(["/venv/bin/python", f"{V}/yv/check.py", pid, "--repo", d, "--no-evidence"],
                               capture_output=True, text=True, env=env)
            viol = [l for l in r.stdout.splitlines() if l.startswith("VIOLATION")]
            err = [l for l in r.stdout.splitlines() if l.startswith("ANALYSIS")]
            out["results"][pid] = {"exit": r.returncode, "violations": [v[:300] for v in viol[:4]], "errors": [e[:300] for e in err[:3]]}
    finally:
        shutil.rmtree(d, ignore_errors=True)
    return out


def main():
    args = [a for a in sys.argv[1:] if not a.startswith("--")]
    allp = "--all" in sys.argv
    seeds = args or sorted(x for x in os.listdir(f"{V}/seeded") if os.path.isdir(f"{V}/seeded/{x}"))
    cl = claimed()
    jobs = {}
    with cf.ThreadPoolExecutor(max_workers=16) as ex:
        for s in seeds:
            meta = json.load(open(f"{V}/seeded/{s}/meta.json"))
            target = meta["breaks_property"]
            pids = cl if allp else ([target] if target in cl else [])
            jobs[s] = (target, ex.submit(run_seed, s, pids))
    matrix = {}
    n = {"CAUGHT": 0, "MISSED": 0, "BROKEN": 0, "NOAPPLY": 0, "UNCLAIMED": 0}
    for s, (target, fut) in jobs.items():
        res = fut.result()
        if "noapply" in res:
            st = "NOAPPLY"
        elif target not in res["results"]:
            st = "UNCLAIMED"
        else:
            e = res["results"][target]["exit"]
            st = {0: "MISSED", 1: "CAUGHT", 2: "BROKEN"}.get(e, f"EXIT{e}")
        n[st] = n.get(st, 0) + 1
        others = [p for p, r in res["results"].items() if p != target and r["exit"] != 0]
        line = f"{s:8s} {st:9s}"
        if st == "CAUGHT":
            line += " " + "; ".join(v.split(" rule=")[-1] for v in res["results"][target]["violations"][:2])
        if st == "BROKEN":
            line += " " + "; ".join(res["results"][target]["errors"][:1])
        if others:
            line += "   also: " + ",".join(f"{p}={res['results'][p]['exit']}" for p in others)
        print(line)
        matrix[s] = {"target": target, "status": st, "detail": res.get("results", {}), "noapply": res.get("noapply")}
    print(n)
    json.dump(matrix, open(f"{V}/seeded/MATRIX.json", "w"), indent=1)


main()
