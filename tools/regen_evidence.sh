#!/bin/bash
# Re-run every quick check against /repo itself (rewrites /verif/evidence/<id>.json) and validate MANIFEST + evidence against the schemas.
cd /verif
bad=0
for p in C01 C02 C03 C04 C05 C06 C07 C08 C09 C10 C11 C12 C13 C14 C15 C16 C17 C18 C19 C20; do
  out=$(/venv/bin/python yv/check.py $p --tier quick 2>/dev/null | tail -1)
  case "$out" in *exit=0*) ;; *) echo "NOT GREEN: $out"; bad=1;; esac
done
/venv/bin/python tools/gen_manifest.py >/dev/null 2>&1
python3-vt - <<'PY'
import json, jsonschema, glob
m = json.load(open('/verif/MANIFEST.json')); jsonschema.validate(m, json.load(open('/root/.vp/MANIFEST.schema.json')))
es = json.load(open('/root/.vp/EVIDENCE.schema.json'))
n = 0
for f in sorted(glob.glob('/verif/evidence/*.json')):
    jsonschema.validate(json.load(open(f)), es); n += 1
print("manifest ok;", n, "evidence files ok")
PY
exit $bad
