#!/venv/bin/python
"""Regenerate /verif/MANIFEST.json from the table below (the single source of per-property metadata)."""
import json, os
V = "/verif"
props = [json.loads(l) for l in open(f"{V}/properties.jsonl")]
CMD = "/venv/bin/python /verif/yv/check.py {pid} --tier {tier}"
# pid -> (category, technique, level text, level note, design_ref)
CLAIMED = {}
NOT_APPLICABLE = {}
exec(open(f"{V}/tools/manifest_table.py").read())
checks = []
for p in props:
    pid = p["id"]
    if pid in CLAIMED:
        cat, tech, text, note, ref = CLAIMED[pid]
        checks.append({
            "property_id": pid,
            "quick_cmd": CMD.format(pid=pid, tier="quick"),
            "thorough_cmd": CMD.format(pid=pid, tier="thorough"),
            "evidence_file": f"/verif/evidence/{pid}.json",
            "replay_cmd_template": "/venv/bin/python /verif/yv/check.py " + pid + " --replay {path}",
            "engine": "yv",
            "level_claimed": {"category": cat, "text": text, "design_ref": ref},
            "level_note": note,
            "technique": tech,
        })
na = [{"property_id": p["id"], "reason": NOT_APPLICABLE.get(p["id"], "check not built yet (build in progress); see DESIGN.md")} for p in props if p["id"] not in CLAIMED]
m = {
    "version": 1,
    "setup_cmd": "/venv/bin/python /verif/yv/selfcheck.py",
    "hooks": {"guard": "Y0_VERIF", "enable": "no hooks: the checks are static analyses of /repo/src and execute nothing of y0",
              "baseline_off_cmd": "cd /repo && /venv/bin/python -m pytest -ra -q -p no:cacheprovider --timeout=900 --continue-on-collection-errors",
              "source_commits": [], "add_only": True},
    "engines": [{"name": "yv", "path": "/verif/yv", "serves_properties": sorted(CLAIMED),
                 "kind_free_text": "static analysis over Python ast: program model + symbolic path evaluator + set-algebra truth tables + exponent-vector denotation + effects/freshness + hash-order dataflow; no code of y0 is imported or run"}],
    "checks": checks,
    "notes": "Every check re-parses /repo/src/y0 on each run. Exit 0/1/2 = proven-or-known / VIOLATION / analysis broken. fix: commits in /repo are listed in /verif/known_findings.json as status=fixed.",
    "not_applicable": na,
}
json.dump(m, open(f"{V}/MANIFEST.json", "w"), indent=1, ensure_ascii=False)
print("claimed:", sorted(CLAIMED), "n/a:", [x["property_id"] for x in na])
