"""Denotation of graph-building code: a networkx DiGraph / Graph (or the repository's NxMixedGraph builder calls) written as a chain of
effects -- add_node / add_nodes_from / add_edge / add_edges_from / remove_node / remove_nodes_from, in loops or not -- is replaced by the
collections it denotes:

    ('nxgraph', NODES, EDGES, ATTRS)                  for nx.DiGraph / nx.Graph
    ('mixedgraph', NODES, DIRECTED, UNDIRECTED)       for NxMixedGraph's own builder methods

with NODES / EDGES ... set terms of the evaluator (unions, big unions over the loop generators, comprehensions that filter out the edges of a
removed node).  Two spellings of the same construction -- one add_edges_from(product(P, C)) or a double loop of add_edge, a comprehension or a
loop, a helper that removes and reports -- then have the same denotation and are compared by the set algebra, not by their shape.

The order of effects is respected between statements; inside one loop the evaluator has already separated the statements of the body into one
layer per statement (each over all iterations), which is its standing abstraction of such loops and is the same on both sides of a comparison.
"""

from __future__ import annotations

from typing import Any

from .terms import EMPTY, Term, is_term, mapterm

ADDERS = {"add_node", "add_nodes_from", "add_edge", "add_edges_from", "remove_node", "remove_nodes_from", "remove_edge", "remove_edges_from",
          "add_directed_edge", "add_undirected_edge"}


def _flatten(t: Term):
    effs = []
    while t[0] in ("accum", "mut"):
        if t[0] == "accum":
            if t[1] != "effect" or (len(t) > 5 and t[5] == ("const", True)):
                return None, None
            effs.append((t[3], tuple(t[4])))
            t = t[2]
        else:
            for e in reversed(t[2]):
                effs.append((e, ()))
            t = t[1]
    return t, list(reversed(effs))


def _union(a: Term, b: Term) -> Term:
    if a == EMPTY:
        return b
    if b == EMPTY:
        return a
    return ("union", a, b)


def _lift(s: Term, gens: tuple) -> Term:
    """the union of s over all iterations of the enclosing loops"""
    if not gens:
        return s
    core = s[1] if s[0] == "setof" else s
    while core[0] == "call" and core[1] in ("list", "tuple", "set", "frozenset", "iter") and len(core[2]) == 1 and not core[3]:
        core = core[2][0]
    if core[0] == "comp" and core[1] in ("set", "list", "gen") and not (isinstance(core[2], tuple) and core[2] and core[2][0] == "%payload"):
        # a comprehension built inside the loop: one flat union over the loop's generators followed by its own
        return ("bigunion", ("comp", "set", ("setlit", (core[2],)), tuple(gens) + tuple(core[3])))
    if core[0] == "bigunion" and core[1][0] == "comp":
        return ("bigunion", ("comp", "set", core[1][2], tuple(gens) + tuple(core[1][3])))
    return ("bigunion", ("comp", "set", s, tuple(gens)))


def _arg(e: Term, i: int, *names: str):
    kw = dict(e[3])
    for n in names:
        if n in kw:
            return kw[n]
    if len(e[2]) > i:
        return e[2][i]
    return None


_counter = [0]


def _fresh(hint: str) -> Term:
    _counter[0] += 1
    return ("var", f"%{hint}{_counter[0]}_")


def _endpoints(S: Term, which: int) -> Term:
    """{e[which] for e in S} for a collection S of pairs, destructured where S shows its pairs"""
    core = S
    while core[0] == "call" and core[1] in ("list", "tuple", "set", "frozenset", "iter") and len(core[2]) == 1 and not core[3]:
        core = core[2][0]
    if core[0] == "setof":
        core = core[1]
    if core[0] == "accum":
        from .setalg import accum_as_comp
        c = accum_as_comp(core)
        if c is not None:
            core = c
        elif core[1] == "concat" and len(core) > 5 and core[5] == ("const", False) and core[3][0] == "listlit" and len(core[3][1]) == 1 \
                and core[3][1][0][0] == "tuplelit" and len(core[3][1][0][1]) == 2:
            # edges appended to an existing list: the endpoints of the old edges and those of the new ones
            old = _endpoints(core[2], which)
            return ("union", old, ("comp", "set", core[3][1][0][1][which], tuple(core[4])))
    if core[0] == "concat" and len(core) == 3:
        return ("union", _endpoints(core[1], which), _endpoints(core[2], which))
    if core[0] == "comp" and core[1] in ("list", "gen", "set") and is_term(core[2]) and core[2][0] == "tuplelit" and len(core[2][1]) == 2:
        return ("comp", "set", core[2][1][which], core[3])
    if core[0] in ("listlit", "tuplelit", "setlit") and core[1] and all(x[0] == "tuplelit" and len(x[1]) == 2 for x in core[1]):
        return ("setlit", tuple(x[1][which] for x in core[1]))
    if core[0] == "call" and isinstance(core[1], str) and core[1].split(".")[-1] == "product" and len(core[2]) == 2 and not core[3]:
        a, b = _fresh("ea"), _fresh("eb")
        return ("comp", "set", a if which == 0 else b, ((a, core[2][0], ()), (b, core[2][1], ())))
    a, b = _fresh("ea"), _fresh("eb")
    return ("comp", "set", a if which == 0 else b, ((("tuplelit", (a, b)), S, ()),))


def _without(E: Term, R: Term) -> Term:
    """the edges of E that do not touch a node of R"""
    a, b = _fresh("ra"), _fresh("rb")
    return ("comp", "set", ("tuplelit", (a, b)), ((("tuplelit", (a, b)), E, (("not", ("in", a, R)), ("not", ("in", b, R)))),))


def _within(E: Term, N: Term) -> Term:
    """the edges of E with both endpoints among the nodes N (the edges an induced sub-graph keeps)"""
    a, b = _fresh("wa"), _fresh("wb")
    return ("comp", "set", ("tuplelit", (a, b)), ((("tuplelit", (a, b)), E, (("in", a, N), ("in", b, N))),))


def _is_nx_value(t: Term) -> bool:
    """a plain networkx graph: the result of a networkx routine, or a denotation built here"""
    if t[0] == "nxgraph":
        return True
    if t[0] == "call" and isinstance(t[1], str) and (t[1].startswith("networkx.") or t[1].startswith("nx.")):
        return True
    if t[0] == "meth" and t[2] == "copy" and not t[3] and not t[4]:
        return _is_nx_value(t[1])
    return False


def _nx_parts(t: Term):
    if t[0] == "nxgraph":
        return t[1], t[2], t[3]
    if t[0] == "meth" and t[2] == "copy":
        return _nx_parts(t[1])
    return ("meth", t, "nodes", (), ()), ("meth", t, "edges", (), ()), EMPTY


def induced(t: Term) -> Term | None:
    """X.subgraph(S) of a plain networkx graph X: the nodes of X that are in S, and the edges of X among them."""
    if t[0] == "meth" and t[2] == "subgraph" and _is_nx_value(t[1]):
        kw = dict(t[4])
        S = kw.get("nodes", kw.get("vertices", t[3][0] if t[3] else None))
        if S is None:
            return None
        N, E, A = _nx_parts(t[1])
        N2 = ("inter", N if N[0] in ("union", "inter", "diff", "setof", "setlit", "comp", "bigunion") else ("setof", N), ("setof", S))
        return ("nxgraph", N2, _within(E, N2), A)
    return None


def _from_edges_args(base: Term):
    if base[0] == "meth" and base[2] == "from_edges":
        args, kw = base[3], dict(base[4])
    elif base[0] == "call" and isinstance(base[1], str) and base[1].endswith("NxMixedGraph.from_edges"):
        args, kw = base[2], dict(base[3])
    else:
        return None
    names = ("nodes", "directed", "undirected")
    vals = []
    for i, nm in enumerate(names):
        v = kw.get(nm, args[i] if len(args) > i else None)
        if v == ("const", None):
            v = None
        vals.append(v)
    if set(kw) - set(names) or len(args) > 3:
        return None
    return tuple(vals)


def _same_graph_parts(fe) -> Term | None:
    n0, d0, u0 = fe

    def owner(t, comp, what):
        while t is not None and t[0] == "call" and t[1] in ("list", "tuple", "set", "iter") and len(t[2]) == 1 and not t[3]:
            t = t[2][0]
        if t is None or t[0] != "meth" or t[2] != what or t[3] or t[4]:
            return None
        o = t[1]
        if comp is None:
            return o[1] if (o[0] == "attr" and o[2] == "directed") else o
        return o[1] if (o[0] == "attr" and o[2] == comp) else None

    g1, g2, g3 = owner(n0, None, "nodes"), owner(d0, "directed", "edges"), owner(u0, "undirected", "edges")
    return g1 if (g1 is not None and g1 == g2 == g3) else None


def denote(t: Term) -> Term | None:
    """The denotation of a graph-effect chain, or None when `t` is not one (or uses an effect this module does not model)."""
    if not (is_term(t) and t[0] in ("accum", "mut")):
        return None
    base, effs = _flatten(t)
    if base is None or not effs:
        return None
    names = {e[1] for e, _ in effs if e[0] == "call"}
    if not names or not names <= ADDERS or any(e[0] != "call" for e, _ in effs):
        return None
    mixed = bool(names & {"add_directed_edge", "add_undirected_edge"})
    fresh_nx = base[0] == "call" and isinstance(base[1], str) and base[1].split(".")[-1] in ("DiGraph", "Graph", "MultiGraph") and not base[2] and not base[3]
    fresh_mixed = base[0] in ("rec", "new") and str(base[1]).endswith("NxMixedGraph")
    if base[0] == "call" and str(base[1]).endswith("NxMixedGraph"):
        kw = dict(base[3])
        fresh_mixed = all(v[0] == "call" and str(v[1]).split(".")[-1] in ("DiGraph", "Graph") and not v[2] for v in kw.values())
    if fresh_nx or fresh_mixed:
        N: Term = EMPTY
        E: Term = EMPTY
        U: Term = EMPTY
    elif _from_edges_args(base) is not None:
        # NxMixedGraph.from_edges(nodes, directed, undirected): a fresh graph with exactly these (the builder itself is checked by C14 R14.0)
        n0, d0, u0 = _from_edges_args(base)
        N = EMPTY if n0 is None else ("setof", n0)
        E = EMPTY
        U = EMPTY
        if d0 is not None:
            a, b = _fresh("fa"), _fresh("fb")
            E = ("setof", d0)
            N = _union(N, _union(_endpoints(d0, 0), _endpoints(d0, 1)))
        if u0 is not None:
            a, b = _fresh("fa"), _fresh("fb")
            U = ("bigunion", ("comp", "set", ("setlit", (("setlit", (a, b)),)), ((("tuplelit", (a, b)), u0, ()),)))
            N = _union(N, _union(_endpoints(u0, 0), _endpoints(u0, 1)))
        mixed = True
    elif base[0] in ("var", "attr", "index", "call", "meth"):
        if mixed:
            N, E, U = ("V", base), ("Ed", base), ("Eu", base)
        else:
            N, E, U = ("meth", base, "nodes", (), ()), ("meth", base, "edges", (), ()), EMPTY
            if base[0] == "meth" and base[2] == "copy" and not base[3] and not base[4]:
                N, E = ("meth", base[1], "nodes", (), ()), ("meth", base[1], "edges", (), ())  # a copy has the same nodes and edges
    else:
        return None
    A: list = []
    for e, gens in effs:
        name = e[1]
        if name == "add_node":
            n = _arg(e, 0, "node_for_adding", "n", "node")
            if n is None:
                return None
            N = _union(N, _lift(("setlit", (n,)), gens))
            for k, v in e[3]:
                if k in ("node_for_adding", "n", "node"):
                    continue
                if k == "**":
                    if v[0] == "dictlit":
                        for kk, vv in v[1]:
                            A.append(_lift(("setlit", (("tuplelit", (n, kk, vv)),)), gens))
                    continue
                A.append(_lift(("setlit", (("tuplelit", (n, ("const", k), v)),)), gens))
        elif name == "add_nodes_from":
            S = _arg(e, 0, "nodes_for_adding", "nodes")
            if S is None:
                return None
            N = _union(N, _lift(("setof", S), gens))
        elif name in ("add_edge", "add_directed_edge", "add_undirected_edge"):
            u, v = _arg(e, 0, "u_of_edge", "u"), _arg(e, 1, "v_of_edge", "v")
            if v is None and u is not None and u[0] == "star" and len(e[2]) == 1:
                # add_edge(*pair)
                pr = u[1]
                if pr[0] == "tuplelit" and len(pr[1]) == 2:
                    u, v = pr[1]
                else:
                    u, v = ("index", pr, ("const", 0)), ("index", pr, ("const", 1))
            if u is None or v is None:
                return None
            N = _union(N, _union(_lift(("setlit", (u,)), gens), _lift(("setlit", (v,)), gens)))
            if name == "add_undirected_edge":
                U = _union(U, _lift(("setlit", (("setlit", (u, v)),)), gens))
            else:
                E = _union(E, _lift(("setlit", (("tuplelit", (u, v)),)), gens))
        elif name == "add_edges_from":
            S = _arg(e, 0, "ebunch_to_add", "ebunch")
            if S is None:
                return None
            E = _union(E, _lift(("setof", S), gens))
            N = _union(N, _union(_lift(_endpoints(S, 0), gens), _lift(_endpoints(S, 1), gens)))
        elif name in ("remove_node", "remove_nodes_from"):
            x = _arg(e, 0, "n", "nodes")
            if x is None:
                return None
            R = _lift(("setlit", (x,)) if name == "remove_node" else ("setof", x), gens)
            N = ("diff", N if N[0] in ("union", "inter", "diff", "setof", "setlit", "comp", "bigunion", "empty") else ("setof", N), R)
            E = _within(E, N)  # for a well-formed graph: exactly the edges that do not touch a removed node
            if mixed:
                return None
        else:
            return None
    if mixed or fresh_mixed:
        return ("mixedgraph", N, E, U)
    attrs: Term = EMPTY
    for a in A:
        attrs = _union(attrs, a)
    return ("nxgraph", N, E, attrs)


def post_effects_only(v: Any) -> Any:
    """like post(), but a bare from_edges(...) call stays a call (its arguments are then compared one by one)"""
    return post(v, False)


def post(v: Any, bare_calls: bool = True) -> Any:
    """Replace every graph-effect chain inside a value by its denotation (outermost chains first)."""
    if not isinstance(v, tuple):
        return v
    if is_term(v):
        d = denote(v)
        if d is not None:
            return (d[0],) + tuple(post(x, bare_calls) for x in d[1:])
        w = (v[0],) + tuple(post(x, bare_calls) for x in v[1:])
        ind = induced(w)
        if ind is not None:
            return ind
        fe = _from_edges_args(w) if bare_calls else None
        if fe is not None and (fe[1] is not None or fe[2] is not None):
            g0 = _same_graph_parts(fe)
            if g0 is not None:
                return g0  # from_edges(g.nodes(), g.directed.edges(), g.undirected.edges()) is (a copy of) g
            d = denote(("mut", w, (("call", "add_nodes_from", (("listlit", ()),), ()),)))
            if d is not None:
                return (d[0],) + tuple(post(x, bare_calls) for x in d[1:])
        return w
    return tuple(post(x, bare_calls) for x in v)
