"""E2 -- set algebra / edge predicates as exact truth tables.

`member(e, T)` turns "element e belongs to collection-term T" into a boolean formula over atoms
(membership of e, or of a component of e, in an uninterpreted base collection).  Formulas are compared
by their truth tables (all assignments of the atoms; at most 2**12 rows), optionally restricted to the
rows allowed by subset axioms (don't-care rows).  Nothing here looks at source text: `S - T`,
`S.difference(T)`, `{x for x in S if x not in T}` and De Morgan variants have the same table.
"""

from __future__ import annotations

import itertools
from typing import Any, Callable, Iterable

from .terms import scope_normalise, EMPTY, FALSE, NONE, TRUE, Term, alpha_normalise, is_term, mapterm, show, subst, subterms

Formula = Any  # True | False | ('atom', term) | ('not', f) | ('and', f...) | ('or', f...)

SEQ_WRAPPERS = {"list", "tuple", "sorted", "iter", "reversed", "set", "frozenset"}
CHAIN_NAMES = {"itertools.chain.from_iterable", "itt.chain.from_iterable", "chain.from_iterable", "itertools.chain", "from_iterable"}


def akey(t: Any) -> str:
    """Sort key that does not depend on the spelling of bound variables."""
    return repr(alpha_normalise(t)) + "|" + repr(t)


def f_not(f: Formula) -> Formula:
    if f is True:
        return False
    if f is False:
        return True
    if isinstance(f, tuple) and f[0] == "not":
        return f[1]
    return ("not", f)


def f_and(*fs: Formula) -> Formula:
    out = []
    for f in fs:
        if f is False:
            return False
        if f is True:
            continue
        if isinstance(f, tuple) and f[0] == "and":
            out.extend(f[1:])
        else:
            out.append(f)
    if not out:
        return True
    if len(out) == 1:
        return out[0]
    return ("and",) + tuple(out)


def f_or(*fs: Formula) -> Formula:
    out = []
    for f in fs:
        if f is True:
            return True
        if f is False:
            continue
        if isinstance(f, tuple) and f[0] == "or":
            out.extend(f[1:])
        else:
            out.append(f)
    if not out:
        return False
    if len(out) == 1:
        return out[0]
    return ("or",) + tuple(out)


def atoms_of(f: Formula, acc: list | None = None) -> list:
    if acc is None:
        acc = []
    if isinstance(f, tuple):
        if f[0] == "atom":
            if f[1] not in acc:
                acc.append(f[1])
        else:
            for g in f[1:]:
                atoms_of(g, acc)
    return acc


def evalf(f: Formula, env: dict) -> bool:
    if f is True or f is False:
        return f
    h = f[0]
    if h == "atom":
        return env[f[1]]
    if h == "not":
        return not evalf(f[1], env)
    if h == "and":
        return all(evalf(g, env) for g in f[1:])
    if h == "or":
        return any(evalf(g, env) for g in f[1:])
    raise ValueError(h)


class TooManyAtoms(Exception):
    pass


def _assign(f: Formula, a, val: bool) -> Formula:
    """Substitute atom a := val and simplify."""
    if f is True or f is False:
        return f
    h = f[0]
    if h == "atom":
        return val if f[1] == a else f
    if h == "not":
        return f_not(_assign(f[1], a, val))
    if h == "and":
        return f_and(*[_assign(g, a, val) for g in f[1:]])
    if h == "or":
        return f_or(*[_assign(g, a, val) for g in f[1:]])
    raise ValueError(h)


def _first_atom(f: Formula):
    if isinstance(f, tuple):
        if f[0] == "atom":
            return f[1]
        for g in f[1:]:
            a = _first_atom(g)
            if a is not None:
                return a
    return None


def satisfy(f: Formula, budget: list | None = None):
    """A satisfying assignment {atom: bool} of f (exhaustive case split with simplification), or None."""
    if budget is None:
        budget = [2_000_000]
    if f is True:
        return {}
    if f is False:
        return None
    budget[0] -= 1
    if budget[0] < 0:
        raise TooManyAtoms("case-split budget exhausted")
    # unit literals first: a conjunction's atom / negated atom children
    a = None
    if f[0] == "and":
        for g in f[1:]:
            if g[0] == "atom":
                a, order = g[1], (True,)
                break
            if g[0] == "not" and g[1][0] == "atom":
                a, order = g[1][1], (False,)
                break
    if a is None:
        a, order = _first_atom(f), (True, False)
    if f[0] == "atom":
        return {f[1]: True}
    for val in order:
        r = satisfy(_assign(f, a, val), budget)
        if r is not None:
            r[a] = val
            return r
    return None


def compare(f1: Formula, f2: Formula, axioms: Iterable[Formula] = (), max_atoms: int = 40):
    """Return (equal, witness, atoms) where witness is an assignment {atom: bool} on which f1 and f2 differ (axioms hold)."""
    axioms = list(axioms)
    atoms: list = []
    for f in [f1, f2] + axioms:
        atoms_of(f, atoms)
    if len(atoms) > max_atoms:
        raise TooManyAtoms(len(atoms))
    ax = f_and(*axioms)
    diff = f_or(f_and(f1, f_not(f2)), f_and(f_not(f1), f2))
    w = satisfy(f_and(ax, diff))
    if w is None:
        return True, None, 2 ** min(len(atoms), 30)
    for a in atoms:
        w.setdefault(a, False)
    return False, w, 2 ** min(len(atoms), 30)


def table(f: Formula, atoms: list, axioms: Iterable[Formula] = ()) -> tuple:
    out = []
    axioms = list(axioms)
    for bits in itertools.product([False, True], repeat=len(atoms)):
        env = dict(zip(atoms, bits))
        if not all(evalf(a, env) for a in axioms):
            out.append(None)
        else:
            out.append(evalf(f, env))
    return tuple(out)


def show_formula(f: Formula) -> str:
    if f is True:
        return "⊤"
    if f is False:
        return "⊥"
    h = f[0]
    if h == "atom":
        return show(f[1])
    if h == "not":
        return "¬" + show_formula(f[1])
    j = " ∧ " if h == "and" else " ∨ "
    return "(" + j.join(show_formula(g) for g in f[1:]) + ")"


def show_row(env: dict) -> str:
    return ", ".join(f"{show(a)}={'T' if v else 'F'}" for a, v in sorted(env.items(), key=lambda kv: repr(kv[0])))


# ---------------------------------------------------------------------------------------------


class SetAlg:
    """Translate collection / condition terms to formulas.

    `rewrite` is an optional hook applied to every term before interpretation (used by rules to map
    e.g. `G.directed.nodes()` to a canonical base set).
    """

    def __init__(self, rewrite: Callable[[Term], Term] | None = None) -> None:
        self.rewrite = rewrite or (lambda t: t)

    # -- collections ---------------------------------------------------------------------------
    def strip(self, t: Term) -> Term:
        """Drop order/multiplicity wrappers: the value as a *set of elements*."""
        while True:
            t = self.rewrite(t)
            h = t[0]
            if h == "setof":
                t = t[1]
            elif h == "copyof":
                t = t[1]
            elif h == "call" and isinstance(t[1], str) and t[1].split(".")[-1] in SEQ_WRAPPERS and len(t[2]) >= 1:
                t = t[2][0]
            elif h == "orelse" and self._is_empty(t[2]):
                t = t[1]
            elif h == "call" and isinstance(t[1], str) and t[1].split(".")[-1] == "product" and len(t[2]) >= 2 and not t[3]:
                # product(A, B), as a collection, is {(a, b) for a in A for b in B}
                self._pcount = getattr(self, "_pcount", 0) + 1
                vs = tuple(("var", f"%pr{self._pcount}_{i}") for i in range(len(t[2])))
                return ("comp", "set", ("tuplelit", vs), tuple((v, a, ()) for v, a in zip(vs, t[2])))
            else:
                return t

    def _is_empty(self, t: Term) -> bool:
        return t == EMPTY or (t[0] in ("listlit", "tuplelit", "setlit", "dictlit") and not t[1])

    def member(self, e: Term, t: Term) -> Formula:
        if t[0] == "call" and isinstance(t[1], str) and t[1].split(".")[-1] == "chain" and not t[1].endswith("from_iterable") and len(t[2]) >= 1 and not t[3]:
            return f_or(*[self.member(e, a_) for a_ in t[2]])  # chain(A, B): in A or in B
        if t[0] == "call" and t[1] == "zip" and len(t[2]) == 2 and e[0] == "tuplelit" and len(e[1]) == 2 and not getattr(self, "_in_zip", False):
            # (x, y) in zip(X, Y): x is an element of X and y one of Y (necessary; which ones are paired is left to the atom)
            self._in_zip = True
            try:
                rest = self.member(e, t)
            finally:
                self._in_zip = False
            return f_and(rest, self.member(e[1][0], t[2][0]), self.member(e[1][1], t[2][1]))
        t = self.strip(t)
        h = t[0]
        if self._is_empty(t):
            return False
        if h == "meth" and t[2] == "nodes" and not t[3] and not t[4] and is_term(t[1]) and t[1][0] in ("var", "attr"):
            # `x in G.nodes()` and `x in G` ask the same of a graph object (networkx graphs; NxMixedGraph.__contains__, held to it by C14)
            return self.member(e, t[1])
        if h == "V" and len(t) == 2 and is_term(t[1]) and t[1][0] in ("var", "attr"):
            return self.member(e, t[1])  # the node set of a graph object, as the graph denotations write it
        if h == "union":
            parts = []
            for x in t[1:]:
                parts.extend(self.union_parts(x))
            return f_or(*[self._member_part(e, p) for p in self._merge_parts(parts)])
        if h == "inter":
            return f_and(*[self.member(e, x) for x in t[1:]])
        if h == "diff":
            return f_and(self.member(e, t[1]), *[f_not(self.member(e, x)) for x in t[2:]])
        if h == "op" and len(t) == 4 and t[1] == "^" and is_term(t[2]) and is_term(t[3]):
            # membership in A ^ B: only sets (and key views) have both, and there it is the symmetric difference -- in exactly one of them
            a_, b_ = self.member(e, t[2]), self.member(e, t[3])
            return f_or(f_and(a_, f_not(b_)), f_and(f_not(a_), b_))
        if h in ("setlit", "listlit", "tuplelit"):
            # `{a, b, *S}`: a starred element contributes all elements of S
            return f_or(*[self.member(e, x[1]) if x[0] == "star" else self.eq_atom(e, x) for x in t[1]])
        if h == "concat":
            return f_or(self.member(e, t[1]), self.member(e, t[2]))
        if h == "slice":
            z = self._zone(e, t)
            if z is not None:
                return z
        if h in ("slice", "slice3"):
            # a slice selects some of the sequence's elements: membership implies membership in the sequence
            return f_and(self.member(e, t[1]), ("atom", ("in", e, self.canon_opaque(t))))
        if h == "ite":
            c = self.cond(t[1])
            return f_or(f_and(c, self.member(e, t[2])), f_and(f_not(c), self.member(e, t[3])))
        if h == "comp" and any(self._is_empty(self.strip(g[1])) for g in t[3]):
            return False  # a comprehension over nothing
        if h == "comp" and t[1] in ("set", "list", "gen"):
            r = self._comp_member(e, t[2], t[3])
            if r is not None:
                ax = self._gen_axioms(tuple(t[3])) if r is not False else []
                return f_and(r, *ax) if ax else r
            if len(t[3]) >= 1 and not (isinstance(t[2], tuple) and t[2] and t[2][0] == "%payload"):
                # {x for s in S for x in f(s)} = ⋃_{s in S} f(s): a comprehension with several generators is a big union
                # (a conditional element splits it into one part per case)
                return f_or(*[self._member_part(e, p_) for p_ in self._distribute(("setlit", (t[2],)), tuple(t[3]))])
        if h == "comp" and t[1] == "dict" and t[2][0] == "kv":
            # membership in a dict = membership among its keys
            return self.member(e, ("comp", "set", t[2][1], t[3]))
        if h == "accum" and t[1] in ("union", "concat") and len(t) > 5 and t[5] == ("const", True):
            # a loop that may stop early: which elements it reached is not a property of the collection alone
            return self._in_atom(e, t)
        if h == "accum" and t[1] in ("union", "concat"):
            return f_or(*[self._member_part(e, p) for p in self._merge_parts(self.union_parts(t))])
        if h == "bigunion":
            return f_or(*[self._member_part(e, p) for p in self._merge_parts(self.union_parts(t))])
        if h == "mut":
            # functional reading of effects is the evaluator's job; unknown effects stay atoms
            pass
        return self._in_atom(e, t)

    def _in_atom(self, e: Term, t: Term) -> Formula:
        """membership in a collection that is not decomposed further: an atom -- after the domain rewrites for membership tests (e.g. networkx
        adjacency: `x in G.successors(u)` is `G.has_edge(u, x)`) have had their say, so that a test and a loop over the same collection agree"""
        raw = ("in", e, t)
        rw = self.rewrite(raw)
        if rw != raw and rw[0] != "in":
            return self.cond(rw)
        return ("atom", ("in", e, self.canon_opaque(t)))

    def _zone(self, e: Term, t: Term) -> Formula | None:
        """Order zones: for a sequence π without repeats and i = π.index(v),
        π[:i] = {x ∈ π : x before v},  π[:i+1] adds v,  π[i:] = {x ∈ π : not before v},  π[i+1:] removes v from that."""
        base, lo, hi = t[1], t[2], t[3]
        b0 = self.strip(base)

        def pos(b):
            if b == NONE:
                return None
            off = 0
            if b[0] == "op" and b[1] == "+" and b[3][0] == "const" and isinstance(b[3][1], int):
                b, off = b[2], b[3][1]
            if b[0] == "meth" and b[2] == "index" and len(b[3]) == 1 and self.strip(b[1]) == b0:
                return b[3][0], off
            return False

        pl, ph_ = pos(lo), pos(hi)
        if pl is False or ph_ is False or (pl is None and ph_ is None) or (pl is not None and ph_ is not None):
            return None
        v, off = pl if pl is not None else ph_
        if off not in (0, 1):
            return None
        before = ("atom", ("before", self.canon(e), self.canon(v), self.canon(b0)))
        same = self.eq_atom(e, v)
        inb = self.member(e, base)
        if pl is None:  # π[:i+off]
            return f_and(inb, before if off == 0 else f_or(before, same))
        return f_and(inb, f_not(before) if off == 0 else f_and(f_not(before), f_not(same)))

    def union_parts(self, t: Term) -> list[Term]:
        """Flatten unions, accumulations and nested big unions into parts.

        A part is either a plain collection term or ('bigunion', ('comp','set', q, gens)) with q not a union
        and gens the flattened generator list:  ⋃_g (A ∪ B) = ⋃_g A ∪ ⋃_g B,  ⋃_g ⋃_h A = ⋃_{g,h} A.
        """
        t = self.strip(t)
        h = t[0]
        if self._is_empty(t):
            return []
        if h == "union":
            out: list[Term] = []
            for x in t[1:]:
                out.extend(self.union_parts(x))
            return out
        if h in ("setlit", "listlit", "tuplelit") and len(t[1]) > 1:
            return [("setlit", (x,)) for x in t[1]]
        if h == "accum" and t[1] in ("union", "concat"):
            out = self.union_parts(t[2])
            pay = self.strip(t[3])
            out.extend(self._distribute(pay, tuple(t[4])))
            return out
        if h == "bigunion":
            inner = self.strip(t[1])
            if inner[0] == "comp":
                return self._distribute(self.strip(inner[2]), tuple(inner[3]))
            return [t]
        if h == "call" and isinstance(t[1], str) and (t[1] in CHAIN_NAMES or t[1].endswith("chain.from_iterable")) and len(t[2]) == 1:
            return self.union_parts(("bigunion", t[2][0]))
        return [t]

    def _distribute(self, payload: Term, gens: tuple) -> list[Term]:
        out = []
        payload = self.strip(payload)
        for i, (gp, gi, gc) in enumerate(gens):
            gi_s = self.strip(gi)
            if gi_s[0] == "ite":
                # for y in (A if c else B)  =  (for y in A, when c)  ∪  (for y in B, when not c)
                yes = gens[:i] + ((gp, gi_s[2], tuple(gc) + (gi_s[1],)),) + gens[i + 1:]
                no = gens[:i] + ((gp, gi_s[3], tuple(gc) + (("not", gi_s[1]),)),) + gens[i + 1:]
                return self._distribute(payload, yes) + self._distribute(payload, no)
            if gi_s[0] == "bigunion" and is_term(gi_s[1]) and gi_s[1][0] == "comp" and gi_s[1][1] in ("set", "list", "gen") \
                    and not (isinstance(gi_s[1][2], tuple) and gi_s[1][2] and gi_s[1][2][0] == "%payload"):
                # for p in ⋃_{n in V} X(n)   =   for n in V for p in X(n)
                inner = gi_s[1]
                bound_inner = {v for g_ in inner[3] for v in subterms(g_[0]) if v[0] == "var"}
                used_outside = {v for v in subterms((payload, gens[:i], gens[i + 1:], gc, gp)) if v[0] == "var"}
                if not (bound_inner & used_outside):
                    new = gens[:i] + tuple(inner[3]) + ((gp, inner[2], gc),) + gens[i + 1:]
                    return self._distribute(payload, new)
            if gi_s[0] in ("listlit", "tuplelit", "setlit") and len(gi_s[1]) == 1 and gi_s[1][0][0] != "star" and gp[0] == "var" and i > 0:
                # for y in (v,)  binds y to v
                m = {gp: gi_s[1][0]}
                prev = gens[i - 1]
                new = gens[:i - 1] + ((prev[0], prev[1], tuple(prev[2]) + tuple(subst(c_, m) for c_ in gc)),) + tuple(
                    (p_, subst(i_, m), tuple(subst(c_, m) for c_ in cs_)) for p_, i_, cs_ in gens[i + 1:])
                return self._distribute(subst(payload, m), new)
            if gi_s[0] in ("listlit", "tuplelit", "setlit") and 2 <= len(gi_s[1]) <= 4 and all(x[0] != "star" for x in gi_s[1]) and gp[0] == "var" and i > 0:
                # for y in (u, v): one part per element
                parts_ = []
                for x in gi_s[1]:
                    one = gens[:i] + ((gp, (gi_s[0], (x,)), gc),) + gens[i + 1:]
                    parts_.extend(self._distribute(payload, one))
                return parts_
        if payload[0] in ("setlit", "listlit", "tuplelit") and len(payload[1]) == 1 and gens:
            # {f(a if c else b) for x in S} = {f(a) for x in S if c} ∪ {f(b) for x in S if not c}
            from .symeval import _first_ite
            it = _first_ite(payload[1][0])
            if it is not None and it[0] == "ite":
                lp, li, lc = gens[-1]
                yes = gens[:-1] + ((lp, li, tuple(lc) + (it[1],)),)
                no = gens[:-1] + ((lp, li, tuple(lc) + (("not", it[1]),)),)
                return (self._distribute((payload[0], (subst(payload[1][0], {it: it[2]}),)), yes)
                        + self._distribute((payload[0], (subst(payload[1][0], {it: it[3]}),)), no))
        for p in self.union_parts(payload):
            if p[0] == "bigunion" and p[1][0] == "comp":
                out.append(("bigunion", ("comp", "set", p[1][2], gens + tuple(p[1][3]))))
            elif p[0] == "comp" and p[1] in ("set", "list", "gen") and gens and not (isinstance(p[2], tuple) and p[2] and p[2][0] == "%payload"):
                # ⋃_g {f(x) for x in S} = ⋃_{g, x in S} {f(x)}
                out.extend(self._distribute(("setlit", (p[2],)), gens + tuple(p[3])))
            else:
                out.append(("bigunion", ("comp", "set", p, gens)))
        return out

    def _merge_parts(self, parts: list) -> list:
        """⋃_{x∈S, c1} {f(x)} ∪ ⋃_{x∈S, c2} {f(x)} = ⋃_{x∈S, c1 ∨ c2} {f(x)}: parts that differ only in their filters are one part whose
        filter is the disjunction (so that `if a: yield x  elif b: yield x` and `if a or b: yield x` are the same collection)."""
        groups: dict = {}
        originals: dict = {}
        order = []
        for p in parts:
            if not (p[0] == "bigunion" and p[1][0] == "comp" and p[1][3]):
                order.append(("raw", p))
                continue
            q = alpha_normalise(p)
            comp = q[1]
            payload = comp[2]
            if payload[0] in ("listlit", "tuplelit") and len(payload[1]) == 1:
                payload = ("setlit", payload[1])
            skel = tuple((g[0], g[1]) for g in comp[3])
            conds = [c for g in comp[3] for c in g[2]]
            key = (payload, skel)
            if key not in groups:
                groups[key] = []
                order.append(("grp", key))
                originals[key] = p
            groups[key].append(conds)
        out = []
        for kind, x in order:
            if kind == "raw":
                out.append(x)
                continue
            payload, skel = x
            alts = groups[x]
            if len(alts) == 1:
                out.append(originals[x])  # nothing to merge: the part stays as it was written
                continue
            else:
                ors = []
                for a in alts:
                    ors.append(TRUE if not a else (a[0] if len(a) == 1 else ("and",) + tuple(a)))
                cs = () if any(o == TRUE for o in ors) else (("or",) + tuple(ors),)
            gens = tuple((pt, it, ()) for pt, it in skel[:-1]) + ((skel[-1][0], skel[-1][1], cs),)
            out.append(("bigunion", ("comp", "set", payload, gens)))
        return out

    def _gen_axioms(self, gens: tuple) -> list:
        """An element drawn through `for a, b in combinations(X, 2)` exists only when X has two or more elements."""
        out = []
        bound: set = set()
        for _pat, it, _conds in gens:
            here = {v for v in subterms(it) if v[0] == "var"} & bound
            bound |= {v for v in subterms(_pat) if v[0] == "var"}
            if here:
                continue  # the collection depends on an earlier generator's variable: nothing can be said about it outside the comprehension
            src = self.strip(it) if it[0] != "call" else it
            if src[0] == "call" and isinstance(src[1], str) and src[1].split(".")[-1] in ("combinations", "permutations") and len(src[2]) == 2 \
                    and src[2][1][0] == "const" and isinstance(src[2][1][1], int) and src[2][1][1] >= 2:
                X = src[2][0]
                ne = self.cond(("truth", X))
                out.append(f_and(ne, f_not(("atom", ("len1", self.canon_set(X))))))
        return out

    def _member_part(self, e: Term, p: Term) -> Formula:
        r = self._member_part0(e, p)
        if p[0] == "bigunion" and r is not False and p[1][0] == "comp" and len(p[1]) > 3:
            ax = self._gen_axioms(tuple(p[1][3]))
            if ax:
                return f_and(r, *ax)
        return r

    def _member_part0(self, e: Term, p: Term) -> Formula:
        if p[0] != "bigunion":
            return self.member(e, p)
        comp = p[1]
        if comp[0] != "comp":
            # ⋃ S for a collection S of collections (chain.from_iterable(S))
            src = self.strip(comp)
            if src[0] in ("Ed", "Eu"):
                # the edges of a graph are pairs: their union is the set of first endpoints together with the set of second endpoints
                a, b = ("var", "%ep0_"), ("var", "%ep1_")
                pat = ("tuplelit", (a, b))
                return f_or(self._member_part(e, ("bigunion", ("comp", "set", ("setlit", (a,)), ((pat, src, ()),)))),
                            self._member_part(e, ("bigunion", ("comp", "set", ("setlit", (b,)), ((pat, src, ()),)))))
            return ("atom", ("in", e, ("bigunion", self.canon(("setof", comp)))))
        if len(comp[3]) == 1 and comp[3][0][0][0] == "var" and self.strip(comp[2]) == comp[3][0][0] and not comp[3][0][2]:
            # ⋃_{s ∈ S} s  is  ⋃ S
            return ("atom", ("in", e, ("bigunion", self.canon(("setof", comp[3][0][1])))))
        q, gens = self.strip(comp[2]), tuple(comp[3])
        g2_ = self._drop_conds_implied_by_pairs(gens)
        if g2_ != gens:
            return self._member_part(e, ("bigunion", ("comp", "set", comp[2], g2_)))
        for i_, (gp_, gi_, gc_) in enumerate(gens):
            gs_ = self.strip(gi_)
            if gs_[0] == "accum":
                c_ = accum_as_comp(gs_)
                if c_ is not None:
                    gs_ = c_
                elif gs_[1] in ("concat", "union") and len(gs_) > 5 and gs_[5] == ("const", False) and gs_[2] in (("listlit", ()), EMPTY) \
                        and gs_[3][0] not in ("listlit", "setlit", "tuplelit") and gs_[4]:
                    # a list / generator extended by a whole collection per iteration (`yield from X(n)`): the union of the X(n)
                    gs_ = ("bigunion", ("comp", "set", gs_[3], tuple(gs_[4])))
            if gs_[0] == "comp" and gs_[1] in ("list", "gen", "set") and gs_[3] and gp_[0] == "var" \
                    and not (isinstance(gs_[2], tuple) and gs_[2] and gs_[2][0] == "%payload"):
                # for p in [f(y) for y in Y if c]   =   for y in Y if c, with p := f(y)
                inner_bound = {v for g_ in gs_[3] for v in subterms(g_[0]) if v[0] == "var"}
                outside = {v for v in subterms((q, gens[:i_], gens[i_ + 1:], gc_)) if v[0] == "var"}
                if not (inner_bound & outside):
                    m_ = {gp_: gs_[2]}
                    inner = list(gs_[3])
                    if gc_:
                        lp, li, lc = inner[-1]
                        inner[-1] = (lp, li, tuple(lc) + tuple(subst(c0, m_) for c0 in gc_))
                    new = gens[:i_] + tuple(inner) + tuple((g_[0], subst(g_[1], m_), tuple(subst(c0, m_) for c0 in g_[2])) for g_ in gens[i_ + 1:])
                    return self._member_part(e, ("bigunion", ("comp", "set", subst(comp[2], m_), new)))
            if gp_[0] == "var" and (gs_[0] in ("Ed", "Eu") or (gs_[0] == "call" and isinstance(gs_[1], str) and gs_[1].split(".")[-1] == "combinations"
                                                            and len(gs_[2]) == 2 and gs_[2][1] == ("const", 2))):
                # an element of a collection of pairs, named as a whole: named by its two components instead (p[0], p[1] are then read off)
                self._pcount = getattr(self, "_pcount", 0) + 1
                p0, p1 = ("var", f"%pp{self._pcount}_0"), ("var", f"%pp{self._pcount}_1")
                pr = ("tuplelit", (p0, p1))

                def fx(s_, _v=gp_, _p0=p0, _p1=p1, _pr=pr):
                    if s_[0] == "index" and s_[1] == _v and s_[2] in (("const", 0), ("const", 1)):
                        return _p0 if s_[2] == ("const", 0) else _p1
                    if s_[0] == "proj" and s_[1] == _v and s_[2] in (0, 1):
                        return _p0 if s_[2] == 0 else _p1
                    if s_ == _v:
                        return _pr
                    return None
                new = gens[:i_] + ((pr, gi_, tuple(mapterm(c_, fx) for c_ in gc_)),) + tuple(
                    (g_[0], mapterm(g_[1], fx), tuple(mapterm(c_, fx) for c_ in g_[2])) for g_ in gens[i_ + 1:])
                return self._member_part(e, ("bigunion", ("comp", "set", mapterm(comp[2], fx), new)))
            if gs_[0] == "call" and isinstance(gs_[1], str) and gs_[1].split(".")[-1] == "chain" and not gs_[1].endswith("from_iterable") and len(gs_[2]) >= 2 and not gs_[3]:
                gs_ = ("concat",) + tuple(gs_[2]) if len(gs_[2]) == 2 else ("concat", gs_[2][0], ("call", gs_[1], tuple(gs_[2][1:]), ()))
            if gs_[0] in ("listlit", "tuplelit") and len(gs_[1]) >= 2 and all(x[0] == "star" for x in gs_[1]):
                # [*A, *B]: A followed by B
                gs_ = ("concat", gs_[1][0][1], gs_[1][1][1] if len(gs_[1]) == 2 else (gs_[0], tuple(gs_[1][1:])))
            if gs_[0] == "union" and len(gs_) >= 3:
                gs_ = ("concat", gs_[1], gs_[2] if len(gs_) == 3 else ("union",) + tuple(gs_[2:]))
            if gs_[0] == "concat" and len(gs_) == 3:
                # for p in A followed by B: the elements drawn from A together with those drawn from B
                return f_or(*[self._member_part(e, ("bigunion", ("comp", "set", comp[2], gens[:i_] + ((gp_, part_, gc_),) + gens[i_ + 1:]))) for part_ in gs_[1:]])
            if gs_[0] == "call" and isinstance(gs_[1], str) and (gs_[1] in CHAIN_NAMES or gs_[1].endswith("chain.from_iterable")) and len(gs_[2]) == 1 \
                    and not gs_[1].endswith("itertools.chain") and gs_[1] != "itertools.chain":
                gs_ = ("bigunion", self.strip(gs_[2][0]))
            if gs_[0] == "bigunion" and is_term(gs_[1]) and gs_[1][0] == "comp" and gs_[1][1] in ("set", "list", "gen") \
                    and not (isinstance(gs_[1][2], tuple) and gs_[1][2] and gs_[1][2][0] == "%payload"):
                # for p in ⋃_{n in V} X(n)   =   for n in V for p in X(n)
                inner = gs_[1]
                bound_inner = {v for g_ in inner[3] for v in subterms(g_[0]) if v[0] == "var"}
                used_outside = {v for v in subterms((q, gens[:i_], gens[i_ + 1:], gc_, gp_)) if v[0] == "var"}
                if not (bound_inner & used_outside):
                    new = gens[:i_] + tuple(inner[3]) + ((gp_, inner[2], gc_),) + gens[i_ + 1:]
                    return self._member_part(e, ("bigunion", ("comp", "set", comp[2], new)))
        # one-point rule: ⋃_{..., v in T if c, ...} {v}  with v not used by later generators
        if q[0] in ("setlit", "listlit", "tuplelit") and len(q[1]) == 1:
            v = q[1][0]
            vparts = [v] if v[0] == "var" else (list(v[1]) if v[0] == "tuplelit" and v[1] and all(x[0] == "var" for x in v[1]) and len(set(v[1])) == len(v[1]) else [])
            for k, (pat, it, conds) in enumerate(gens):
                later = gens[k + 1:]
                if pat == v and vparts and not any(_mentions_var(g, x) for g in later for x in vparts):
                    rest = gens[:k] + later
                    if not rest:
                        mp = {v: e} if v[0] == "var" else {x: ("proj", e, i) for i, x in enumerate(vparts)}
                        return f_and(self.member(e, it), *[self.cond(subst(c, mp)) for c in conds])
                    if not conds and not later:
                        return self._member_part(e, ("bigunion", ("comp", "set", it, gens[:k])))
                    break
            mapping = None
            if len(gens) == 1:
                mapping = self._match_pattern(gens[0][0], v, e)
                pat0 = gens[0][0]
                if mapping is None and v[0] == "tuplelit" and pat0[0] == "tuplelit" and len(v[1]) == len(pat0[1]) and all(x[0] == "var" for x in pat0[1]) \
                        and sorted(map(repr, v[1])) == sorted(map(repr, pat0[1])) and len(set(v[1])) == len(v[1]):
                    # {(b, a) for (a, b) in S}: e belongs iff the re-ordered tuple belongs to S
                    pos = {x: i for i, x in enumerate(v[1])}
                    mapping = {x: ("proj", e, pos[x]) for x in pat0[1]}
                    src_elem = ("tuplelit", tuple(("proj", e, pos[x]) for x in pat0[1]))
                    return f_and(self.member(src_elem, gens[0][1]), *[self.cond(subst(c, mapping)) for c in gens[0][2]])
            if mapping is not None:
                return f_and(self.member(e, gens[0][1]), *[self.cond(subst(c, mapping)) for c in gens[0][2]])
        gens = self._hoist_conds(gens)
        if q[0] in ("listlit", "tuplelit") and len(q[1]) == 1 and q[1][0][0] != "star":
            q = ("setlit", q[1])  # a part {x} of a union, however the singleton was spelt
        # all filters standing at one generator are one condition (their conjunction), whatever the number of `if`s they were written with
        cg = tuple((pat, self.canon(("setof", it)), ((self._canon_cond(conds[0] if len(conds) == 1 else ("and",) + tuple(conds)),) if conds else ()))
                   for pat, it, conds in gens)
        return ("atom", ("in", e, ("bigunion", ("comp", "set", self.canon(("setof", q)) if self.is_setexpr(q) else self.canon(q), cg))))

    def _drop_conds_implied_by_pairs(self, gens: tuple) -> tuple:
        """`for n in V if len(X(n)) >= 2 for a, b in combinations(X(n), 2)`: the filter only skips iterations in which the inner generator
        has nothing to give anyway (a pair drawn from X proves |X| >= 2) -- it is dropped."""
        out = list(gens)
        changed = False
        for k, (_p, it, _c) in enumerate(gens):
            src = self.strip(it) if it[0] != "call" else it
            if not (src[0] == "call" and isinstance(src[1], str) and src[1].split(".")[-1] in ("combinations", "permutations") and len(src[2]) == 2
                    and src[2][1][0] == "const" and isinstance(src[2][1][1], int) and src[2][1][1] >= 2):
                continue
            X = src[2][0]
            try:
                ax = f_and(self.cond(("truth", X)), f_not(("atom", ("len1", self.canon_set(X)))))
            except Exception:  # noqa: BLE001
                continue
            for j in range(k):
                pj, ij, cj = out[j]
                kept = []
                for c in cj:
                    try:
                        implied = satisfy(f_and(ax, f_not(self.cond(c)))) is None
                    except Exception:  # noqa: BLE001
                        implied = False
                    if implied:
                        changed = True
                    else:
                        kept.append(c)
                out[j] = (pj, ij, tuple(kept))
        return tuple(out) if changed else gens

    def _hoist_conds(self, gens: tuple) -> tuple:
        """Every filter is attached to the first generator after which all of its variables are bound (filters do not care where they stand)."""
        pats = []
        for pat, _it, _c in gens:
            pats.append({v for v in subterms(pat) if v[0] == "var"})
        new = [[pat, it, []] for pat, it, _ in gens]
        for i, (_pat, _it, conds) in enumerate(gens):
            for c in conds:
                parts = list(c[1:]) if c[0] == "and" else [c]
                for part in parts:
                    used = {v for v in subterms(part) if v[0] == "var"}
                    k = 0
                    for j in range(i + 1):
                        if used & pats[j]:
                            k = j
                    new[k][2].append(part)
        return tuple((p_, i_, tuple(sorted(cs_, key=repr))) for p_, i_, cs_ in new)

    def _comp_member(self, e: Term, elt: Term, gens: tuple) -> Formula | None:
        """member(e, {elt for pat in it if conds}) when elt is the bound pattern itself (a filter)."""
        if len(gens) != 1:
            return None
        pat, it, conds = gens[0]
        if isinstance(elt, tuple) and elt and elt[0] == "%payload":
            payload = self.strip(elt[1])
            # accumulations `acc.add(x)` / `acc |= {x}` / `acc.append(x)`
            if payload[0] in ("setlit", "listlit", "tuplelit") and len(payload[1]) == 1:
                elt = payload[1][0]
            else:
                # acc |= f(x): big union -- membership is existential, keep as atom unless identity
                return None
        mapping = self._match_pattern(pat, elt, e)
        if mapping is None:
            # image rule: e = elt[pat := x] for some term x  =>  (x in `it` and conds[x])  implies  e in {elt for pat in it if conds}.
            # The converse needs injectivity, so the opaque membership atom stays as the other disjunct.
            sub = _unify(elt, e, {s for s in subterms(pat) if s[0] == "var"})
            if sub is not None and pat[0] == "var" and pat in sub:
                x = sub[pat]
                opaque = ("atom", ("in", e, self.canon_opaque(("comp", "set", elt, gens))))
                return f_or(f_and(self.member(x, it), *[self.cond(subst(c, {pat: x})) for c in conds]), opaque)
            return None
        base = self.member(e, it)
        cs = [self.cond(subst(c, mapping)) for c in conds]
        return f_and(base, *cs)

    def _match_pattern(self, pat: Term, elt: Term, e: Term) -> dict | None:
        """If elt == pat structurally (identity comprehension), map bound vars to projections of e."""
        if pat == elt:
            if pat[0] == "var":
                return {pat: e}
            if pat[0] == "tuplelit":
                m = {}
                for i, p in enumerate(pat[1]):
                    if p[0] != "var":
                        return None
                    m[p] = ("proj", e, i)
                return m
        return None

    def _setish(self, t: Term) -> bool:
        """syntactically a set: built by set(...), a set comprehension, or set algebra"""
        t = self.rewrite(t)
        return t[0] in ("setof", "union", "inter", "diff") or (t[0] == "comp" and t[1] == "set") or (
            t[0] == "call" and t[1] in ("set", "frozenset") and len(t[2]) == 1) or (t[0] == "accum" and t[1] == "union")

    def eq_atom(self, a: Term, b: Term) -> Formula:
        a, b = self.canon(a), self.canon(b)
        if a == b:
            return True
        x, y = sorted([a, b], key=repr)
        return ("atom", ("eq", x, y))

    # -- conditions ----------------------------------------------------------------------------
    def cond(self, c: Term) -> Formula:
        c = self.rewrite(c)
        if c == TRUE:
            return True
        if c == FALSE:
            return False
        h = c[0]
        if h == "COND" and len(c) == 2 and isinstance(c[1], tuple) and len(c[1]) == 2 and isinstance(c[1][0], tuple) and isinstance(c[1][1], tuple) \
                and len(c[1][1]) == 1 << len(c[1][0]):
            # a canonical condition (sorted atoms + truth table) read back as a formula over its atoms
            atoms, tb = c[1]
            rows = []
            for k, bits in enumerate(itertools.product([False, True], repeat=len(atoms))):
                if tb[k]:
                    rows.append(f_and(*[(("atom", a) if b else f_not(("atom", a))) for a, b in zip(atoms, bits)]))
            return f_or(*rows) if rows else False
        if h == "not":
            return f_not(self.cond(c[1]))
        if h == "and":
            return f_and(*[self.cond(x) for x in c[1:]])
        if h == "or":
            return f_or(*[self.cond(x) for x in c[1:]])
        if h == "in":
            return self.member(c[1], c[2])
        if h == "isinstance" and isinstance(c[2], tuple) and len(c[2]) > 1 and all(isinstance(k, str) for k in c[2]) and c[2][0] not in (
                "var", "attr", "index", "call", "ref", "meth", "const"):
            # isinstance(x, (A, B)) = isinstance(x, A) or isinstance(x, B)
            return f_or(*[self.cond(("isinstance", c[1], (k,))) for k in sorted(c[2])])
        if h in ("eq", "ne", "lt", "le") and len(c) == 3:
            z = self._len_cond(h, c[1], c[2])
            if z is not None:
                return z
        if h in ("lt", "le") and len(c) == 3 and self._setish(c[1]) and self._setish(c[2]):
            # comparison of two sets: (proper) inclusion
            return self.cond(("psubset" if h == "lt" else "subset", c[1], c[2]))
        if h == "psubset":
            return f_and(self.cond(("subset", c[1], c[2])), f_not(self.cond(("subset", c[2], c[1]))))
        if h in ("eq", "ne") and len(c) == 3 and self._setish(c[1]) and self._setish(c[2]) and not (self._is_empty(self.strip(c[1])) or self._is_empty(self.strip(c[2]))):
            # equality of two sets: inclusion both ways (so that ==, <= and < on the same sets are related)
            both = f_and(self.cond(("subset", c[1], c[2])), self.cond(("subset", c[2], c[1])))
            return both if h == "eq" else f_not(both)
        if h in ("eq", "ne") and self._is_boolean(c[1]) and self._is_boolean(c[2]):
            # equality of two truth values is their equivalence
            a_, b_ = self.cond(c[1]), self.cond(c[2])
            iff = f_or(f_and(a_, b_), f_and(f_not(a_), f_not(b_)))
            return iff if h == "eq" else f_not(iff)
        if h in ("eq", "ne"):
            # A ∩ B == A  <=>  A ⊆ B ;  A ∪ B == B  <=>  A ⊆ B
            for l_, r_ in ((c[1], c[2]), (c[2], c[1])):
                ls_ = self.strip(l_) if l_[0] in ("setof",) else l_
                if ls_[0] == "inter" and len(ls_) == 3:
                    for i_, j_ in ((1, 2), (2, 1)):
                        if self.strip(ls_[i_]) == self.strip(r_):
                            sub = self.cond(("subset", ls_[i_], ls_[j_]))
                            return sub if h == "eq" else f_not(sub)
                if ls_[0] == "union" and len(ls_) == 3:
                    for i_, j_ in ((1, 2), (2, 1)):
                        if self.strip(ls_[j_]) == self.strip(r_):
                            sub = self.cond(("subset", ls_[i_], ls_[j_]))
                            return sub if h == "eq" else f_not(sub)
        if h == "eq":
            return self.eq_atom(c[1], c[2])
        if h == "ne":
            return f_not(self.eq_atom(c[1], c[2]))
        if h == "disjoint":
            return f_not(("atom", ("truth", self.canon(("inter", c[1], c[2])))))
        if h == "truth":
            inner = self.strip(c[1])
            if self._is_empty(inner):
                return False
            if inner[0] in ("and", "or", "not", "in", "eq", "ne", "subset", "psubset", "disjoint", "isinstance", "any", "all", "isnone"):
                return self.cond(inner)
            if inner[0] == "const":
                return bool(inner[1])
            if inner[0] == "meth" and inner[2] in ("startswith", "endswith", "isdigit", "isalpha", "isidentifier", "isupper", "islower", "isnumeric"):
                return self.cond(inner)  # a str predicate is its own truth value (`a and s.startswith(p)` vs `if a: return s.startswith(p)`)
            if inner[0] == "ite":
                ci = self.cond(inner[1])
                return f_or(f_and(ci, self.cond(("truth", inner[2]))), f_and(f_not(ci), self.cond(("truth", inner[3]))))
            return ("atom", ("truth", self.canon_set(c[1])))
        if h == "subset":
            a_ = self.strip(c[1])
            if a_[0] in ("setlit", "listlit", "tuplelit") and not any(x[0] == "star" for x in a_[1]):
                # {x, y} ⊆ B  <=>  x ∈ B and y ∈ B
                return f_and(*[self.member(x, c[2]) for x in a_[1]])
            # A ⊆ B  <=>  A ∖ B = ∅
            return f_not(("atom", ("truth", self.canon_set(("diff", c[1], c[2])))))
        if h == "ite":
            ci = self.cond(c[1])
            return f_or(f_and(ci, self.cond(c[2])), f_and(f_not(ci), self.cond(c[3])))
        if h == "iter-elem" and c[1][0] == "var":
            return self.member(c[1], c[2])
        if h == "iter-elem" and c[1][0] == "tuplelit" and len(c[1][1]) == 2 and c[2][0] == "call" and c[2][1] == "zip" and len(c[2][2]) == 2:
            # a pair drawn from zip(X, Y): its components are elements of X and of Y
            return f_and(("atom", self.canon_opaque(c)), self.member(c[1][1][0], c[2][2][0]), self.member(c[1][1][1], c[2][2][1]))
        if h in ("any", "all") and c[1][0] == "comp" and isinstance(c[1][3], tuple):
            # a quantifier does not care how its domain is held: list(X) / tuple(X) / iter(X) range over X, and a pair drawn from
            # product(A, B) is an element of A together with an element of B
            gens2, ch_ = [], False
            for pat_, it_, cds_ in c[1][3]:
                it2 = it_
                while is_term(it2) and it2[0] == "call" and it2[1] in ("list", "tuple", "iter", "sorted", "reversed") and len(it2[2]) == 1 and not (
                        it2[3] and it2[1] != "sorted"):
                    it2 = it2[2][0]
                if is_term(it2) and it2[0] == "call" and isinstance(it2[1], str) and it2[1].split(".")[-1] == "product" and not it2[3] \
                        and pat_[0] == "tuplelit" and len(pat_[1]) == len(it2[2]) >= 2 and all(q_[0] == "var" for q_ in pat_[1]):
                    for k_, (q_, a_) in enumerate(zip(pat_[1], it2[2])):
                        gens2.append((q_, a_, tuple(cds_) if k_ == len(it2[2]) - 1 else ()))
                    ch_ = True
                    continue
                if it2 is not it_:
                    ch_ = True
                gens2.append((pat_, it2, cds_))
            if ch_:
                return self.cond((h, ("comp", c[1][1], c[1][2], tuple(gens2))))
        if h in ("any", "all") and c[1][0] == "comp" and c[1][2][0] == ("or" if h == "any" else "and"):
            # ∃x (A ∨ B) = ∃x A ∨ ∃x B ;  ∀x (A ∧ B) = ∀x A ∧ ∀x B
            parts = [self.cond((h, ("comp", c[1][1], b, c[1][3]))) for b in c[1][2][1:]]
            return f_or(*parts) if h == "any" else f_and(*parts)
        if h == "any" and c[1][0] == "comp" and c[1][2][0] == "eq" and all(g[0][0] == "var" for g in c[1][3]):
            # ∃x∈S: e == f(x)   <=>   e ∈ {f(x) for x in S}
            bvs = [g[0] for g in c[1][3]]
            a_, b_ = c[1][2][1], c[1][2][2]
            for e_, f_ in ((a_, b_), (b_, a_)):
                if not any(_mentions_var(e_, v) for v in bvs) and any(_mentions_var(f_, v) for v in bvs):
                    return self.member(e_, ("comp", "set", f_, c[1][3]))
        if h in ("any", "all") and c[1][0] == "comp" and len(c[1][3]) >= 2:
            r = self._miniscope(h, c[1])
            if r is not None:
                return r
        if h == "any" and c[1][0] == "comp" and all(g[0][0] == "var" for g in c[1][3]) and not (
                len(c[1][3]) == 1 and self.strip(c[1][3][0][1])[0] in ("setlit", "listlit", "tuplelit")):
            # ∃x∈S: c(x)   <=>   {x ∈ S : c(x)} is not empty
            gens = list(c[1][3])
            lp, li, lc = gens[-1]
            gens[-1] = (lp, li, tuple(lc) + (c[1][2],))
            elt = gens[0][0] if len(gens) == 1 else ("tuplelit", tuple(g[0] for g in gens))
            return self.cond(("truth", ("comp", "set", elt, tuple(gens))))
        if h in ("any", "all") and c[1][0] == "comp" and len(c[1][3]) == 1:
            pat, it, conds = c[1][3][0]
            lit = self.strip(it)
            if lit[0] in ("setlit", "listlit", "tuplelit") and pat[0] == "var" and len(lit[1]) <= 4:
                parts = []
                for x in lit[1]:
                    body = f_and(*[self.cond(subst(k, {pat: x})) for k in conds], self.cond(subst(c[1][2], {pat: x}))) if h == "any" else f_or(
                        f_not(f_and(*[self.cond(subst(k, {pat: x})) for k in conds])), self.cond(subst(c[1][2], {pat: x})))
                    parts.append(body)
                return f_or(*parts) if h == "any" else f_and(*parts)
        return ("atom", self.canon(c))

    def _miniscope(self, h: str, comp: Term) -> Formula | None:
        """∃x∈S ∃y∈T (A(x) ∧ B(y)) = (∃x∈S A(x)) ∧ (∃y∈T B(y)) when the generators are independent; dually for ∀ with ∨."""
        body, gens = comp[2], comp[3]
        if not all(g[0][0] == "var" for g in gens):
            return None
        vs = [g[0] for g in gens]

        def mentions(t):
            return {v for v in vs if _mentions_var(t, v)}

        for i, (pat, it, conds) in enumerate(gens):
            if mentions(it) or any(mentions(k) - {pat} for k in conds):
                return None
        inner = "and" if h == "any" else "or"
        parts = list(body[1:]) if body[0] == inner else [body]
        groups: dict = {v: [] for v in vs}
        free = []
        for p_ in parts:
            m = mentions(p_)
            if len(m) > 1:
                return None
            if m:
                groups[next(iter(m))].append(p_)
            else:
                free.append(p_)
        out = []
        for (pat, it, conds) in gens:
            ps = groups[pat]
            if ps:
                b = ps[0] if len(ps) == 1 else (inner,) + tuple(ps)
                out.append(self.cond((h, ("comp", comp[1], b, ((pat, it, conds),)))))
            else:
                ne = self.cond(("truth", ("comp", "set", pat, ((pat, it, conds),)))) if conds else self.cond(("truth", it))
                out.append(ne if h == "any" else f_not(ne))
        fr = [self.cond(x) for x in free]
        return f_and(*out, *fr) if h == "any" else f_or(*out, *fr)

    def _len_cond(self, h: str, a: Term, b: Term) -> Formula | None:
        """Comparisons of len(X) with 0, 1, 2 over the partition {empty, exactly one, two or more}: `len(X) == 0`, `not X`, `len(X) < 1`
        are one condition; so are `len(X) <= 1` and `len(X) == 0 or len(X) == 1`."""
        def is_len(t):
            return t[0] == "len" or (t[0] == "call" and t[1] == "len" and len(t[2]) == 1)

        def arg(t):
            return t[1] if t[0] == "len" else t[2][0]

        if is_len(a) and b[0] == "const" and isinstance(b[1], int) and not isinstance(b[1], bool):
            X, k, side = arg(a), b[1], "left"
        elif is_len(b) and a[0] == "const" and isinstance(a[1], int) and not isinstance(a[1], bool):
            X, k, side = arg(b), a[1], "right"
        else:
            return None
        if not 0 <= k <= 2:
            return None
        nonempty = self.cond(("truth", X))
        one = f_and(nonempty, ("atom", ("len1", self.canon_set(X))))
        empty = f_not(nonempty)
        many = f_and(nonempty, f_not(("atom", ("len1", self.canon_set(X)))))
        cells = {0: empty, 1: one, 2: many}  # 2 stands for ">= 2"

        def sat(n):  # does len == n (n = 2 meaning any value >= 2) satisfy the comparison?  None = depends
            if h == "eq":
                return (n == k) if n < 2 or k < 2 else None
            if h == "ne":
                return (n != k) if n < 2 or k < 2 else None
            if side == "left":   # len OP k
                if h == "lt":
                    return (n < k) if n < 2 else (False if k <= 2 else None)
                return (n <= k) if n < 2 else (False if k < 2 else None)
            # k OP len
            if h == "lt":
                return (k < n) if n < 2 else (True if k < 2 else None)
            return (k <= n) if n < 2 else True
        parts = []
        for n, fml in cells.items():
            r = sat(n)
            if r is None:
                return None
            if r:
                parts.append(fml)
        return f_or(*parts) if parts else False

    def _is_boolean(self, t: Term) -> bool:
        return t[0] in ("isinstance", "in", "not", "and", "or", "truth", "any", "all", "isnone", "lt", "le", "subset", "psubset", "disjoint") or (
            t[0] == "const" and isinstance(t[1], bool))

    # -- canonical forms -----------------------------------------------------------------------
    def is_setexpr(self, t: Term) -> bool:
        return t[0] in ("union", "inter", "diff", "setof", "empty") or (
            t[0] == "comp" and t[1] == "set"
        ) or (t[0] == "accum" and t[1] == "union") or (
            # a set display {a, b, *S}: the same set as {a, b} | set(S), so it gets the same canonical form
            t[0] == "setlit" and len(t) == 2 and len(t[1]) >= 2 and all(is_term(x) for x in t[1]))

    def canon_set(self, t: Term) -> Term:
        """Canonical representative of a collection read as a set: ('SET', atoms, table)."""
        self._depth = getattr(self, "_depth", 0) + 1
        x = ("var", f"%x{self._depth}")
        try:
            f = self.member(x, t)
        finally:
            self._depth -= 1
        f = _normalise_atoms(f)
        atoms = sorted(atoms_of(f), key=akey)
        # drop atoms the table does not depend on
        keep = []
        for a in atoms:
            others = [b for b in atoms if b != a]
            dep = False
            for bits in itertools.product([False, True], repeat=len(others)):
                env = dict(zip(others, bits))
                env[a] = False
                v0 = evalf(f, env)
                env[a] = True
                if evalf(f, env) != v0:
                    dep = True
                    break
            if dep:
                keep.append(a)
        if len(keep) > 12:
            return ("SETX", alpha_normalise(t))
        tb = _restrict(f, atoms, [atoms.index(a) for a in keep])
        if not keep:
            return EMPTY if not tb[0] else ("UNIVERSE",)
        if len(keep) == 1 and tb == (False, True) and keep[0][0] == "in" and keep[0][1] == x:
            return keep[0][2]
        return ("SET", tuple(keep), tb)

    def canon_top(self, t: Any) -> Any:
        """Canonical form for comparison: canon + a single final alpha-normalisation."""
        return alpha_normalise(self.canon(t))

    def canon(self, t: Any) -> Any:
        """Bottom-up canonical form of an arbitrary term (set sub-terms to SET tables, alpha-normalised)."""
        if not isinstance(t, tuple):
            return t
        if not is_term(t):
            return tuple(self.canon(x) for x in t)
        t = self.rewrite(t)
        if self.is_setexpr(t):
            return self.canon_set(t)
        return self.canon_opaque(t)

    def canon_opaque(self, t: Term) -> Term:
        """Canonical form of a term whose head is not decomposed as a set expression."""
        t = self.rewrite(t)
        h = t[0]
        if (h == "call" and len(t) < 4) or (h == "meth" and len(t) < 5):
            return (h,) + tuple(self.canon(x) for x in t[1:])  # not a call term (a data tuple that happens to start with the word)
        if h == "call" and isinstance(t[1], str) and t[1].split(".")[-1] == "replace" and (t[1].startswith("dataclasses") or t[1] == "replace") \
                and len(t[2]) == 1 and t[3]:
            # dataclasses.replace(obj, f=v, ...): the object with these fields set
            return self.canon_opaque(("mut", t[2][0], tuple(("setattr", k, v) for k, v in t[3])))
        if h == "mut" and len(t) == 3:
            base, effs = t[1], list(t[2])
            while base[0] == "mut" and len(base) == 3:
                effs = list(base[2]) + effs
                base = base[1]
            if base[0] == "call" and isinstance(base[1], str) and base[1].split(".")[-1] == "replace" and len(base[2]) == 1 and base[3]:
                effs = [("setattr", k, v) for k, v in base[3]] + effs
                base = base[2][0]
                while base[0] == "mut" and len(base) == 3:
                    effs = list(base[2]) + effs
                    base = base[1]
            keys = []
            simple = True
            for e_ in effs:
                if e_[0] == "setattr" and len(e_) == 3:
                    keys.append(("a", e_[1]))
                elif e_[0] == "setitem-attr" and len(e_) == 4:
                    keys.append(("i", e_[1], repr(self.canon(_read_through(e_[2])))))
                else:
                    simple = False
                    break
            if simple and len(set(keys)) == len(keys) and not any(k[0] == "a" and any(k2[0] == "i" and k2[1] == k[1] for k2 in keys) for k in keys):
                # assignments to different fields / different items of the object commute: one order is kept
                order = sorted(range(len(effs)), key=lambda i_: keys[i_])
                effs2 = tuple((effs[i_][0],) + tuple(self.canon(_read_through(x)) if isinstance(x, tuple) else x for x in effs[i_][1:]) for i_ in order)
                return ("mut", self.canon(base), effs2)
            if len(effs) != len(t[2]) or base is not t[1]:
                return ("mut", self.canon(base), tuple(self.canon(_read_through(e_)) if isinstance(e_, tuple) else e_ for e_ in effs))
        if h == "fstr" and len(t) == 2 and isinstance(t[1], tuple):
            # f"{'u_'}{i}" is f"u_{i}": constant pieces are text, adjacent text is one piece (a value substituted late must read like one folded early)
            parts_: list = []
            for q_ in t[1]:
                if is_term(q_) and q_[0] == "fmt" and len(q_) == 3 and is_term(q_[1]) and q_[1][0] == "const" and isinstance(q_[1][1], str) and q_[2] == ("const", -1):
                    q_ = q_[1]
                elif is_term(q_) and q_[0] == "fmt" and len(q_) == 3 and is_term(q_[1]) and q_[1][0] == "fstr" and q_[2] == ("const", -1):
                    for r_ in q_[1][1]:
                        parts_.append(r_)
                    continue
                if parts_ and is_term(q_) and q_[0] == "const" and isinstance(q_[1], str) and parts_[-1][0] == "const" and isinstance(parts_[-1][1], str):
                    parts_[-1] = ("const", parts_[-1][1] + q_[1])
                else:
                    parts_.append(q_)
            if tuple(parts_) != t[1]:
                return self.canon_opaque(("fstr", tuple(parts_)))
        if h == "op" and len(t) == 4 and t[1] in ("+", "*") and is_term(t[2]) and is_term(t[3]) and t[2][0] == "const" and isinstance(t[2][1], (int, float)) \
                and not isinstance(t[2][1], bool) and t[3][0] != "const":
            return self.canon_opaque(("op", t[1], t[3], t[2]))  # 1 + i is i + 1 (numbers)
        if h == "index" and len(t) == 3 and is_term(t[1]) and t[1][0] == "mut" and len(t[1]) == 3:
            # d[k] right after d[k] = v (a memo filled and read in one step): v
            kc = self.canon(t[2])
            for e_ in reversed(t[1][2]):
                if e_[0] == "setitem" and len(e_) == 3:
                    if self.canon(e_[1]) == kc:
                        return self.canon(e_[2])
                    continue
                break
        if h == "attr" and len(t) == 3 and is_term(t[1]) and t[1][0] == "mut":
            r_ = _read_through(t)
            if r_ != t:
                return self.canon(r_)
        if h == "index" and len(t) == 3 and is_term(t[1]) and t[1][0] in ("tuplelit", "listlit") and t[2][0] == "const" and isinstance(t[2][1], int) \
                and not any(x[0] == "star" for x in t[1][1]) and -len(t[1][1]) <= t[2][1] < len(t[1][1]):
            return self.canon(t[1][1][t[2][1]])  # (a, b)[0] is a
        if h == "len" and len(t) == 2 and is_term(t[1]):
            a0 = t[1]
            while a0[0] == "call" and a0[1] in ("sorted", "list", "tuple", "reversed") and len(a0[2]) == 1:
                a0 = a0[2][0]  # ordering / copying a collection keeps its length
            if a0 is not t[1]:
                return ("len", self.canon(a0))
        if h in ("listlit", "tuplelit") and t[1] and all(x[0] == "star" for x in t[1]):
            # [*a, *b] = a followed by b
            out = t[1][0][1]
            for x in t[1][1:]:
                out = ("concat", out, x[1])
            if h == "tuplelit":
                return self.canon(("call", "tuple", (out,), ()))  # (*a, *b) is a tuple whatever a and b are
            return self.canon(out)
        if h == "call" and isinstance(t[1], str) and t[1].split(".")[-1] == "chain" and len(t[2]) >= 1 and not t[3] and not t[1].endswith("from_iterable"):
            out = t[2][0]
            for x in t[2][1:]:
                out = ("concat", out, x)
            return self.canon(out)
        if h == "call" and t[1] in ("sorted", "list", "tuple", "reversed") and len(t[2]) == 1:
            a0 = self.strip(t[2][0])
            if a0 == EMPTY or (a0[0] in ("listlit", "tuplelit", "setlit") and len(a0) == 2 and not a0[1]):
                return ("tuplelit" if t[1] == "tuple" else "listlit", ())  # nothing to sort / list
            if t[1] == "tuple" and a0[0] in ("listlit", "tuplelit") and not any(x[0] == "star" for x in a0[1]):
                return self.canon(("tuplelit", a0[1]))
        if h == "call" and isinstance(t[1], str) and t[1].split(".")[-1] in ITER_CONSUMERS and t[2]:
            # list(X) / tuple(X) handed to something that only iterates it is X
            args = []
            ch = False
            for a in t[2]:
                while a[0] == "call" and a[1] in ("list", "tuple", "iter") and len(a[2]) == 1 and not a[3] and a[2][0][0] not in ("comp",):
                    a = a[2][0]
                    ch = True
                args.append(a)
            if ch:
                return self.canon_opaque(("call", t[1], tuple(args), t[3]))
        if h == "call" and isinstance(t[1], str) and t[1].split(".")[-1] in EXTERNAL_SIGNATURES and len(t[2]) > 1:
            # groupby(xs, f) is groupby(xs, key=f): positional arguments of well-known library routines get their parameter names
            names = EXTERNAL_SIGNATURES[t[1].split(".")[-1]]
            if len(t[2]) <= len(names):
                kw = dict(t[3])
                for nm, a in zip(names[1:], t[2][1:]):
                    kw[nm] = a
                return self.canon_opaque(("call", t[1], (t[2][0],), tuple(sorted(kw.items()))))
        if h == "call" and isinstance(t[1], str) and t[1].split(".")[-1] == "tqdm" and t[2]:
            return self.canon(t[2][0])  # a progress bar around X yields X
        if h == "meth" and t[2] == "keys" and not t[3] and not t[4]:
            return self.canon(t[1])  # d.keys(), as a collection, is d
        if h == "accum":
            c = accum_as_comp(t)
            if c is not None:
                return self.canon_opaque(c)
            t2 = _discard_form(t)
            if t2 != t:
                return self.canon_opaque(t2)
        if h == "accum" and len(t) > 5 and t[5] == ("const", True):
            # may stop early: kept as the loop it is -- over the elements of its source (list(X), tuple(X), iter(X) walk X in X's order)
            gens_ = []
            for g_ in t[4]:
                it_ = g_[1]
                while is_term(it_) and it_[0] == "call" and it_[1] in ("list", "tuple", "iter") and len(it_[2]) == 1 and not it_[3]:
                    it_ = it_[2][0]
                gens_.append((g_[0], it_, g_[2]))
            t = t[:4] + (tuple(gens_),) + t[5:]
            return (h,) + tuple(self.canon(x) for x in t[1:])
        if h == "call" and t[1] in ("list", "tuple") and len(t[2]) == 1 and not t[3] and is_term(t[2][0]) and t[2][0][0] == "accum" and t[2][0][1] == "concat" \
                and len(t[2][0]) > 5 and t[2][0][5] == ("const", True):
            return self.canon_opaque(t[2][0])  # list(<a list built by a loop>): the same items
        if (h == "accum" and t[1] in ("union", "concat")) or h == "bigunion":
            return self.canon_set(t)
        if h == "call" and isinstance(t[1], str) and (t[1] in CHAIN_NAMES or t[1].endswith("chain.from_iterable")) and len(t[2]) == 1:
            return self.canon_set(("bigunion", t[2][0]))
        if h == "call" and t[1] in ("tuple", "list") and len(t[2]) == 1 and not t[3] and t[2][0][0] == "comp" and t[2][0][1] in ("list", "gen"):
            # tuple(<comprehension>) / list(<generator>): the same sequence of items
            return self.canon_opaque(t[2][0])
        if h == "comp" and t[1] != "dict" and not (isinstance(t[2], tuple) and t[2] and t[2][0] == "%payload"):
            # conditional expressions nested inside the element are lifted to one case distinction on the element
            from .symeval import _first_ite
            elt = t[2]
            for _ in range(6):
                it = _first_ite(elt) if elt[0] != "ite" else None
                if elt[0] == "ite":
                    # lift inside the branches
                    def lift(e_, n=4):
                        i2 = _first_ite(e_) if n else None
                        if i2 is None or i2[0] != "ite" or i2 is e_ or i2 == e_:
                            if e_[0] == "ite":
                                return ("ite", e_[1], lift(e_[2], n), lift(e_[3], n))
                            return e_
                        return ("ite", i2[1], lift(subst(e_, {i2: i2[2]}), n - 1), lift(subst(e_, {i2: i2[3]}), n - 1))
                    elt = lift(elt)
                    break
                if it is None or it[0] != "ite":
                    break
                elt = ("ite", it[1], subst(elt, {it: it[2]}), subst(elt, {it: it[3]}))
            if elt != t[2]:
                t = ("comp", t[1], elt, t[3])
        if h == "comp":
            gens = tuple((self.canon(p), self.canon(self.strip(i) if t[1] in ("set",) else i), tuple(self._canon_cond(c) for c in cs)) for p, i, cs in t[3])
            # a generator expression handed to a consumer is the sequence a list comprehension would hold
            return ("comp", "list" if t[1] == "gen" else t[1], self.canon(t[2]), gens)
        if h in ("in", "not", "and", "or", "truth", "subset", "disjoint"):
            return self._canon_cond(t)
        if h == "call" and t[1] in ("sorted", "min", "max") and t[2] and t[2][0][0] in ("listlit", "tuplelit", "setlit") and not any(x[0] == "star" for x in t[2][0][1]):
            # sorted([a, b]) = sorted((b, a)): the argument is a multiset
            items = tuple(sorted((self.canon(x) for x in t[2][0][1]), key=repr))
            return ("call", t[1], (("listlit", items),) + tuple(self.canon(x) for x in t[2][1:]), self.canon(t[3]))
        if h == "ite":
            # a chain of conditionals is a case distinction: the set of (full guard, value) pairs, independent of the order of the tests
            cases = []

            def walk(e_, guard, depth=0):
                if e_[0] == "ite" and depth < 8:
                    c = self.cond(e_[1])
                    walk(e_[2], f_and(guard, c), depth + 1)
                    walk(e_[3], f_and(guard, f_not(c)), depth + 1)
                else:
                    cases.append((guard, e_))

            walk(t, True)
            out = []
            for g, v in cases:
                if g is False:
                    continue
                out.append((("COND", formula_key(g)), self.canon(v)))
            # merge cases with equal values
            if len({v for _, v in out}) == 1:
                return out[0][1]
            return ("cases", tuple(sorted(out, key=lambda x: repr(alpha_normalise(x)))))
        return (h,) + tuple(self.canon(x) for x in t[1:])

    def _strip_iter(self, t: Term) -> Term:
        if t[0] == "comp":
            gens = tuple((p, self.strip(i), cs) for p, i, cs in t[3])
            return ("comp", "set", t[2], gens)
        return t

    def _canon_cond(self, c: Term) -> Term:
        f = self.cond(c)
        return ("COND", formula_key(f))


def _read_through(t: Any) -> Any:
    """attr(mut(base, effects), name): the value last assigned to that field, else the base's field (when no effect touches it)"""
    if not isinstance(t, tuple):
        return t
    if not is_term(t):
        return tuple(_read_through(x) for x in t)

    def fn(s_):
        if s_[0] == "attr" and len(s_) == 3 and is_term(s_[1]) and s_[1][0] == "mut" and len(s_[1]) == 3:
            base, name = s_[1], s_[2]
            while base[0] == "mut" and len(base) == 3:
                for e_ in reversed(base[2]):
                    if e_[0] == "setattr" and e_[1] == name:
                        return _read_through(e_[2])
                    if (e_[0] == "setitem-attr" and e_[1] == name) or (e_[0] == "deep" and e_[1] and e_[1][0] == ("attr", name)) or e_[0] not in ("setattr", "setitem-attr", "deep"):
                        return None  # the field itself is modified in place: not resolved here
                base = base[1]
            if base[0] == "copyof":
                base = base[1]
            return ("attr", _read_through(base), name)
        return None
    return mapterm(t, fn)


def _normalise_atoms(f: Formula) -> Formula:
    """the bound variables inside every atom get their canonical names, so that two spellings of one atom (fresh names from two evaluations
    of the same sub-term) are ONE atom of the truth table"""
    if f is True or f is False:
        return f
    if f[0] == "atom":
        try:
            return ("atom", scope_normalise(f[1]))
        except Exception:  # noqa: BLE001
            return f
    return (f[0],) + tuple(_normalise_atoms(g) for g in f[1:])


def _discard_form(t: Term) -> Term:
    """`if x in d[k]: d[k].remove(x)`  is  `d[k].discard(x)`: removal of an element is written as discard, and the test that the element is
    present (which only guards a no-op) is dropped."""
    if len(t) < 6 or t[1] != "effect" or t[3][0] != "deep" or t[3][2] not in ("remove", "discard") or len(t[3][3]) != 1:
        return t
    path, x = t[3][1], t[3][3][0]
    key = path[0][1] if len(path) == 1 and path[0][0] == "item" else None
    gens = []
    for pat, it, conds in t[4]:
        cs = []
        for c in conds:
            parts = list(c[1:]) if c[0] == "and" else [c]
            kept = [q for q in parts if not (q[0] == "in" and q[1] == x and q[2][0] == "index" and key is not None and q[2][2] == key)]
            if not kept:
                continue
            cs.append(kept[0] if len(kept) == 1 else ("and",) + tuple(kept))
        gens.append((pat, it, tuple(cs)))
    return ("accum", "effect", t[2], ("deep", path, "discard", t[3][3]), tuple(gens), t[5])


EXTERNAL_SIGNATURES = {"groupby": ("iterable", "key"), "sorted": ("iterable", "key", "reverse"), "enumerate": ("iterable", "start"),
                       # networkx (documented signatures; the graph stays positional)
                       "all_simple_paths": ("G", "source", "target", "cutoff"), "has_path": ("G", "source", "target"),
                       "ancestors": ("G", "source"), "descendants": ("G", "source"), "combinations": ("iterable", "r")}
ITER_CONSUMERS = {"combinations", "permutations", "product", "chain", "from_iterable", "sorted", "enumerate", "zip", "sum", "min", "max",
                  "combinations_with_replacement", "reversed", "triplewise", "pairwise"}


def accum_as_comp(t: Term) -> Term | None:
    """One update per iteration of an empty list / dict is the comprehension with the same generators (exact: order and overwriting of
    equal keys are those of the loop)."""
    if len(t) < 6 or t[5] != ("const", False):
        return None
    kind, res, payload, gens = t[1], t[2], t[3], t[4]
    while payload[0] == "call" and payload[1] in ("iter", "list", "tuple") and len(payload[2]) == 1 and not payload[3]:
        payload = payload[2][0]
    if kind == "concat" and res == ("listlit", ()) and payload[0] == "listlit" and len(payload[1]) == 0:
        return ("listlit", ())  # nothing is added in any iteration
    if kind == "concat" and payload[0] == "listlit" and len(payload[1]) == 0:
        return res
    if kind == "concat" and res == ("listlit", ()) and payload[0] in ("accum", "comp") :
        inner = accum_as_comp(payload) if payload[0] == "accum" else (payload if payload[1] in ("list", "gen") else None)
        if inner is not None and inner[0] == "comp":
            # a list built per iteration and appended whole: one comprehension over both levels
            return ("comp", "list", inner[2], tuple(gens) + tuple(inner[3]))
    if kind == "concat" and res == ("listlit", ()) and payload[0] == "listlit" and len(payload[1]) == 1 and payload[1][0][0] != "star":
        return ("comp", "list", payload[1][0], tuple(gens))
    if kind == "effect" and payload[0] == "setitem" and len(payload) == 3:
        c = ("comp", "dict", ("kv", payload[1], payload[2]), tuple(gens))
        if res == ("dictlit", ()):
            return c
        # d[k] = v once per iteration on top of d0  =  d0 | {k: v for ...}  (later keys win in both)
        return ("op", "|", res, c)
    return None


def formula_key(f: Formula) -> Any:
    """Canonical key of a formula: sorted atoms + truth table."""
    atoms = sorted(atoms_of(f), key=akey)
    if len(atoms) > 12:
        return ("FORMULA", repr(f))
    tb = table(f, atoms)
    # drop the atoms the table does not depend on (a guard computed as "none of the earlier cases" mentions every earlier atom)
    n = len(atoms)
    keep = []
    for i in range(n):
        stride = 1 << (n - 1 - i)
        dep = any(tb[j] != tb[j + stride] for j in range(len(tb)) if not (j // stride) % 2)
        if dep:
            keep.append(i)
    if len(keep) < n:
        atoms2 = [atoms[i] for i in keep]
        # the dropped atoms do not matter: fix them to False
        return (tuple(atoms2), _restrict(f, atoms, keep))
    return (tuple(atoms), tb)


def _restrict(f: Formula, atoms: list, keep: list) -> tuple:
    kept = [atoms[i] for i in keep]
    out = []
    for bits in itertools.product([False, True], repeat=len(kept)):
        env = {a: False for a in atoms}
        env.update(dict(zip(kept, bits)))
        out.append(evalf(f, env))
    return tuple(out)


def _unify(pattern: Any, target: Any, pvars: set, acc: dict | None = None) -> dict | None:
    """One-way matching: a substitution of the pattern variables that makes `pattern` equal to `target`."""
    if acc is None:
        acc = {}
    if isinstance(pattern, tuple) and is_term(pattern) and pattern in pvars:
        if pattern in acc:
            return acc if acc[pattern] == target else None
        acc[pattern] = target
        return acc
    if isinstance(pattern, tuple):
        if not isinstance(target, tuple) or len(pattern) != len(target):
            return None
        for a, b in zip(pattern, target):
            if _unify(a, b, pvars, acc) is None:
                return None
        return acc
    return acc if pattern == target else None


def _mentions_var(g: Any, v: Term) -> bool:
    return any(x == v for x in subterms(g))
