"""E7 -- effects / freshness: which parameters (incl. self) may a function mutate?

A purely syntactic may-alias + mutator analysis with bottom-up summaries over resolvable callees.
`roots(expr)` is the set of parameters whose reachable state the value may alias; "fresh" values
(constructors, copies, comprehensions, literals, returns of functions summarised as returning fresh)
have no roots.  A mutation whose receiver has a root is an external effect on that parameter.
"""

from __future__ import annotations

import ast
from dataclasses import dataclass, field

from .model import Cls, Func, Model, dotted, unparse, walk_local

MUTATOR_METHODS = {
    "add", "update", "append", "extend", "remove", "discard", "pop", "clear", "insert", "setdefault",
    "add_node", "add_nodes_from", "add_edge", "add_edges_from", "remove_node", "remove_nodes_from",
    "remove_edge", "remove_edges_from", "add_directed_edge", "add_undirected_edge", "intersection_update",
    "difference_update", "symmetric_difference_update", "sort", "reverse", "popitem", "add_weighted_edges_from",
    "add_path", "add_cycle", "add_star", "set_node_attributes", "set_edge_attributes", "relabel_nodes_inplace",
}
# NxMixedGraph.remove_nodes_from is a *pure* repo method sharing its name with the networkx mutator:
# resolved by receiver type where known (see _is_pure_repo_method).
FRESH_BUILTINS = {
    "set", "frozenset", "list", "tuple", "dict", "sorted", "str", "int", "len", "bool", "sum", "min", "max", "any",
    "all", "range", "enumerate", "zip", "map", "filter", "reversed", "repr", "isinstance", "iter", "next", "float",
    "abs", "round", "hash", "type", "print", "getattr", "hasattr", "id", "callable", "format",
}
FRESH_EXTERNAL_TAILS = {"copy", "deepcopy", "combinations", "product", "permutations", "chain", "from_iterable",
                        "topological_sort", "ancestors", "descendants", "connected_components", "defaultdict",
                        "moral_graph", "DiGraph", "Graph", "MultiGraph", "has_path", "is_connected", "all_simple_paths",
                        "transitive_closure_dag", "is_directed_acyclic_graph", "strongly_connected_components",
                        "partial", "groupby", "Counter", "to_undirected", "subgraph_view", "reduce"}
GRAPH_MUTATING_FUNCS = {"set_node_attributes", "set_edge_attributes"}


@dataclass
class Effect:
    param: str
    how: str
    line: int
    via: str = ""


@dataclass
class Summary:
    mutates: dict[str, list[Effect]] = field(default_factory=dict)  # param -> effects
    returns_roots: set[str] = field(default_factory=set)  # params the return value may alias
    benign: list[Effect] = field(default_factory=list)


def _has_mutable_default(f: Func, p: str) -> bool:
    a = f.node.args
    pos = a.posonlyargs + a.args
    pairs = list(zip(pos[len(pos) - len(a.defaults):], a.defaults)) + [(x, d) for x, d in zip(a.kwonlyargs, a.kw_defaults) if d is not None]
    for x, d in pairs:
        if x.arg == p:
            return isinstance(d, (ast.Dict, ast.List, ast.Set, ast.ListComp, ast.DictComp, ast.SetComp)) or (
                isinstance(d, ast.Call) and getattr(d.func, "id", getattr(d.func, "attr", "")) in ("dict", "list", "set", "defaultdict", "OrderedDict", "Counter"))
    return False


class Effects:
    def __init__(self, model: Model, benign_stores: set[str] | None = None) -> None:
        self.model = model
        self.summaries: dict[str, Summary] = {}
        self._in_progress: set[str] = set()
        # subscript keys (constant names) whose store is bookkeeping, one reason each
        self.benign_stores = benign_stores or {"NO_SET_LATENT_FLAG"}

    def summary(self, f: Func) -> Summary:
        if f.qname in self.summaries:
            return self.summaries[f.qname]
        if f.qname in self._in_progress:
            return Summary()  # recursion: optimistic, re-evaluated by caller's own body
        self._in_progress.add(f.qname)
        try:
            s = self._analyse(f)
        finally:
            self._in_progress.discard(f.qname)
        self.summaries[f.qname] = s
        return s

    # ------------------------------------------------------------------
    def _analyse(self, f: Func) -> Summary:
        s = Summary()
        a = f.node.args
        params = [x.arg for x in a.posonlyargs + a.args + a.kwonlyargs]
        if a.vararg:
            params.append(a.vararg.arg)
        if a.kwarg:
            params.append(a.kwarg.arg)
        env: dict[str, set[str]] = {p: {p} for p in params}
        shallow: dict[str, set[str]] = {}  # name -> params it is a shallow copy of (fields are shared)
        types: dict[str, Cls | None] = {}
        for x in a.posonlyargs + a.args + a.kwonlyargs:
            types[x.arg] = self._ann_cls(f, x.annotation)
        if f.cls is not None and params and not f.is_staticmethod:
            types[params[0]] = f.cls
        if f.is_classmethod and params:
            env[params[0]] = set()
        local_names = {n.id for n in ast.walk(f.node) if isinstance(n, ast.Name) and isinstance(n.ctx, ast.Store)} | set(params)
        for n in ast.walk(f.node):
            if isinstance(n, ast.Global):
                local_names -= set(n.names)

        def roots(e: ast.expr | None) -> set[str]:
            if e is None:
                return set()
            if isinstance(e, ast.Name):
                if e.id not in env and e.id not in local_names:
                    # a module-level mutable container (a memo table, a registry): state that outlives the call
                    g = f.module.constants.get(e.id)
                    if g is not None and (isinstance(g, (ast.Dict, ast.List, ast.Set)) or (
                            isinstance(g, ast.Call) and getattr(g.func, "id", getattr(g.func, "attr", "")) in ("dict", "list", "set", "defaultdict", "OrderedDict", "Counter", "WeakKeyDictionary"))):
                        return {f"<module state {e.id}>"}
                return set(env.get(e.id, set()))
            if isinstance(e, (ast.Attribute, ast.Subscript)):
                r0 = roots(e.value)
                b = e.value
                while isinstance(b, (ast.Attribute, ast.Subscript)):
                    b = b.value
                if isinstance(b, ast.Name) and b.id in shallow:
                    # a field of a shallow copy is the original's field
                    r0 = r0 | shallow[b.id]
                return r0
            if isinstance(e, ast.Starred):
                return roots(e.value)
            if isinstance(e, (ast.ListComp, ast.SetComp, ast.DictComp, ast.GeneratorExp, ast.Constant, ast.JoinedStr,
                              ast.Compare, ast.BoolOp, ast.UnaryOp, ast.Lambda)):
                if isinstance(e, ast.BoolOp):
                    r: set[str] = set()
                    for v in e.values:
                        r |= roots(v)
                    return r
                return set()
            if isinstance(e, (ast.List, ast.Tuple, ast.Set, ast.Dict)):
                return set()  # a new container (elements may be shared, containers are not)
            if isinstance(e, ast.BinOp):
                return set()
            if isinstance(e, ast.IfExp):
                return roots(e.body) | roots(e.orelse)
            if isinstance(e, ast.NamedExpr):
                return roots(e.value)
            if isinstance(e, ast.Call):
                return call_roots(e)
            return set()

        def callee_of(c: ast.Call):
            fn = c.func
            if isinstance(fn, ast.Name):
                r = self.model.resolve_name(f.module, fn.id)
                if isinstance(r, (Func, Cls)):
                    return r, None
                return fn.id, None
            if isinstance(fn, ast.Attribute):
                recv = fn.value
                rc = self._expr_cls(f, recv, types)
                if rc is not None:
                    m = rc.find_method(fn.attr)
                    if m is not None:
                        return m, recv
                if isinstance(recv, ast.Name):
                    r = self.model.resolve_name(f.module, recv.id)
                    if isinstance(r, Cls):
                        m = r.find_method(fn.attr)
                        if m is not None:
                            return m, None
                    if isinstance(r, tuple) and r[0] == "external":
                        return f"{r[1]}.{fn.attr}", None
                q = dotted(fn)
                if q:
                    head = q.split(".")[0]
                    if head in f.module.imports and head not in env:
                        return f.module.imports[head] + q[len(head):], None
                return ("method", fn.attr), recv
            return None, None

        def call_roots(c: ast.Call) -> set[str]:
            cal, recv = callee_of(c)
            if isinstance(cal, Cls):
                # constructing an object that stores its arguments
                r = set()
                for x in list(c.args) + [k.value for k in c.keywords]:
                    r |= roots(x)
                return r
            if isinstance(cal, Func):
                sm = self.summary(cal)
                r = set()
                bound = self._bind(cal, c, recv)
                for p in sm.returns_roots:
                    if p in bound:
                        r |= roots(bound[p])
                return r
            if isinstance(cal, str):
                tail = cal.split(".")[-1]
                if tail in FRESH_BUILTINS or tail in FRESH_EXTERNAL_TAILS:
                    return set()
                if tail == "cast" and len(c.args) == 2:
                    return roots(c.args[1])
                return set()
            if isinstance(cal, tuple) and cal[0] == "method":
                name = cal[1]
                if name in ("copy", "deepcopy", "__copy__", "union", "difference", "intersection", "symmetric_difference",
                            "items", "keys", "values", "edges", "nodes", "predecessors", "successors", "neighbors",
                            "subgraph", "to_undirected", "to_directed", "reverse_view", "join", "format", "split",
                            "index", "count", "issubset", "issuperset", "isdisjoint", "startswith", "endswith",
                            "in_degree", "out_degree", "degree", "has_edge", "has_node", "number_of_nodes", "number_of_edges",
                            "get_base", "most_common"):
                    return set()
                # repo methods of that name (CHA): fresh if all of them return fresh
                cands = self.model.methods_by_name.get(name, [])
                if cands:
                    r = set()
                    for m in cands:
                        sm = self.summary(m)
                        if sm.returns_roots:
                            r |= roots(recv)
                            for x in c.args:
                                r |= roots(x)
                    return r
                if name in ("get", "pop", "setdefault", "__getitem__"):
                    return roots(recv)
                return set()
            return set()

        def note(param_roots: set[str], how: str, line: int, via: str = "") -> None:
            for p in param_roots:
                s.mutates.setdefault(p, []).append(Effect(p, how, line, via))

        def visit_call(c: ast.Call) -> None:
            cal, recv = callee_of(c)
            line = c.lineno
            if isinstance(cal, Func):
                sm = self.summary(cal)
                bound = self._bind(cal, c, recv)
                for p, effs in sm.mutates.items():
                    if p in bound:
                        rr = roots(bound[p])
                        if rr:
                            note(rr, f"passes it to {cal.qname}, which mutates parameter `{p}` ({effs[0].how})", line, cal.qname)
                    elif p.startswith("<"):
                        # state that outlives the callee's call (a module-level table, a mutable default) outlives this call too
                        note({p}, f"calls {cal.qname}, which writes {p[1:-1]} ({effs[0].how})", line, cal.qname)
                    elif _has_mutable_default(cal, p):
                        note({f"<mutable default `{p}` of {cal.qname}>"}, f"calls {cal.qname} without `{p}`, whose shared default object it mutates ({effs[0].how})", line, cal.qname)
                return
            if isinstance(cal, Cls):
                init = cal.find_method("__init__") or cal.find_method("__post_init__")
                return
            if isinstance(cal, tuple) and cal[0] == "method":
                name = cal[1]
                rr = roots(recv)
                if name in MUTATOR_METHODS and rr:
                    if self._is_pure_repo_method(f, recv, name, types):
                        return
                    note(rr, f"calls mutator .{name}() on `{unparse(recv)}`", line)
                elif rr or any(roots(x) for x in c.args):
                    # unresolved method: repo methods of that name that mutate their arguments (CHA)
                    for m in self.model.methods_by_name.get(name, []):
                        sm = self.summary(m)
                        if not sm.mutates:
                            continue
                        bound = self._bind(m, c, recv)
                        for p in sm.mutates:
                            if p in bound and roots(bound[p]):
                                note(roots(bound[p]), f"calls .{name}() which may resolve to {m.qname}, mutating `{p}`", line, m.qname)
                return
            if isinstance(cal, str):
                tail = cal.split(".")[-1]
                if tail in GRAPH_MUTATING_FUNCS and c.args:
                    rr = roots(c.args[0])
                    if rr:
                        note(rr, f"calls {cal}() on `{unparse(c.args[0])}`", line)

        def store(tgt: ast.expr, line: int, what: str) -> None:
            if isinstance(tgt, (ast.Tuple, ast.List)):
                for e in tgt.elts:
                    store(e, line, what)
                return
            if isinstance(tgt, ast.Attribute):
                rr = roots(tgt.value)
                if rr:
                    if f.name in ("__init__", "__post_init__") and isinstance(tgt.value, ast.Name) and params and tgt.value.id == params[0]:
                        return  # construction of self
                    note(rr, f"{what} attribute `{unparse(tgt)}`", line)
            elif isinstance(tgt, ast.Subscript):
                rr = roots(tgt.value)
                if rr:
                    key = tgt.slice
                    if isinstance(key, ast.Name) and key.id in self.benign_stores:
                        s.benign.append(Effect(",".join(sorted(rr)), f"bookkeeping store `{unparse(tgt)}`", line))
                        return
                    note(rr, f"{what} item `{unparse(tgt)}`", line)

        def exec_stmts(stmts: list[ast.stmt]) -> None:
            for st in stmts:
                exec_stmt(st)

        def exec_stmt(st: ast.stmt) -> None:
            for n in walk_expr_calls(st):
                visit_call(n)
            if isinstance(st, ast.Assign):
                r = roots(st.value)
                for t in st.targets:
                    if isinstance(t, (ast.Tuple, ast.List)) and isinstance(st.value, (ast.Tuple, ast.List)) and len(t.elts) == len(st.value.elts) \
                            and not any(isinstance(x, ast.Starred) for x in list(t.elts) + list(st.value.elts)):
                        # a, b = x, y: each name is bound to ITS element (the tuple display itself is new, what it unpacks to is not)
                        for te, ve in zip(t.elts, st.value.elts):
                            bind_target(te, roots(ve), ve)
                            store(te, st.lineno, "assigns")
                        continue
                    bind_target(t, r, st.value)
                    store(t, st.lineno, "assigns")
            elif isinstance(st, ast.AnnAssign) and st.value is not None:
                bind_target(st.target, roots(st.value), st.value)
                store(st.target, st.lineno, "assigns")
                if isinstance(st.target, ast.Name):
                    c = self._ann_cls(f, st.annotation)
                    if c is not None:
                        types[st.target.id] = c
            elif isinstance(st, ast.AugAssign):
                if isinstance(st.target, ast.Name):
                    rr = set(env.get(st.target.id, set()))
                    # `x |= y` / `x += y` mutate x in place when x is a mutable collection
                    if rr and isinstance(st.op, (ast.BitOr, ast.BitAnd, ast.Sub, ast.Add, ast.BitXor)):
                        tcls = types.get(st.target.id)
                        note(rr, f"augmented assignment mutates `{st.target.id}` in place", st.lineno)
                else:
                    store(st.target, st.lineno, "augmented-assigns")
            elif isinstance(st, ast.Delete):
                for t in st.targets:
                    store(t, st.lineno, "deletes")
            elif isinstance(st, (ast.For, ast.AsyncFor)):
                r = roots(st.iter)
                bind_target(st.target, r, None)
                exec_stmts(st.body)
                exec_stmts(st.body)  # second pass: aliases created late in the body
                exec_stmts(st.orelse)
            elif isinstance(st, ast.While):
                exec_stmts(st.body)
                exec_stmts(st.body)
                exec_stmts(st.orelse)
            elif isinstance(st, ast.If):
                exec_stmts(st.body)
                exec_stmts(st.orelse)
            elif isinstance(st, ast.Try):
                exec_stmts(st.body)
                for h in st.handlers:
                    exec_stmts(h.body)
                exec_stmts(st.orelse)
                exec_stmts(st.finalbody)
            elif isinstance(st, ast.With):
                for it in st.items:
                    if it.optional_vars is not None:
                        bind_target(it.optional_vars, roots(it.context_expr), None)
                exec_stmts(st.body)
            elif isinstance(st, ast.Return) and st.value is not None:
                s.returns_roots |= roots(st.value)
            elif isinstance(st, ast.Expr) and isinstance(st.value, (ast.Yield, ast.YieldFrom)) and st.value.value is not None:
                s.returns_roots |= roots(st.value.value)

        def bind_target(t: ast.expr, r: set[str], value: ast.expr | None) -> None:
            if isinstance(t, ast.Name):
                # weak update (flow-insensitive join keeps earlier aliases only for loops' second pass)
                env[t.id] = set(r)
                shallow.pop(t.id, None)
                if isinstance(value, ast.Call) and value.args:
                    fn = value.func
                    nm = fn.id if isinstance(fn, ast.Name) else (fn.attr if isinstance(fn, ast.Attribute) else "")
                    if nm == "copy" and not (isinstance(fn, ast.Attribute) and not isinstance(fn.value, ast.Name)):
                        sr = roots(value.args[0])
                        if sr:
                            shallow[t.id] = sr
                    elif nm == "replace" and isinstance(fn, (ast.Name, ast.Attribute)):
                        sr = roots(value.args[0])
                        if sr:
                            shallow[t.id] = sr
                if value is not None:
                    c = self._expr_cls(f, value, types)
                    if c is not None:
                        types[t.id] = c
            elif isinstance(t, (ast.Tuple, ast.List)):
                for e in t.elts:
                    bind_target(e, r, None)
            elif isinstance(t, ast.Starred):
                bind_target(t.value, r, None)

        def walk_expr_calls(st: ast.stmt):
            """Calls in the statement's own expressions (not nested statement bodies)."""
            stack: list[ast.AST] = []
            for fld, val in ast.iter_fields(st):
                if fld in ("body", "orelse", "finalbody", "handlers"):
                    continue
                if isinstance(val, list):
                    stack.extend(v for v in val if isinstance(v, ast.AST))
                elif isinstance(val, ast.AST):
                    stack.append(val)
            out = []
            while stack:
                n = stack.pop()
                if isinstance(n, (ast.FunctionDef, ast.Lambda, ast.ClassDef)):
                    continue
                if isinstance(n, ast.Call):
                    out.append(n)
                stack.extend(ast.iter_child_nodes(n))
            return sorted(out, key=lambda c: (c.lineno, c.col_offset))

        exec_stmts(f.node.body)
        return s

    # ------------------------------------------------------------------
    def _bind(self, cal: Func, c: ast.Call, recv: ast.expr | None) -> dict[str, ast.expr]:
        a = cal.node.args
        pos = [x.arg for x in a.posonlyargs + a.args]
        bound: dict[str, ast.expr] = {}
        if cal.cls is not None and not cal.is_staticmethod and pos:
            if recv is not None and not cal.is_classmethod:
                bound[pos[0]] = recv
            pos = pos[1:]
        for i, x in enumerate(c.args):
            if isinstance(x, ast.Starred):
                break
            if i < len(pos):
                bound[pos[i]] = x
            elif a.vararg:
                bound.setdefault(a.vararg.arg, x)
        for k in c.keywords:
            if k.arg:
                bound[k.arg] = k.value
        return bound

    def _ann_cls(self, f: Func, ann: ast.expr | None) -> Cls | None:
        if ann is None:
            return None
        if isinstance(ann, ast.Constant) and isinstance(ann.value, str):
            try:
                ann = ast.parse(ann.value, mode="eval").body
            except SyntaxError:
                return None
        if isinstance(ann, ast.Name):
            r = self.model.resolve_name(f.module, ann.id)
            return r if isinstance(r, Cls) else None
        return None

    def _expr_cls(self, f: Func, e: ast.expr, types: dict[str, Cls | None]) -> Cls | None:
        if isinstance(e, ast.Name):
            return types.get(e.id)
        if isinstance(e, ast.Call):
            fn = e.func
            if isinstance(fn, ast.Name):
                r = self.model.resolve_name(f.module, fn.id)
                if isinstance(r, Cls):
                    return r
                if isinstance(r, Func):
                    return self._ann_cls(r, r.node.returns)
                if fn.id in ("deepcopy", "copy") and e.args:
                    return self._expr_cls(f, e.args[0], types)
            if isinstance(fn, ast.Attribute):
                rc = self._expr_cls(f, fn.value, types)
                if rc is not None:
                    m = rc.find_method(fn.attr)
                    if m is not None:
                        return self._ann_cls(m, m.node.returns)
                if isinstance(fn.value, ast.Name):
                    r = self.model.resolve_name(f.module, fn.value.id)
                    if isinstance(r, Cls):
                        m = r.find_method(fn.attr)
                        if m is not None:
                            return self._ann_cls(m, m.node.returns)
                if fn.attr in ("deepcopy", "copy") and e.args:
                    return self._expr_cls(f, e.args[0], types)
        if isinstance(e, ast.Subscript):
            # d[k] where d is an attribute annotated dict[K, V] / list[V]
            base = e.value
            if isinstance(base, ast.Attribute):
                rc = self._expr_cls(f, base.value, types)
                if rc is not None:
                    for k in rc.mro():
                        if base.attr in k.fields and k.fields[base.attr] is not None:
                            ann = k.fields[base.attr]
                            if isinstance(ann, ast.Constant) and isinstance(ann.value, str):
                                try:
                                    ann = ast.parse(ann.value, mode="eval").body
                                except SyntaxError:
                                    return None
                            if isinstance(ann, ast.Subscript) and isinstance(ann.value, ast.Name) and ann.value.id in ("dict", "Dict", "Mapping", "list", "List", "Sequence"):
                                sl = ann.slice
                                val = sl.elts[-1] if isinstance(sl, ast.Tuple) else sl
                                return self._ann_cls(Func("?", k.module, f.node), val)
            return None
        if isinstance(e, ast.Attribute):
            rc = self._expr_cls(f, e.value, types)
            if rc is not None:
                for k in rc.mro():
                    if e.attr in k.fields:
                        return self._ann_cls(Func("?", k.module, f.node), k.fields[e.attr])
                    if e.attr in k.methods and k.methods[e.attr].is_property:
                        m = k.methods[e.attr]
                        return self._ann_cls(m, m.node.returns)
        return None

    def _is_pure_repo_method(self, f: Func, recv: ast.expr, name: str, types: dict[str, Cls | None]) -> bool:
        rc = self._expr_cls(f, recv, types)
        if rc is None:
            return False
        m = rc.find_method(name)
        if m is None:
            return False
        return not self.summary(m).mutates
