"""E9 -- self-validation of the rules against the CURRENT tree (thorough tier).

For the property being checked:
  * every stored seeded change (/verif/seeded/<PID>-*/patch.diff, confirmed property-breaking changes) that still applies to the current
    tree is applied to a scratch copy (outside /repo and /verif, removed at once): the quick rules must report a refutation that the
    unchanged tree does not have  -- otherwise the rule has gone BLIND (e.g. after a refactoring of y0 that moved the construct);
  * semantics-preserving twins of the current tree -- mechanical (whole-tree re-emission by ast.unparse, renaming of every function-local
    variable, swapping the arms of every if/else and conditional expression, all three together) and the stored hand-written refactorings
    (/verif/twins/*.diff that touch the property's cone and still apply) -- must give exactly the same set of refuted obligations as the
    unchanged tree -- otherwise the rule is BRITTLE (it would raise a false alarm on a behaviour-preserving edit).
Blind / brittle rules make the thorough run end as analysis-broken (exit 2); they are statements about the checker, never VIOLATIONs.
"""

from __future__ import annotations

import ast
import concurrent.futures as cf
import json
import os
import shutil
import subprocess
import sys
import tempfile

VERIF = os.path.dirname(os.path.dirname(os.path.abspath(__file__)))
PY = sys.executable


class Renamer(ast.NodeTransformer):
    """Rename function-local variables x -> x_rn throughout the function (including nested scopes)."""

    def __init__(self):
        self.maps = []

    def _locals(self, fn):
        params = set()
        a = fn.args
        for p in a.posonlyargs + a.args + a.kwonlyargs:
            params.add(p.arg)
        if a.vararg:
            params.add(a.vararg.arg)
        if a.kwarg:
            params.add(a.kwarg.arg)
        bound, declared = set(), set()
        for n in ast.walk(fn):
            if n is fn:
                continue
            if isinstance(n, ast.Name) and isinstance(n.ctx, (ast.Store, ast.Del)):
                bound.add(n.id)
            elif isinstance(n, (ast.Global, ast.Nonlocal)):
                declared.update(n.names)
            elif isinstance(n, (ast.FunctionDef, ast.AsyncFunctionDef, ast.Lambda)):
                for p in n.args.posonlyargs + n.args.args + n.args.kwonlyargs:
                    declared.add(p.arg)
        return {b for b in bound - params - declared if not b.startswith("__")}

    def visit_FunctionDef(self, node):
        if not self.maps:
            self.maps.append({x: x + "_rn" for x in self._locals(node)})
            self.generic_visit(node)
            self.maps.pop()
        else:
            self.generic_visit(node)
        return node

    def visit_Name(self, node):
        if self.maps and node.id in self.maps[-1]:
            node.id = self.maps[-1][node.id]
        return node


class IfSwap(ast.NodeTransformer):
    def visit_If(self, node):
        self.generic_visit(node)
        if node.orelse and not (len(node.orelse) == 1 and isinstance(node.orelse[0], ast.If)) and not (
            isinstance(node.test, ast.UnaryOp) and isinstance(node.test.op, ast.Not)
        ):
            node.test = ast.UnaryOp(op=ast.Not(), operand=node.test)
            node.body, node.orelse = node.orelse, node.body
        return node

    def visit_IfExp(self, node):
        self.generic_visit(node)
        if not (isinstance(node.test, ast.UnaryOp) and isinstance(node.test.op, ast.Not)):
            node.test = ast.UnaryOp(op=ast.Not(), operand=node.test)
            node.body, node.orelse = node.orelse, node.body
        return node


MECHANICAL = {"reformat": ("reformat",), "rename": ("rename",), "ifswap": ("ifswap",), "all": ("reformat", "rename", "ifswap")}


def transform(src_root: str, kinds) -> None:
    for dp, _dn, fns in os.walk(os.path.join(src_root, "src", "y0")):
        for fn in fns:
            if not fn.endswith(".py"):
                continue
            p = os.path.join(dp, fn)
            with open(p, encoding="utf-8") as fh:
                tree = ast.parse(fh.read())
            if "rename" in kinds:
                tree = Renamer().visit(tree)
            if "ifswap" in kinds:
                tree = IfSwap().visit(tree)
            ast.fix_missing_locations(tree)
            with open(p, "w", encoding="utf-8") as fh:
                fh.write(ast.unparse(tree) + "\n")


def _scratch(src: str) -> str:
    d = tempfile.mkdtemp(prefix="yvself-", dir=os.environ.get("TMPDIR", "/tmp"))
    shutil.copytree(src, os.path.join(d, "src"))
    return d


def _run_check(pid: str, d: str) -> tuple[int, set]:
    evd = os.path.join(d, "ev")
    env = dict(os.environ, YV_EVIDENCE_DIR=evd, VERIF_TIER="quick")
    r = subprocess.run([PY, os.path.join(VERIF, "yv", "check.py"), pid, "--repo", d, "--no-evidence", "--tier", "quick"], capture_output=True, text=True, env=env)
    keys: set = set()
    try:
        with open(os.path.join(evd, f"{pid}.json"), encoding="utf-8") as fh:
            keys = set(json.load(fh)["coverage"].get("refuted_keys", []))
    except Exception:  # noqa: BLE001
        pass
    return r.returncode, keys


def _one(pid: str, src: str, name: str, kind: str, payload) -> dict:
    d = _scratch(src)
    try:
        if kind in ("seed", "hand-twin"):
            r = subprocess.run(["patch", "-p1", "-s", "--no-backup-if-mismatch", "-d", d, "-i", payload], capture_output=True, text=True)
            if r.returncode != 0:
                return {"name": name, "kind": kind, "status": "skipped", "why": "patch no longer applies to the current tree"}
        else:
            transform(d, payload)
        r = subprocess.run([PY, "-m", "compileall", "-q", os.path.join(d, "src", "y0")], capture_output=True, text=True)
        if r.returncode != 0:
            return {"name": name, "kind": kind, "status": "skipped", "why": "variant does not compile"}
        code, keys = _run_check(pid, d)
        return {"name": name, "kind": kind, "status": "ran", "exit": code, "refuted": sorted(keys)}
    finally:
        shutil.rmtree(d, ignore_errors=True)


def touched_files(patch: str) -> set:
    out = set()
    with open(patch, encoding="utf-8", errors="replace") as fh:
        for line in fh:
            if line.startswith("+++ b/"):
                out.add(line[6:].strip())
    return out


def self_validate(pid: str, src: str, base_refuted: set, cone_files: set | None = None) -> list[dict]:
    jobs = []
    sd = os.path.join(VERIF, "seeded")
    if os.path.isdir(sd):
        for s in sorted(os.listdir(sd)):
            p = os.path.join(sd, s, "patch.diff")
            m = os.path.join(sd, s, "meta.json")
            if os.path.isfile(p) and os.path.isfile(m):
                try:
                    with open(m, encoding="utf-8") as fh:
                        if json.load(fh).get("breaks_property") != pid:
                            continue
                except Exception:  # noqa: BLE001
                    continue
                jobs.append((s, "seed", p))
    for name, kinds in MECHANICAL.items():
        jobs.append((name, "mechanical-twin", kinds))
    td = os.path.join(VERIF, "twins")
    if os.path.isdir(td):
        for fn in sorted(os.listdir(td)):
            if fn.endswith(".diff"):
                p = os.path.join(td, fn)
                if cone_files is None or (touched_files(p) & cone_files) or fn.startswith(pid):
                    jobs.append((fn[:-5], "hand-twin", p))
    results = []
    with cf.ThreadPoolExecutor(max_workers=min(16, max(1, len(jobs)))) as ex:
        futs = [ex.submit(_one, pid, src, *j) for j in jobs]
        for fu in futs:
            results.append(fu.result())
    for r in results:
        if r["status"] != "ran":
            r["ok"] = None
            continue
        got = set(r["refuted"])
        if r["kind"] == "seed":
            r["ok"] = bool(got - base_refuted) and r["exit"] in (1,)
            if not r["ok"]:
                r["why"] = "RULE BLIND: a confirmed property-breaking change is not reported"
        else:
            if got != base_refuted:
                r["ok"] = False
                r["why"] = "RULE BRITTLE: a behaviour-preserving variant changes the verdicts: " + ", ".join(sorted(got ^ base_refuted)[:3])
            elif r["exit"] == 2:
                r["ok"] = False
                r["why"] = "RULE BRITTLE: a behaviour-preserving variant breaks the analysis (exit 2)"
            else:
                r["ok"] = True
    return results
