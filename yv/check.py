#!/venv/bin/python
"""Entry point:  /venv/bin/python /verif/yv/check.py <PROPERTY-ID> --tier quick|thorough

Static analysis only: parses /repo/src/y0 afresh, decides the property's structural clauses,
writes /verif/evidence/<ID>.json, prints one line per obligation.
Exit 0 = all obligations proven (or listed known findings); 1 = VIOLATION; 2 = analysis broken.
"""

from __future__ import annotations

import argparse
import importlib
import json
import os
import sys
import traceback

sys.path.insert(0, os.path.dirname(os.path.dirname(os.path.abspath(__file__))))
sys.setrecursionlimit(20000)

from yv.model import AnalysisError, Model  # noqa: E402
from yv.report import Report, finish  # noqa: E402


# what each property's claim rests on (its trusted base among the other properties): the thorough tier re-runs those rules on the same parse
DEPS = {
    "C01": ["C14", "C13"], "C02": ["C14", "C01"], "C03": ["C01", "C04", "C13", "C14"], "C04": ["C14"], "C05": ["C14", "C04", "C13"],
    "C06": ["C14"], "C07": ["C14", "C13"], "C08": ["C07", "C04", "C13"], "C09": ["C14", "C13"], "C10": ["C13"], "C11": ["C10", "C12"],
    "C12": ["C13"], "C13": [], "C14": [], "C15": ["C04", "C14"], "C16": ["C14", "C13"], "C17": ["C14", "C13"], "C18": ["C14", "C13"], "C19": ["C14", "C13"], "C20": ["C14"],
}


# The value-correctness properties are statements about a FUNCTION of the arguments: a necessary condition, visible in the code, is that the
# public routine (with everything it calls) keeps nothing between calls -- no write to a module-level table, to a shared mutable default, or
# to the caller's graph / event objects (a graph method that caches on the instance is such a write).  One obligation per entry point.
AI = "y0.algorithm.identify"
CT = "y0.algorithm.counterfactual_transport.api"
ENTRY_POINTS = {
    "C01": ("R1.9", [f"{AI}.id_std.identify", f"{AI}.api.identify_outcomes"]),
    "C03": ("R3.9", [f"{AI}.id_c.idc"]),
    "C04": ("R4.9", ["y0.algorithm.conditional_independencies.are_d_separated"]),
    "C07": ("R7.9", [f"{AI}.id_star.id_star"]),
    "C08": ("R8.9", [f"{AI}.idc_star.idc_star"]),
    "C09": ("R9.9", [f"{CT}.transport_unconditional_counterfactual_query", f"{CT}.transport_conditional_counterfactual_query", f"{CT}.unconditional_cft", f"{CT}.conditional_cft"]),
    "C10": ("R10.9", ["y0.mutate.canonicalize_expr.canonicalize", "y0.mutate.canonicalize_expr.canonical_expr_equal"]),
    "C11": ("R11.9", ["y0.mutate.canonicalize_expr.canonicalize"]),
    "C13": ("R13.9", ["y0.mutate.chain.chain_expand", "y0.mutate.chain.fraction_expand", "y0.mutate.chain.bayes_expand", "y0.mutate.contract.contract"]),
    "C17": ("R17.9", ["y0.algorithm.tian_id.identify_district_variables", "y0.algorithm.tian_id.compute_c_factor", "y0.algorithm.tian_id.compute_ancestral_set_q_value"]),
    "C18": ("R18.9", [f"{AI}.cg.make_counterfactual_graph", f"{AI}.cg.make_parallel_worlds_graph"]),
    "C19": ("R19.9", [f"{CT}.simplify", f"{CT}.minimize_event", f"{CT}.get_counterfactual_factors", f"{CT}.do_counterfactual_factor_factorization"]),
    "C20": ("R20.9", ["y0.algorithm.separation.sigma_separation.are_sigma_separated"]),
}


def entry_points_stateless(pid: str, model, rep: Report) -> None:
    if pid not in ENTRY_POINTS:
        return
    from yv.rules.common import stateless_obligations

    rule, quals = ENTRY_POINTS[pid]
    present = [q for q in quals if model.has_func(q)]
    stateless_obligations(model, rep, rule, present)
    rep.floors[rule] = len(quals)


# A second necessary condition of "for all inputs": the iterable arguments of the routine may be one-shot (a generator, map, filter).  No
# function reachable from the property's routines traverses such a parameter twice before materialising it (E10, yv/oneshot.py).
G = "y0.graph.NxMixedGraph"
SL = "y0.algorithm.simplify_latent"
TR = "y0.algorithm.transport"
CI = "y0.algorithm.conditional_independencies"
SINGLE_PASS_ROOTS = {
    "C01": [f"{AI}.id_std.identify", f"{AI}.api.identify_outcomes"],
    "C02": [f"{AI}.id_std.identify", f"{AI}.api.identify_outcomes"],
    "C03": [f"{AI}.id_c.idc"],
    "C04": [f"{CI}.are_d_separated"],
    "C05": [f"{TR}.trso", f"{TR}.identify_target_outcomes"],
    "C07": [f"{AI}.id_star.id_star"],
    "C08": [f"{AI}.idc_star.idc_star"],
    "C09": [f"{CT}.transport_unconditional_counterfactual_query", f"{CT}.transport_conditional_counterfactual_query", f"{CT}.unconditional_cft", f"{CT}.conditional_cft"],
    "C06": [f"{AI}.id_std.identify", f"{AI}.id_c.idc", f"{TR}.trso", f"{TR}.identify_target_outcomes", f"{AI}.id_star.id_star", f"{AI}.idc_star.idc_star"],
    "C10": ["y0.mutate.canonicalize_expr.canonicalize", "y0.mutate.canonicalize_expr.canonical_expr_equal"],
    "C11": ["y0.mutate.canonicalize_expr.canonicalize"],
    "C12": ["y0.parser.internal.parse_y0", "y0.dsl.Probability.to_y0", "y0.dsl.Sum.to_y0", "y0.dsl.Product.to_y0", "y0.dsl.Fraction.to_y0", "y0.dsl.QFactor.to_y0"],
    "C13": ["y0.mutate.chain.chain_expand", "y0.mutate.chain.fraction_expand", "y0.mutate.chain.bayes_expand", "y0.mutate.contract.contract",
            "y0.dsl.Sum.simplify", "y0.dsl.Sum.safe", "y0.dsl.Product.safe", "y0.dsl.Fraction.simplify", "y0.dsl.Expression.conditional", "y0.dsl.Expression.marginalize"],
    "C14": [f"{G}.subgraph", f"{G}.remove_in_edges", f"{G}.remove_out_edges", f"{G}.remove_nodes_from", f"{G}.intervene", f"{G}.ancestors_inclusive",
            f"{G}.descendants_inclusive", f"{G}.districts", f"{G}.get_markov_pillow", f"{G}.get_markov_blanket", f"{G}.moralize", f"{G}.disorient", f"{G}.pre",
            f"{G}.topological_sort", "y0.graph.get_nodes_in_directed_paths"],
    "C15": [f"{CI}.d_separations", f"{CI}.get_conditional_independencies", f"{CI}.minimal"],
    "C16": [f"{SL}.evans_simplify", f"{SL}.simplify_latent_dag", f"{G}.to_latent_variable_dag", f"{G}.from_latent_variable_dag"],
    "C17": ["y0.algorithm.tian_id.identify_district_variables", "y0.algorithm.tian_id.compute_c_factor", "y0.algorithm.tian_id.compute_ancestral_set_q_value"],
    "C18": [f"{AI}.cg.make_counterfactual_graph", f"{AI}.cg.make_parallel_worlds_graph"],
    "C19": [f"{CT}.simplify", f"{CT}.minimize_event", f"{CT}.get_counterfactual_factors", f"{CT}.do_counterfactual_factor_factorization"],
    "C20": ["y0.algorithm.separation.sigma_separation.are_sigma_separated"],
}


def single_pass(pid: str, model, rep: Report) -> None:
    if pid not in SINGLE_PASS_ROOTS:
        return
    import ast as _ast

    from yv.oneshot import OneShot
    from yv.rules.common import construct, loc

    rule = "R" + str(int(pid[1:])) + ".8"
    eng = OneShot(model)
    quals = SINGLE_PASS_ROOTS[pid]
    present = [q for q in quals if model.has_func(q)]

    def callees(f):
        out = []
        for n in _ast.walk(f.node):
            if isinstance(n, _ast.Call):
                cal, _ = eng.resolve(f, n)
                if cal is not None:
                    out.append(cal)
                elif isinstance(n.func, _ast.Attribute):
                    out.extend(model.methods_by_name.get(n.func.attr, []))  # class-hierarchy approximation for `x.method(...)`
                elif isinstance(n.func, _ast.Name):
                    r = model.resolve_name(f.module, n.func.id)
                    if hasattr(r, "find_method"):
                        for mn in ("__init__", "__post_init__"):
                            m_ = r.find_method(mn)
                            if m_ is not None:
                                out.append(m_)
        return out

    for q in present:
        root = model.func(q)
        seen, todo = {root.qname: root}, [root]
        while todo:
            f = todo.pop()
            for g in callees(f):
                if g.qname not in seen and g.qname.startswith("y0."):
                    seen[g.qname] = g
                    todo.append(g)
        finds = [x for f in seen.values() for x in eng.findings(f)]
        n_params = sum(len(eng.one_shot_params(f)) for f in seen.values())
        cons = construct(root, "single-pass")
        if finds:
            x = finds[0]
            g = model.func(x.func)
            rep.refuted(rule, cons, f"`{x.param}` of {x.func} is declared Iterable -- it may be a generator, map or filter -- and is traversed twice before it is "
                        f"materialised (line {x.first}, then line {x.second}: {x.how}); the second traversal of a one-shot iterable sees nothing, so the routine answers "
                        f"for an empty `{x.param}`", loc(g, x.second), sample={"reachable functions": len(seen), "findings": len(finds)})
        else:
            rep.proven(rule, cons, loc=loc(root), sample={"reachable functions": len(seen), "Iterable-typed parameters watched": n_params}, nontrivial=n_params > 0)
    rep.floors[rule] = len(quals)


def inherit_dependencies(pid: str, model, rep: Report) -> None:
    """The rules of the properties this one's claim rests on (its trusted base among the other properties), re-run on the same parse: a change
    in the graph class or in the expression DSL that breaks THEIR definitions breaks this property's claim as well.  Both tiers."""
    from yv.report import PROVEN, REFUTED, UNKNOWN  # noqa: F401

    own = {o.key for o in rep.obligations}
    n_dep = 0
    closure: list = []
    todo = list(DEPS.get(pid, []))
    while todo:  # what a dependency rests on, this property rests on
        d_ = todo.pop(0)
        if d_ != pid and d_ not in closure:
            closure.append(d_)
            todo.extend(DEPS.get(d_, []))
    for dep in closure:
        sub = Report(pid, "thorough")
        importlib.import_module(f"yv.rules.{dep.lower()}").run(model, sub, "quick")
        for ob in sub.obligations:
            if ob.key in own:
                continue
            own.add(ob.key)
            ob.inherited = dep
            # an obligation the dependency's own check needs decided is needed here too: a graph routine the analysis can no longer read
            # leaves this property's claim without its base (ob.required is kept as the dependency's rule set it)
            rep.obligations.append(ob)
            n_dep += 1
        for e in sub.errors:
            rep.error(f"[{dep}] {e}")
    rep.stats["inherited_obligations"] = n_dep
    rep.stats["inherited_from"] = closure


def thorough(pid: str, model, rep: Report, args) -> None:
    from yv.report import PROVEN, REFUTED, UNKNOWN
    from yv.selftest import self_validate

    # 2. self-validation of this property's own rules on scratch variants of the current tree
    base = {o.key for o in rep.obligations if o.verdict == REFUTED and not getattr(o, "inherited", None)}
    src = os.path.join(args.repo, "src") if args.repo else "/repo/src"
    results = self_validate(pid, src, base)
    st = {"seeded_ran": 0, "seeded_caught": 0, "seeded_skipped": 0, "twins_ran": 0, "twins_silent": 0, "twins_skipped": 0, "details": []}
    for r in results:
        seed = r["kind"] == "seed"
        if r["status"] != "ran":
            st["seeded_skipped" if seed else "twins_skipped"] += 1
            st["details"].append({"name": r["name"], "kind": r["kind"], "status": "skipped", "why": r.get("why", "")})
            continue
        st["seeded_ran" if seed else "twins_ran"] += 1
        if r["ok"]:
            st["seeded_caught" if seed else "twins_silent"] += 1
        elif seed and r.get("exit") == 2:
            # a stored property-breaking change on which the check ends WITHOUT A VERDICT (exit 2 naming the routine): not a silent pass -- the
            # rule is not blind -- but not a detection either; recorded (evidence, DESIGN.md appendix), it does not change this run's verdict
            st.setdefault("seeds_no_verdict", []).append(r["name"])
            print(f"SELFTEST-NOTE property={pid} no verdict (analysis incomplete) on stored seeded change {r['name']}")
        elif seed or r["kind"] == "mechanical-twin":
            # a confirmed property-breaking change that is no longer reported, or a purely mechanical re-emission of the tree that changes a verdict:
            # the rule has gone blind / depends on layout -- the run is not a verdict
            rep.error(f"self-validation: {r['kind']} {r['name']}: {r.get('why', '')}")
        else:
            # a hand-written refactoring on which this check is not silent: a limit of the normaliser, recorded (evidence, DESIGN.md appendix),
            # not a statement about the tree under analysis -- it does not change this run's verdict
            st.setdefault("twins_not_silent", []).append(r["name"])
            print(f"SELFTEST-NOTE property={pid} not silent on stored refactoring {r['name']}: {r.get('why', '')[:200]}")
        st["details"].append({"name": r["name"], "kind": r["kind"], "ok": r["ok"], "new_refutations": sorted(set(r["refuted"]) - base)[:4]})
    rep.stats["selftest"] = st
    print(f"SELFTEST property={pid} seeded {st['seeded_caught']}/{st['seeded_ran']} caught ({st['seeded_skipped']} skipped), "
          f"twins {st['twins_silent']}/{st['twins_ran']} silent ({st['twins_skipped']} skipped)")


def main() -> int:
    ap = argparse.ArgumentParser()
    ap.add_argument("property")
    ap.add_argument("--tier", default=os.environ.get("VERIF_TIER", "quick"), choices=["quick", "thorough"])
    ap.add_argument("--replay", default=None)
    ap.add_argument("--repo", default=None, help="alternative source root (self-validation on scratch copies)")
    ap.add_argument("--no-evidence", action="store_true")
    args = ap.parse_args()
    seed = int(os.environ.get("VERIF_SEED", "0") or 0)
    pid = args.property.upper()
    # the analysis of one property takes seconds; a source shape that sends the path enumeration or the case splits off into a combinatorial
    # blow-up ends as "analysis incomplete" (exit 2) instead of running on
    import signal

    budget = int(os.environ.get("YV_TIME_BUDGET", "240" if args.tier == "quick" else "1500"))

    def _out_of_time(_sig, _frm):
        print(f"ANALYSIS-ERROR: time budget of {budget}s exceeded for {pid}: no verdict (the analysis did not finish)")
        sys.stdout.flush()
        os._exit(2)

    # CPU time of this process (a loaded machine must not turn a green check into "no verdict"); a generous wall-clock alarm behind it
    signal.signal(signal.SIGPROF, _out_of_time)
    signal.setitimer(signal.ITIMER_PROF, budget)
    signal.signal(signal.SIGALRM, _out_of_time)
    signal.alarm(budget * 6)
    if args.replay:
        with open(args.replay, encoding="utf-8") as fh:
            data = json.load(fh)
        pid = data.get("property", pid)
        print(json.dumps(data, indent=1, ensure_ascii=False))
    try:
        mod = importlib.import_module(f"yv.rules.{pid.lower()}")
    except ModuleNotFoundError:
        print(f"ANALYSIS-ERROR: no rule module for {pid}")
        return 2
    rep = Report(pid, args.tier)
    try:
        model = Model(os.path.join(args.repo, "src") if args.repo else None)
        rep.model = model
        rep.stats["files_parsed"] = model.files_parsed
        rep.stats["source_digest"] = model.digest()
        mod.run(model, rep, args.tier)
        entry_points_stateless(pid, model, rep)
        single_pass(pid, model, rep)
        inherit_dependencies(pid, model, rep)
        if args.tier == "thorough":
            thorough(pid, model, rep, args)
    except AnalysisError as e:
        print(f"ANALYSIS-ERROR: {e}")
        rep.error(str(e))
    except Exception as e:  # noqa: BLE001
        traceback.print_exc()
        print(f"ANALYSIS-ERROR: internal error: {type(e).__name__}: {e}")
        rep.error(f"internal error: {type(e).__name__}: {e}")
    if args.no_evidence:
        import yv.report as r

        r.EVIDENCE_DIR = os.environ.get("YV_EVIDENCE_DIR", "/tmp/yv-evidence")
        r.REPLAY_DIR = os.path.join(r.EVIDENCE_DIR, "replay")
    return finish(rep, seed)


if __name__ == "__main__":
    sys.stdout.reconfigure(line_buffering=True)
    code = main()
    sys.stdout.flush()
    os._exit(code)
