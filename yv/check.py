#!/venv/bin/python
"""Entry point:  /venv/bin/python /verif/yv/check.py <PROPERTY-ID> --tier quick|thorough

Static analysis only: parses /repo/src/y0 afresh, decides the property's structural clauses,
writes /verif/evidence/<ID>.json, prints one line per obligation.
Exit 0 = all obligations proven (or listed known findings); 1 = VIOLATION; 2 = analysis broken.
"""

from __future__ import annotations

import argparse
import importlib
import json
import os
import sys
import traceback

sys.path.insert(0, os.path.dirname(os.path.dirname(os.path.abspath(__file__))))
sys.setrecursionlimit(20000)

from yv.model import AnalysisError, Model  # noqa: E402
from yv.report import Report, finish  # noqa: E402


def main() -> int:
    ap = argparse.ArgumentParser()
    ap.add_argument("property")
    ap.add_argument("--tier", default=os.environ.get("VERIF_TIER", "quick"), choices=["quick", "thorough"])
    ap.add_argument("--replay", default=None)
    ap.add_argument("--repo", default=None, help="alternative source root (self-validation on scratch copies)")
    ap.add_argument("--no-evidence", action="store_true")
    args = ap.parse_args()
    seed = int(os.environ.get("VERIF_SEED", "0") or 0)
    pid = args.property.upper()
    if args.replay:
        with open(args.replay, encoding="utf-8") as fh:
            data = json.load(fh)
        pid = data.get("property", pid)
        print(json.dumps(data, indent=1, ensure_ascii=False))
    try:
        mod = importlib.import_module(f"yv.rules.{pid.lower()}")
    except ModuleNotFoundError:
        print(f"ANALYSIS-ERROR: no rule module for {pid}")
        return 2
    rep = Report(pid, args.tier)
    try:
        model = Model(os.path.join(args.repo, "src") if args.repo else None)
        rep.stats["files_parsed"] = model.files_parsed
        rep.stats["source_digest"] = model.digest()
        mod.run(model, rep, args.tier)
    except AnalysisError as e:
        print(f"ANALYSIS-ERROR: {e}")
        rep.error(str(e))
    except Exception as e:  # noqa: BLE001
        traceback.print_exc()
        print(f"ANALYSIS-ERROR: internal error: {type(e).__name__}: {e}")
        rep.error(f"internal error: {type(e).__name__}: {e}")
    if args.no_evidence:
        import yv.report as r

        r.EVIDENCE_DIR = os.environ.get("YV_EVIDENCE_DIR", "/tmp/yv-evidence")
        r.REPLAY_DIR = r.EVIDENCE_DIR
    return finish(rep, seed)


if __name__ == "__main__":
    sys.stdout.reconfigure(line_buffering=True)
    code = main()
    sys.stdout.flush()
    os._exit(code)
