"""E6 (HASHORD part) -- does the iteration order of a set/frozenset reach an ordered value?

`leaks(ev, term, conds)` walks a value term; a list/generator comprehension (or star-unpacking, or
next(iter(..))) over a value whose static type is set/frozenset, in a context whose order matters
(tuple, list, str.join, f-string, positional tuple fields), is a leak unless it passes through a
sanitiser: sorted(...), min/max/any/all/sum/len, set/frozenset construction, a set comprehension.
"""

from __future__ import annotations

from .symeval import Evaluator
from .terms import Term, is_term, show

SANITISERS = {"sorted", "min", "max", "any", "all", "sum", "len", "set", "frozenset"}
ORDER_KEEPING = {"tuple", "list", "iter", "reversed", "enumerate", "map", "filter", "zip"}


def _hash_ordered(ev: Evaluator, t: Term) -> bool:
    while t[0] == "call" and t[1] in ORDER_KEEPING and t[2]:
        t = t[2][0]
    if t[0] == "call" and t[1] in ("sorted",):
        return False
    if t[0] in ("setof", "union", "inter", "diff", "setlit") or (t[0] == "comp" and t[1] == "set"):
        return True
    if t[0] == "meth" and t[2] in ("keys", "values", "items"):
        return False  # dicts keep insertion order
    typ = ev.typeof(t)
    if isinstance(typ, tuple) and typ and typ[0] in ("set", "frozenset"):
        return True
    return False


def leaks(ev: Evaluator, term: Term, conds: tuple = ()) -> list[str]:
    out: list[str] = []

    def single(x: Term) -> bool:
        return any(c[0] == "eq" and ((c[1] == ("len", x) and c[2] == ("const", 1)) or (c[2] == ("len", x) and c[1] == ("const", 1))) for c in conds)

    def go(t, ordered: bool) -> None:
        if not isinstance(t, tuple):
            return
        if not is_term(t):
            for x in t:
                go(x, ordered)
            return
        h = t[0]
        if h == "call" and t[1] in SANITISERS or h in ("any", "all", "len", "setof", "truth", "in", "eq", "ne", "subset", "psubset", "disjoint"):
            for x in t[1:]:
                go(x, False)
            return
        if h == "comp":
            kind, elt, gens = t[1], t[2], t[3]
            inner_ordered = ordered and kind in ("list", "gen", "dict")
            for pat, it, cs in gens:
                if inner_ordered and _hash_ordered(ev, it):
                    out.append(f"iterates the set `{show(it)}` in hash order into an ordered value ({show(t)[:120]})")
                go(it, False)
                for c in cs:
                    go(c, False)
            go(elt, inner_ordered)
            return
        if h == "star" and ordered and _hash_ordered(ev, t[1]):
            out.append(f"unpacks the set `{show(t[1])}` in hash order")
        if h == "call" and t[1] == "next" and t[2] and t[2][0][0] == "call" and t[2][0][1] == "iter" and t[2][0][2]:
            x = t[2][0][2][0]
            if ordered and _hash_ordered(ev, x) and not single(x):
                out.append(f"takes an arbitrary element of the set `{show(x)}`")
        if h == "call" and t[1] in ("tuple", "list") and t[2] and ordered and _hash_ordered(ev, t[2][0]) and t[2][0][0] != "comp":
            out.append(f"materialises the set `{show(t[2][0])}` in hash order")
        if h == "meth" and t[2] == "join" and t[3] and ordered and _hash_ordered(ev, t[3][0]) and t[3][0][0] != "comp":
            out.append(f"joins the set `{show(t[3][0])}` in hash order")
        for x in t[1:]:
            go(x, ordered)

    go(term, True)
    return out
