"""Comparison of a repo function with a *reference definition* written as Python source.

A rule states the published definition once, as a few lines of Python in a reference module (parsed, never executed).
Both the repo function and the reference are turned into path lists by the same symbolic evaluator and compared
semantically:

    for every implementation path i and reference path j whose guards are jointly satisfiable
        (formula satisfiability over the membership / emptiness / isinstance atoms),
    the outcomes must agree: same kind (return / raise) and equal canonical value
        (set sub-terms as truth tables, bound variables alpha-normalised, wrappers stripped).

Path splitting, helper inlining / outlining, the spelling of set operations, boolean restructuring and renamings do not
change the verdict; a differing operand (wrong graph operation, wrong set, dropped step) does, and the first differing
sub-term is printed as the witness.
"""

from __future__ import annotations

import ast

from typing import Any, Callable

from .model import Func, Model
from .setalg import SetAlg, TooManyAtoms, f_and, f_not, satisfy, show_formula, show_row
from .symeval import Evaluator, Path
from .terms import Term, alpha_normalise, has_unknown, is_term, mapterm, show, subst, subterms


def norm_formula(f):
    if f is True or f is False:
        return f
    if f[0] == "atom":
        return ("atom", alpha_normalise(f[1]))
    return (f[0],) + tuple(norm_formula(g) for g in f[1:])


def exc_class(p: Path) -> str:
    v = p.value
    if v[0] in ("new", "rec", "ref", "builtin"):
        return str(v[1]).split(".")[-1]
    if v[0] == "call" and isinstance(v[1], str):
        return v[1].split(".")[-1]
    return show(v)


def first_difference(a: Any, b: Any, depth: int = 0):
    """Smallest pair of differing sub-terms reached by descending while the heads and arities agree."""
    if a == b:
        return None
    if isinstance(a, tuple) and isinstance(b, tuple) and len(a) == len(b) and (not is_term(a) or a[0] == b[0]) and depth < 60:
        diffs = [(x, y) for x, y in zip(a, b) if x != y]
        if len(diffs) == 1:
            d = first_difference(diffs[0][0], diffs[0][1], depth + 1)
            if d is not None:
                return d
    return a, b


def _pat_vars(pat: Term) -> list:
    if pat[0] == "var":
        return [pat]
    if pat[0] == "tuplelit":
        out = []
        for x in pat[1]:
            out.extend(_pat_vars(x))
        return out
    return []


def _witness_renaming(conds: tuple) -> dict:
    """Loop witnesses ("for SOME element x of S ...", from search loops) get canonical names in order of introduction, so that the
    implementation's and the definition's paths talk about the same witnesses."""
    mapping: dict = {}
    for c in conds:
        if c[0] == "iter-elem":
            for v in _pat_vars(c[1]):
                if v not in mapping and isinstance(v[1], str) and v[1].startswith("%"):
                    mapping[v] = ("var", f"§w{len(mapping)}")
    return mapping


def _instantiate(fa: Term, witnesses: list, sa: SetAlg) -> list:
    """('forall-not', pat, it, conds): no element of `it` (and of the nested search loops inside conds) satisfies conds.
    Universal instantiation with the witnesses of the positive paths:  ¬ conds[pat := w]  for every witness w drawn from the same collection."""
    _, pat, it, conds = fa
    binders = [(pat, it)] + [(c[1], c[2]) for c in conds if c[0] == "iter-elem"]
    if pat[0] == "tuplelit" and len(pat[1]) >= 1 and all(c[0] != "iter-elem" or True for c in conds) and binders and pat[0] == "tuplelit" and len(binders) > 1 \
            and len(pat[1]) == len(binders) - 0 and all(b[0] in pat[1] for b in binders[1:]):
        # fused generators: ('tuplelit', (p0, p1, ...)) lists the patterns of all generators; the first binds p0 over `it`
        binders = [(pat[1][0], it)] + binders[1:]
    body = [c for c in conds if c[0] != "iter-elem"]
    subs: list = []

    def rec(i: int, sub: dict, prem: tuple) -> None:
        if len(subs) >= 24:
            return
        if i == len(binders):
            subs.append((sub, prem))
            return
        p, src = binders[i]
        src_i = subst(src, sub)
        src_s = alpha_normalise(sa.canon(src_i))
        for wp, wsrc in witnesses:
            pv, wv = _pat_vars(p), _pat_vars(wp)
            if len(pv) != len(wv) or (p[0] != wp[0]):
                continue
            s2 = dict(sub)
            s2.update(dict(zip(pv, wv)))
            if alpha_normalise(sa.canon(wsrc)) == src_s:
                rec(i + 1, s2, prem)
            else:
                # any term may be used to instantiate "no element of src satisfies ...": the instance then carries the premise "w is in src"
                rec(i + 1, s2, prem + (("in", wp, src_i),))

    rec(0, {}, ())
    out = []
    for sub, prem in subs[:24]:
        out.append(f_not(f_and(*[sa.cond(sa.rewrite(c)) for c in prem], *[sa.cond(sa.rewrite(subst(c, sub))) for c in body])))
    return out


def _quantifier_conds(c: Term, ev=None):
    """`any(e for x in S if c for y in T ...)` as a guard is "for SOME x in S with c, some y in T ...: e" (the form search loops produce);
    its negation is the universal form.  Returns the replacement conditions or None."""
    neg = False
    while c[0] == "not":
        neg = not neg
        c = c[1]
    if c[0] == "truth" and c[1][0] in ("any", "all"):
        c = c[1]
    if c[0] not in ("any", "all") or len(c) < 2 or not is_term(c[1]) or c[1][0] != "comp" or c[1][1] == "dict":
        return None
    comp = c[1]
    elt, gens = comp[2], comp[3]
    if not gens or (isinstance(elt, tuple) and elt and elt[0] == "%payload"):
        return None
    if ev is not None:
        elt = ev.as_cond(elt)  # any()/all() judge their elements by truthiness
    body = elt if c[0] == "any" else (elt[1] if elt[0] == "not" else ("not", elt))
    exists = (c[0] == "any") != neg
    seq: list = []
    for pat, it, conds in gens:
        seq.append(("iter-elem", pat, it))
        seq.extend(conds)
    seq.append(body)
    # the witnesses get names of their own: the quantified atom itself is kept next to this form and must keep its bound variables
    fresh = {v: ("var", str(v[1]) + "'") for g in gens for v in _pat_vars(g[0])}
    seq = [subst(x, fresh) for x in seq]
    if exists:
        return seq
    first = seq[0]
    return [("forall-not", first[1], first[2], tuple(seq[1:]))]


def _items_gen(pat: Term, it: Term):
    """`for k, v in d.items()` reads d[k] for every key k of d: (k, d, {v: d[k]}) or None.
    `for i, x in enumerate(S)` (with S indexable) reads S[i] for every position: (i, range(len(S)), {x: S[i]})."""
    if it[0] == "call" and it[1] == "enumerate" and pat[0] == "tuplelit" and len(pat[1]) == 2 and pat[1][0][0] == "var" and (
            (len(it[2]) == 2 and not it[3]) or (len(it[2]) == 1 and len(it[3]) == 1 and it[3][0][0] == "start")):
        # enumerate(S, start=k): the counter is the position plus k -- (i, range(len(S)), {x: S[i], counter: i + k})
        i, x = pat[1]
        S = it[2][0]
        k_ = it[2][1] if len(it[2]) == 2 else it[3][0][1]
        if k_[0] == "const" and isinstance(k_[1], int) and x[0] == "var" and S[0] in ("var", "attr", "index", "comp", "call", "meth", "listlit", "tuplelit"):
            pos = ("var", "%pos_of_" + str(x[1]).lstrip("%"))
            return pos, ("call", "range", (("len", S),), ()), {x: ("index", S, pos), i: (("op", "+", pos, k_) if k_[1] else pos)}
    if it[0] == "call" and it[1] == "enumerate" and len(it[2]) == 1 and not it[3] and pat[0] == "tuplelit" and len(pat[1]) == 2 and pat[1][0][0] == "var":
        i, x = pat[1]
        S = it[2][0]
        m: dict = {}

        def bind(p_, val):
            if p_[0] == "var":
                m[p_] = val
                return True
            if p_[0] == "tuplelit":
                return all(bind(q_, ("index", val, ("const", j))) for j, q_ in enumerate(p_[1]))
            return False

        if S[0] == "call" and S[1] == "zip" and len(S[2]) >= 2 and x[0] == "tuplelit" and len(x[1]) == len(S[2]) \
                and all(k_ == "strict" for k_, _v in S[3]):
            # for i, (a, b) in enumerate(zip(A, B)): position i of A and of B (as long as the shorter; with strict=True both have that length)
            if all(bind(q_, ("index", A_, i)) for q_, A_ in zip(x[1], S[2])):
                return i, ("call", "range", (("len", S[2][0]),), ()), m
            m.clear()
        if S[0] in ("var", "attr", "index", "comp", "call", "meth", "listlit", "tuplelit") and bind(x, ("index", S, i)):
            return i, ("call", "range", (("len", S),), ()), m
    if it[0] == "call" and it[1] == "zip" and len(it[2]) >= 2 and pat[0] == "tuplelit" and len(pat[1]) == len(it[2]) and all(k_ == "strict" for k_, _v in it[3]) \
            and all(A_[0] in ("var", "attr", "index") for A_ in it[2]):
        # for a, b in zip(A, B): a = A[i], b = B[i] at every position i (of the shorter; with strict=True both have that length)
        pv = _pat_vars(pat)
        if pv:
            i = ("var", "%pos_of_" + str(pv[0][1]).lstrip("%"))
            m2: dict = {}

            def bind2(p_, val):
                if p_[0] == "var":
                    m2[p_] = val
                    return True
                if p_[0] == "tuplelit":
                    return all(bind2(q_, ("index", val, ("const", j))) for j, q_ in enumerate(p_[1]))
                return False

            if all(bind2(q_, ("index", A_, i)) for q_, A_ in zip(pat[1], it[2])):
                return i, ("call", "range", (("len", it[2][0]),), ()), m2
    if it[0] == "meth" and it[2] == "items" and not it[3] and not it[4] and pat[0] == "tuplelit" and len(pat[1]) == 2 \
            and pat[1][0][0] == "var" and pat[1][1][0] == "var":
        k, v = pat[1]
        return k, it[1], {v: ("index", it[1], k)}
    if it[0] == "meth" and it[2] == "values" and not it[3] and not it[4] and pat[0] == "var" and isinstance(pat[1], str):
        # `for v in d.values()` reads d[k] for every key k
        k = ("var", "%key_of_" + pat[1].lstrip("%"))
        return k, it[1], {pat: ("index", it[1], k)}
    if it[0] == "meth" and it[2] == "items" and not it[3] and not it[4] and pat[0] == "var":
        # the pair itself is bound: pair[0] is the key, pair[1] the value read at that key
        return pat, it[1], {("index", pat, ("const", 0)): pat, ("index", pat, ("const", 1)): ("index", it[1], pat)}
    return None


def _keys(it: Term) -> Term:
    """iterating d.keys() is iterating d; iterating {k: v for k in S} is iterating S; a progress bar around S is S"""
    if it[0] == "meth" and it[2] == "keys" and not it[3] and not it[4]:
        return _keys(it[1])
    if it[0] == "call" and isinstance(it[1], str) and it[1].split(".")[-1] == "tqdm" and it[2]:
        return _keys(it[2][0])
    if it[0] == "call" and it[1] == "tqdm" and dict(it[3]).get("iterable") is not None:
        return _keys(dict(it[3])["iterable"])
    if it[0] == "comp" and it[1] == "dict" and len(it[3]) == 1 and it[2][0] == "kv" and it[2][1] == it[3][0][0] and it[3][0][0][0] == "var" and not it[3][0][2]:
        return it[3][0][1]
    return it


def _beta_dict(t: Any) -> Any:
    """{k: f(k) for k in S}[x]  is  f(x)  (for a key x)"""
    def f(s_: Term):
        if s_[0] == "index" and is_term(s_[1]) and s_[1][0] == "comp" and s_[1][1] == "dict" and len(s_[1][3]) == 1 and s_[1][2][0] == "kv" \
                and s_[1][2][1] == s_[1][3][0][0] and s_[1][3][0][0][0] == "var" and not s_[1][3][0][2]:
            return subst(s_[1][2][2], {s_[1][3][0][0]: s_[2]})
        return None
    return mapterm(t, f)


def _drop_enumerate(gens: list, rest: Any) -> list:
    """`for _, x in enumerate(S)` with the counter unused is `for x in S`."""
    out = list(gens)
    for i, (pat, it, conds) in enumerate(out):
        if it[0] == "call" and it[1] == "enumerate" and len(it[2]) == 1 and not it[3] and pat[0] == "tuplelit" and len(pat[1]) == 2 and pat[1][0][0] == "var":
            cnt = pat[1][0]
            used = any(x == cnt for x in subterms_of((conds, [g for g in out[i + 1:]], rest)))
            if not used:
                out[i] = (pat[1][1], it[2][0], conds)
    return out


def subterms_of(t: Any):
    if isinstance(t, (tuple, list)):
        if isinstance(t, tuple) and is_term(t):
            yield t
        for x in t:
            yield from subterms_of(x)


def _split_witness_gens(gens: list) -> list:
    """A generator whose filters contain "some element p of S (the first one the search stopped at) ..." is followed by one more generator:
    p ranges over firsthit(S), with the filters that came after it."""
    out = []
    for pat, it, conds in gens:
        cur = [pat, it, []]
        for c in conds:
            if c[0] == "iter-elem":
                out.append((cur[0], cur[1], tuple(cur[2])))
                cur = [c[1], ("firsthit", c[2]), []]
            else:
                cur[2].append(c)
        out.append((cur[0], cur[1], tuple(cur[2])))
    return out


def _unused_counter(pat: Term, it: Term, rest: Any):
    """`for i, x in enumerate(S)` whose counter i is not looked at in `rest`: (x, S); else None"""
    if it[0] == "call" and it[1] == "enumerate" and len(it[2]) == 1 and pat[0] == "tuplelit" and len(pat[1]) == 2 and pat[1][0][0] == "var":
        cnt = pat[1][0]
        if not any(x == cnt for x in subterms_of(rest)):
            return pat[1][1], it[2][0]
    return None


def _norm_items_term(t: Any) -> Any:
    def f(s_: Term):
        if s_[0] == "comp" and len(s_) > 3 and any(c[0] == "iter-elem" for g in s_[3] for c in g[2]):
            s_ = ("comp", s_[1], s_[2], tuple(_split_witness_gens(list(s_[3]))))
        if s_[0] == "accum" and len(s_) > 5 and any(c[0] == "iter-elem" for g in s_[4] for c in g[2]):
            s_ = ("accum", s_[1], s_[2], s_[3], tuple(_split_witness_gens(list(s_[4]))), s_[5])
        r = f0(s_)
        return s_ if r is None else r

    def f0(s_: Term):
        if s_[0] == "comp" and len(s_) > 3:
            s0_ = s_
            s_ = ("comp", s_[1], s_[2], tuple(_drop_enumerate(list(s_[3]), s_[2])))
            gens = [(g[0], _keys(g[1]), g[2]) for g in s_[3]]
            elt = s_[2]
            ch = tuple(gens) != tuple(s0_[3])
            for i, (pat, it, conds) in enumerate(gens):
                r = _items_gen(pat, it)
                if r is None:
                    continue
                k, src, m = r
                gens[i] = (k, src, subst(conds, m))
                for j in range(i + 1, len(gens)):
                    gens[j] = (gens[j][0], subst(gens[j][1], m), subst(gens[j][2], m))
                elt = subst(elt, m)
                ch = True
            if ch:
                return ("comp", s_[1], elt, tuple(gens))
        if s_[0] == "accum" and len(s_) > 5:
            s0_ = s_
            s_ = ("accum", s_[1], s_[2], s_[3], tuple(_drop_enumerate(list(s_[4]), s_[3])), s_[5])
            gens = [(g[0], _keys(g[1]), g[2]) for g in s_[4]]
            payload = s_[3]
            ch = tuple(gens) != tuple(s0_[4])
            for i, (pat, it, conds) in enumerate(gens):
                r = _items_gen(pat, it)
                if r is None:
                    continue
                k, src, m = r
                gens[i] = (k, src, subst(conds, m))
                for j in range(i + 1, len(gens)):
                    gens[j] = (gens[j][0], subst(gens[j][1], m), subst(gens[j][2], m))
                payload = subst(payload, m)
                ch = True
            if ch:
                return ("accum", s_[1], s_[2], payload, tuple(gens), s_[5])
        if s_[0] == "forall-not":
            un = _unused_counter(s_[1], s_[2], s_[3])
            if un is not None:
                return f0(("forall-not", un[0], un[1], s_[3])) or ("forall-not", un[0], un[1], s_[3])
            r = _items_gen(s_[1], s_[2])
            if r is not None:
                k, src, m = r
                return ("forall-not", k, src, subst(s_[3], m))
            if _keys(s_[2]) != s_[2]:
                return ("forall-not", s_[1], _keys(s_[2]), s_[3])
        if s_[0] == "iter-elem" and _keys(s_[2]) != s_[2]:
            return ("iter-elem", s_[1], _keys(s_[2]))
        return None

    def f_outer(s_: Term):
        r = f(s_)
        return r
    return mapterm(t, f_outer)


def lam_refs(paths: list, model: Model, mk_ev) -> list:
    """A small pure routine passed as a VALUE (key=..., policy=...) is the function it computes: its reference is replaced by the lambda
    term of its single return path, so that a named key function and the same function written in place compare equal."""
    from dataclasses import replace

    cache: dict = {}

    def lam_of(q: str):
        if q in cache:
            return cache[q]
        cache[q] = None
        r = model.functions.get(q)
        if r is None or r.is_generator or r.cls is not None:
            return None
        a = r.node.args
        params = [x.arg for x in a.posonlyargs + a.args]
        if a.kwonlyargs or a.vararg or a.kwarg or not 1 <= len(params) <= 3:
            return None
        try:
            ev = mk_ev()
            vs = {p_: ("var", f"%lam_{i}") for i, p_ in enumerate(params)}
            ps = [p_ for p_ in ev.run(r, vs) if p_.kind == "return"]
        except Exception:  # noqa: BLE001
            return None
        if len(ps) != 1 or ps[0].conds or has_unknown(ps[0].value):
            return None
        cache[q] = ("lam", tuple(vs[p_] for p_ in params), ps[0].value)
        return cache[q]

    def lam_of_bound(recv, name):
        key = ("bound", recv, name)
        if key in cache:
            return cache[key]
        cache[key] = None
        cands = [m_ for m_ in model.methods_by_name.get(name, []) if not m_.is_generator]
        if len(cands) != 1:
            return None
        r = cands[0]
        a = r.node.args
        params = [x.arg for x in a.posonlyargs + a.args][1:]
        if a.kwonlyargs or a.vararg or a.kwarg or not 1 <= len(params) <= 3:
            return None
        try:
            ev = mk_ev()
            vs = {p_: ("var", f"%lam_{i}") for i, p_ in enumerate(params)}
            ps = [p_ for p_ in ev.run(r, vs, recv) if p_.kind == "return"]
        except Exception:  # noqa: BLE001
            return None
        if len(ps) != 1 or ps[0].conds or has_unknown(ps[0].value):
            return None
        cache[key] = ("lam", tuple(vs[p_] for p_ in params), ps[0].value)
        return cache[key]

    def fn(s_):
        if s_[0] == "ref" and isinstance(s_[1], str):
            return lam_of(s_[1])
        if s_[0] == "bound" and len(s_) == 3 and isinstance(s_[2], str):
            return lam_of_bound(s_[1], s_[2])
        return None

    out = []
    for p in paths:
        out.append(replace(p, conds=tuple(mapterm(c, fn) for c in p.conds), value=mapterm(p.value, fn) if p.kind == "return" else p.value))
    return out


_DELEGATIONS: dict = {}


def delegating_properties(model: Model) -> dict:
    """(field, attribute) -> property name, for every property of the form `return self.<field>.<attribute>` whose <field> is declared only
    by that class and its subclasses: an object that has the field IS of that class, so `x.<field>.<attribute>` and `x.<property>` are the
    same read (e.g. Probability.children is self.distribution.children)."""
    key = id(model)
    if key in _DELEGATIONS:
        return _DELEGATIONS[key]
    import ast as _ast
    out: dict = {}
    owners: dict = {}
    for c in model.classes.values():
        for fld in c.fields:
            owners.setdefault(fld, []).append(c)
    for c in model.classes.values():
        for name, m in c.methods.items():
            if not m.is_property:
                continue
            body = [st for st in m.node.body if not (isinstance(st, _ast.Expr) and isinstance(st.value, _ast.Constant))]
            if len(body) != 1 or not isinstance(body[0], _ast.Return):
                continue
            r = body[0].value
            if isinstance(r, _ast.Attribute) and isinstance(r.value, _ast.Attribute) and isinstance(r.value.value, _ast.Name) and m.params and r.value.value.id == m.params[0]:
                fld, att = r.value.attr, r.attr
                if all(o.is_subclass_of(c) for o in owners.get(fld, [])) and owners.get(fld):
                    if out.get((fld, att), name) != name:
                        out[(fld, att)] = None  # two different properties delegate the same read: leave it alone
                    else:
                        out[(fld, att)] = name
    _DELEGATIONS[key] = {k: v for k, v in out.items() if v}
    return _DELEGATIONS[key]


def contract_delegations(paths: list, model: Model) -> list:
    from dataclasses import replace
    table = delegating_properties(model)
    if not table:
        return paths

    def fn(s_):
        if s_[0] == "attr" and len(s_) == 3 and is_term(s_[1]) and s_[1][0] == "attr" and len(s_[1]) == 3 and (s_[1][2], s_[2]) in table:
            return ("attr", s_[1][1], table[(s_[1][2], s_[2])])
        return None
    return [replace(p, conds=tuple(mapterm(c, fn) for c in p.conds), value=mapterm(p.value, fn) if p.kind == "return" else p.value) for p in paths]


_ITER_PARAMS: dict = {}


def strip_iterable_args(paths: list, model: Model) -> list:
    """An argument bound to a parameter that the callee declares `Iterable[...]` is only ever iterated: `f(tuple(xs))`, `f(list(xs))` and `f(xs)`
    hand it the same items in the same order."""
    from dataclasses import replace

    from .oneshot import OneShot
    key = id(model)
    if key not in _ITER_PARAMS:
        _ITER_PARAMS[key] = (OneShot(model), {})
    eng, cache = _ITER_PARAMS[key]

    def iter_params(q):
        if q not in cache:
            f_ = model.functions.get(q)
            if f_ is None:
                cache[q] = None
            else:
                pos = [p_ for p_ in f_.params if not (f_.cls is not None and not f_.is_staticmethod and p_ == f_.params[0])]
                cache[q] = (pos, set(eng.one_shot_params(f_)))
        return cache[q]

    def bare(a):
        while is_term(a) and a[0] == "call" and a[1] in ("tuple", "list", "iter") and len(a[2]) == 1 and not a[3] and is_term(a[2][0]) \
                and a[2][0][0] in ("call", "comp", "accum", "meth", "var", "attr", "setof", "union", "diff", "inter"):
            a = a[2][0]
        return a

    def fn(s_):
        if s_[0] == "call" and isinstance(s_[1], str) and len(s_) == 4:
            ip = iter_params(s_[1])
            if not ip or not ip[1]:
                return None
            pos, its = ip
            args = tuple(bare(a) if i < len(pos) and pos[i] in its else a for i, a in enumerate(s_[2]))
            kws = tuple((k, bare(v) if k in its else v) for k, v in s_[3])
            if args != s_[2] or kws != s_[3]:
                return ("call", s_[1], args, kws)
        return None
    return [replace(p, conds=tuple(mapterm(c, fn) for c in p.conds), value=mapterm(p.value, fn) if p.kind == "return" else p.value) for p in paths]


def normalise_items(paths: list) -> list:
    """Iteration over d.items() is iteration over the keys with the value read as d[k] (so both spellings of a loop agree)."""
    from dataclasses import replace
    from .setalg import accum_as_comp

    def dict_loops(s_: Term):
        # `for x in S: if c: d[k1] = v1 else: d[k2] = v2` is summarised as two passes with complementary filters: one pass with a conditional key
        if s_[0] == "accum" and len(s_) >= 6 and s_[1] == "effect" and s_[3][0] == "setitem" and len(s_[3]) == 3 and len(s_[4]) == 1 and s_[5] == ("const", False):
            in_ = s_[2]
            if is_term(in_) and in_[0] == "comp" and in_[1] == "dict" and is_term(in_[2]) and in_[2][0] == "kv" and len(in_[3]) == 1:
                # (the inner pass has already been read as a comprehension)
                in_ = ("accum", "effect", ("dictlit", ()), ("setitem", in_[2][1], in_[2][2]), in_[3], ("const", False))
            if is_term(in_) and in_[0] == "accum" and len(in_) >= 6 and in_[1] == "effect" and in_[3][0] == "setitem" and len(in_[3]) == 3 and len(in_[4]) == 1 \
                    and in_[5] == ("const", False):
                (p1, src1, c1), (p2, src2, c2) = in_[4][0], s_[4][0]
                if p1 == p2 and src1 == src2 and c1 and c2 and tuple(c1[:-1]) == tuple(c2[:-1]) and (c2[-1] == ("not", c1[-1]) or c1[-1] == ("not", c2[-1])):
                    c = c1[-1]
                    key = in_[3][1] if in_[3][1] == s_[3][1] else ("ite", c, in_[3][1], s_[3][1])
                    val = in_[3][2] if in_[3][2] == s_[3][2] else ("ite", c, in_[3][2], s_[3][2])
                    merged = ("accum", "effect", in_[2], ("setitem", key, val), ((p1, src1, tuple(c1[:-1])),), ("const", False))
                    return dict_loops(merged) or merged
        # `d = {}; for x in S: d[k(x)] = v(x)` is the dict comprehension with the same generators (same overwriting of equal keys)
        if s_[0] == "accum" and len(s_) >= 6 and s_[1] == "effect" and s_[2] == ("dictlit", ()) and s_[3][0] == "setitem":
            return accum_as_comp(s_)
        # an attribute stored twice in one effect list keeps its last value (every read in between has already been resolved to the value it saw)
        if s_[0] == "mut" and len(s_) == 3 and isinstance(s_[2], tuple):
            base_, effs_ = s_[1], tuple(s_[2])
            while is_term(base_) and base_[0] == "mut" and len(base_) == 3 and isinstance(base_[2], tuple):
                effs_, base_ = tuple(base_[2]) + effs_, base_[1]  # one store after another on the same object is one effect list
            last = {}
            for i_, e_ in enumerate(effs_):
                if isinstance(e_, tuple) and e_ and e_[0] == "setattr" and len(e_) == 3:
                    last[e_[1]] = i_
            kept = tuple(e_ for i_, e_ in enumerate(effs_) if not (isinstance(e_, tuple) and e_ and e_[0] == "setattr" and len(e_) == 3 and last.get(e_[1]) != i_))
            if len(kept) != len(effs_):
                return ("mut", base_, kept)
        return None

    out = []
    for p in paths:
        p = replace(p, conds=tuple(mapterm(c, dict_loops) for c in p.conds), value=mapterm(p.value, dict_loops) if p.kind == "return" else p.value)
        m: dict = {}
        conds = []
        for ci_, c in enumerate(p.conds):
            c = _beta_dict(subst(_norm_items_term(c), m))
            if c[0] == "iter-elem":
                un = _unused_counter(c[1], c[2], (p.conds[ci_ + 1:], p.value if p.kind == "return" else ()))
                if un is not None:
                    c = _beta_dict(subst(_norm_items_term(("iter-elem", un[0], un[1])), m))
                r = _items_gen(c[1], c[2])
                if r is not None:
                    k, src, m2 = r
                    m.update(m2)
                    c = ("iter-elem", k, src)
            conds.append(c)
        v = p.value
        if p.kind == "return":
            v = _beta_dict(subst(_norm_items_term(v), m))
        q = replace(p, conds=tuple(conds), value=v)
        out.append(q)
    return out


def expand_quantifiers(paths: list, ev=None) -> list:
    from dataclasses import replace

    out = []
    for p in paths:
        conds: list = []
        changed = False
        repl: dict = {}
        for c in p.conds:
            if c[0] == "forall-not":
                # ¬∃p (A ∧ ∃x C(x))  =  ¬∃p ∃x (A ∧ C(x)): an any(...) inside the body of a search loop is one more (nested) search
                body: list = []
                ch = False
                for k in c[3]:
                    rk = _quantifier_conds(k, ev)
                    if rk is not None and rk and rk[0][0] == "iter-elem":
                        body.extend(rk)
                        ch = True
                    else:
                        body.append(k)
                if ch:
                    conds.append(c)  # both readings are kept: the atom form meets atoms, the nested form meets witnesses
                    conds.append(("forall-not", c[1], c[2], tuple(body)))
                    changed = True
                    continue
            nx = _next_search(c)
            if nx is not None:
                # `next((x for x in S if c(x)), None)` is the search loop `for x in S: if c(x): <found x>`: "is None" = no element qualifies
                seq, exists, nterms, found = nx
                conds.append(c)
                if exists:
                    conds.extend(seq)
                    for nterm in nterms:
                        repl[nterm] = found
                else:
                    conds.append(("forall-not", seq[0][1], seq[0][2], tuple(seq[1:])))
                changed = True
                continue
            r = _quantifier_conds(c, ev)
            if r is None:
                conds.append(c)
            else:
                # the quantified atom stays (paths that keep it nested inside loop bodies refer to it as an atom); its witness form is added
                conds.append(c)
                conds.extend(r)
                changed = True
        if repl:
            def fn(s_, _r=repl):
                return _r.get(s_)
            p = replace(p, value=mapterm(p.value, fn) if p.kind == "return" and is_term(p.value) else p.value)
            conds = [c if _next_search(c) is not None else mapterm(c, fn) for c in conds]
        out.append(replace(p, conds=tuple(conds)) if changed else p)
    return out


_BOOL_HEADS = ("not", "and", "or")


def split_boolean_data(paths: list, ev=None) -> list:
    """`separated = not has_path(..); return Record(separated=separated)` and `if has_path(..): return Record(separated=False) ...` are the
    same function: a boolean expression stored as DATA (a record field, an argument) is turned into a case distinction of the path -- the
    field is then the constant True / False on either side."""
    from dataclasses import replace

    def find(t: Any, depth: int = 0):
        if not isinstance(t, tuple) or depth > 8:
            return None
        if is_term(t):
            h = t[0]
            if h in ("comp", "lam", "accum", "any", "all", "forall-not", "iter-elem", "after-iteration", "ite", "bigunion"):
                return None
            if h == "rec":
                for _k, v in t[2]:
                    if is_term(v) and v[0] in _BOOL_HEADS:
                        return v
                    r = find(v, depth + 1)
                    if r is not None:
                        return r
                return None
            if h in ("call", "meth", "new", "recurse"):
                args = (t[2], t[3]) if h != "meth" else (t[3], t[4])
                for v in args[0]:
                    if is_term(v) and v[0] in _BOOL_HEADS:
                        return v
                    r = find(v, depth + 1)
                    if r is not None:
                        return r
                for _k, v in args[1]:
                    if is_term(v) and v[0] in _BOOL_HEADS:
                        return v
                    r = find(v, depth + 1)
                    if r is not None:
                        return r
                if h == "meth":
                    return find(t[1], depth + 1)
                return None
            return None
        return None

    out = []
    work = list(paths)
    budget = 64
    while work:
        p = work.pop(0)
        b = find(p.value) if p.kind == "return" and budget > 0 else None
        if b is None:
            out.append(p)
            continue
        budget -= 1
        neg = b[1] if b[0] == "not" else ("not", b)

        def sub(val, _b=b):
            def fn(s_):
                return val if s_ == _b else None
            return fn
        work.insert(0, replace(p, conds=tuple(p.conds) + (neg,), value=mapterm(p.value, sub(("const", False)))))
        work.insert(0, replace(p, conds=tuple(p.conds) + (b,), value=mapterm(p.value, sub(("const", True)))))
    return out


def _next_search(c: Term):
    neg = False
    while c[0] == "not":
        neg = not neg
        c = c[1]
    sentinel_next = None
    for x_, y_ in (((c[1], c[2]), (c[2], c[1])) if (c[0] in ("is", "eq") and len(c) == 3) else ()):
        if is_term(x_) and is_term(y_) and x_[0] == "call" and x_[1] == "next" and len(x_[2]) == 2 and x_[2][1] == y_ and y_[0] == "global" and not x_[3]:
            # `next(search, SENTINEL) is SENTINEL` with a module-level sentinel object: nothing was found
            sentinel_next = x_
            c = ("isnone", ("call", "next", (x_[2][0], ("const", None)), ()))
            break
    if c[0] in ("truth", "nonempty") and is_term(c[1]) and c[1][0] == "accum" and c[1][1] == "concat" and c[1][2] == ("listlit", ()) and len(c[1]) > 5 \
            and c[1][3][0] == "listlit" and len(c[1][3][1]) == 1 and c[1][4]:
        # a list that receives the hit(s) of a search loop (`hits.append(x); break`), tested for emptiness and read at [0]
        gens_ = tuple((p_, (it_[1] if it_[0] == "firsthit" else it_), cs_) for p_, it_, cs_ in c[1][4])
        orig = c[1]
        c = (c[0], ("comp", "list", c[1][3][1][0], gens_))
        extra_nterms = [("index", orig, ("const", 0))]
    else:
        extra_nterms = []
    if c[0] in ("truth", "nonempty") and is_term(c[1]) and c[1][0] == "comp" and c[1][1] == "list" and c[1][3] \
            and not (isinstance(c[1][2], tuple) and c[1][2] and c[1][2][0] == "%payload"):
        # `hits = [x for x in S if c(x)]`, tested for emptiness and then read at [0]: the same search, its first hit
        g = c[1]
        neg = not neg  # `nonempty` is the positive reading: flip so that `neg` means "a hit exists" as for `is None` below
        nterms = [("index", g, ("const", 0)), ("call", "next", (("call", "iter", (g,), ()),), ())] + extra_nterms
    elif c[0] != "isnone" or not is_term(c[1]) or c[1][0] != "call" or c[1][1] != "next" or len(c[1][2]) != 2 or c[1][2][1] != ("const", None) or c[1][3]:
        return None
    else:
        g = c[1][2][0]
        nterms = [c[1]]
        while g[0] == "call" and g[1] == "iter" and len(g[2]) == 1:
            g = g[2][0]
        if g[0] != "comp" or g[1] not in ("gen", "list") or not g[3] or (isinstance(g[2], tuple) and g[2] and g[2][0] == "%payload"):
            return None
    seq: list = []
    for pat, it, cs in g[3]:
        seq.append(("iter-elem", pat, it))
        seq.extend(cs)
    fresh = {v: ("var", str(v[1]) + "'") for gg in g[3] for v in _pat_vars(gg[0])}
    seq = [subst(x, fresh) for x in seq]
    if sentinel_next is not None:
        nterms = list(nterms) + [sentinel_next]
    return seq, neg, nterms, subst(g[2], fresh)


STRUCTURAL_HEADS = {"comp", "accum", "ite", "cases", "tuplelit", "listlit", "setlit", "dictlit", "bigunion", "concat", "mut", "after-iteration",
                    "kv", "orelse", "setof", "copyof"}
STRUCTURAL_CALLS = {"list", "tuple", "sorted", "set", "frozenset", "dict", "iter", "reversed", "chain", "from_iterable"}


def _structural(t: Any) -> bool:
    """Is the head of this (canonical) term a container / control idiom rather than an operand (variable, attribute, graph or DSL primitive,
    set-algebra normal form)?"""
    if not isinstance(t, tuple):
        return False  # a name / number / string: an operand
    if not t or not isinstance(t[0], str):
        return True
    h = t[0]
    if h == "accum" and len(t) > 5 and t[5] == ("const", True):
        # an accumulation loop that can stop early leaves elements out: that is a difference in WHAT is collected, not in how it is written
        return False
    if h in STRUCTURAL_HEADS:
        return True
    if h == "call" and isinstance(t[1], str) and t[1].split(".")[-1] in STRUCTURAL_CALLS:
        return True
    return False


IDIOM_CALLS = {"range", "len", "zip", "repeat", "enumerate", "next", "iter", "islice", "takewhile", "dropwhile", "combinations", "permutations",
               "product", "chain", "from_iterable", "combinations_with_replacement",
               "accumulate", "starmap", "partial", "reduce", "cycle", "count", "tee", "zip_longest", "compress", "pairwise", "deque",
               "sum", "min", "max"}


AGGREGATES = {"len", "sum", "min", "max", "count"}


def _idiom_marks(t: Any, aggregates: bool = False) -> frozenset:
    """The control / container idioms a term is spelt with (positional access by a computed index, range / zip / next / iter ..., star
    arguments, unresolved function values, loop summaries).  Two differing sub-terms spelt with DIFFERENT idioms are first of all two
    different ways of writing something -- which the normaliser did not relate --, not two different operands."""
    marks = set()
    for s_ in subterms_of(t):
        h = s_[0]
        if h == "index" and len(s_) == 3 and is_term(s_[2]) and s_[2][0] != "const":
            marks.add("index[computed]")
        elif h == "call" and isinstance(s_[1], str) and s_[1].split(".")[-1] in IDIOM_CALLS and (aggregates or s_[1].split(".")[-1] not in AGGREGATES):
            marks.add(s_[1].split(".")[-1])
        elif h in ("star", "firsthit", "apply", "localdef", "global"):
            marks.add(h)
        elif aggregates and h in ("after-iteration", "accum", "mut", "slice", "lam", "unknown"):
            marks.add(h)
    return frozenset(marks)


def _atoms_table(t: Any):
    """(atoms, table) of a canonical SET / COND node, else None."""
    if isinstance(t, tuple) and len(t) == 3 and t[0] == "SET" and isinstance(t[1], tuple) and isinstance(t[2], tuple):
        return t[1], t[2]
    if isinstance(t, tuple) and len(t) == 2 and t[0] == "COND" and isinstance(t[1], tuple) and len(t[1]) == 2:
        return t[1][0], t[1][1]
    return None


def all_differences(a: Any, b: Any, out: list | None = None, depth: int = 0) -> list:
    """All minimal pairs of differing sub-terms: descend wherever head and arity agree.  Truth-table nodes (SET / COND) are compared atom list
    against atom list: atoms only one side has are paired by head and descended into (that is where a different operand shows), the tables
    themselves are never reported when the atoms differ (their difference is a consequence)."""
    if out is None:
        out = []
    if a == b or len(out) > 40:
        return out
    ta, tb = _atoms_table(a), _atoms_table(b)
    if ta is not None and tb is not None and depth < 80:
        if ta[0] == tb[0]:
            out.append((a, b))  # same atoms, different table: a different boolean combination of the same operands
            return out
        xs = [x for x in ta[0] if x not in tb[0]]
        ys = [y for y in tb[0] if y not in ta[0]]
        n0 = len(out)
        used = set()
        for x in xs:
            for j, y in enumerate(ys):
                if j not in used and isinstance(x, tuple) and isinstance(y, tuple) and x and y and x[0] == y[0] and len(x) == len(y):
                    used.add(j)
                    all_differences(x, y, out, depth + 1)
                    break
        if len(out) == n0:
            out.append((a, b))
        return out
    if isinstance(a, tuple) and isinstance(b, tuple) and len(a) == len(b) and depth < 80 and (
            (is_term(a) and is_term(b) and a[0] == b[0]) or (not is_term(a) and not is_term(b))):
        for x, y in zip(a, b):
            if x != y:
                all_differences(x, y, out, depth + 1)
        return out
    out.append((a, b))
    return out


def _nonempty_axioms(e: Term, formulas, sa: SetAlg) -> list:
    """an element of S witnesses that S is not empty: (e ∈ S) -> nonempty(S), for the membership atoms of the compared collections"""
    from .setalg import atoms_of, f_or

    out = []
    seen = set()
    for fm in formulas:
        for a in atoms_of(fm):
            if isinstance(a, tuple) and a and a[0] == "in" and a[1] == e and a not in seen:
                seen.add(a)
                out.append(norm_formula(f_or(f_not(("atom", a)), sa.cond(("truth", a[2])))))
    return out


TRUE_F = f_and()


def _elem_instances(foralls, e: Term, sa: SetAlg) -> list:
    """`no element of S satisfies c` (a path that did not leave a loop / comprehension by its raise or return), instantiated at the element
    whose membership is being compared:  e in S  implies  not c[e]."""
    out = []
    for fa in foralls:
        _, pat, it, conds = fa
        if any(c[0] == "iter-elem" for c in conds):
            continue
        if pat[0] == "var":
            sub = {pat: e}
        elif pat[0] == "tuplelit" and all(x[0] == "var" for x in pat[1]):
            sub = {x: ("proj", e, i) for i, x in enumerate(pat[1])}
        else:
            continue
        try:
            body = [sa.cond(sa.rewrite(subst(c, sub))) for c in conds]
            out.append(norm_formula(f_not(f_and(sa.member(e, sa.rewrite(it)), *body))))
        except Exception:  # noqa: BLE001
            continue
    return out


def drop_implied_filters(t: Any, foralls: tuple, sa: SetAlg) -> Any:
    """A loop that also has an exit path (a raise / return for some elements) carries, on its normal path, the fact that NO element took the
    exit; its per-iteration filters repeat that fact (`if not bad(x)`), the comprehension spelling does not.  Filters of a generator over S
    that are implied by a universal fact about S on this path are dropped (they are true for every element)."""
    if not foralls or not isinstance(t, tuple):
        return t
    facts = []
    for fa in foralls:
        _, fp, fit, fconds = fa
        if any(c[0] == "iter-elem" for c in fconds):
            continue
        facts.append((fp, alpha_normalise(sa.canon(sa.rewrite(fit))), fconds))
    if not facts:
        return t

    def gens_fix(gens):
        out = []
        changed = False
        for pat, it, conds in gens:
            if not conds:
                out.append((pat, it, conds))
                continue
            try:
                key = alpha_normalise(sa.canon(sa.rewrite(it)))
            except Exception:  # noqa: BLE001
                out.append((pat, it, conds))
                continue
            inst = []
            for fp, fkey, fconds in facts:
                pv, wv = _pat_vars(fp), _pat_vars(pat)
                if fkey != key or len(pv) != len(wv) or fp[0] != pat[0]:
                    continue
                sub = dict(zip(pv, wv))
                try:
                    inst.append(norm_formula(f_not(f_and(*[sa.cond(sa.rewrite(subst(c, sub))) for c in fconds]))))
                except Exception:  # noqa: BLE001
                    pass
            if not inst:
                out.append((pat, it, conds))
                continue
            kept = []
            for c in conds:
                parts = list(c[1:]) if c[0] == "and" else [c]
                kp = []
                for q in parts:
                    try:
                        implied = satisfy(f_and(*inst, *class_axioms(f_and(*inst, norm_formula(sa.cond(sa.rewrite(q))))), f_not(norm_formula(sa.cond(sa.rewrite(q)))))) is None
                    except Exception:  # noqa: BLE001
                        implied = False
                    if not implied:
                        kp.append(q)
                if len(kp) != len(parts):
                    changed = True
                if kp:
                    kept.append(kp[0] if len(kp) == 1 else ("and",) + tuple(kp))
            out.append((pat, it, tuple(kept)))
        return tuple(out), changed

    def fn(s_):
        if s_[0] == "comp" and len(s_) > 3 and s_[3]:
            r = gens_fix(s_[3])
            if isinstance(r, tuple) and len(r) == 2 and r[1]:
                return ("comp", s_[1], s_[2], r[0])
        if s_[0] == "accum" and len(s_) > 5 and s_[4]:
            r = gens_fix(s_[4])
            if isinstance(r, tuple) and len(r) == 2 and r[1]:
                return s_[:4] + (r[0],) + s_[5:]
        return None

    def walk(v):
        if not isinstance(v, tuple):
            return v
        if is_term(v):
            return mapterm(v, fn)
        return tuple(walk(x) for x in v)
    return walk(t)


def simplify_under_guard(t: Any, guard, sa: SetAlg) -> Any:
    """On the inputs of THIS pair of paths (the joint guard) a loop-invariant filter of a comprehension is either true -- dropped -- or false --
    the comprehension is empty; `A | {}` is A; a conditional whose test the guard decides is the chosen branch.  (A loop with `if c: ... else: ...`
    on an invariant c is read by the evaluator as two filtered comprehensions; under the guard only one of them is there.)"""
    if not isinstance(t, tuple):
        return t
    from .terms import mapterm

    def decided(c):
        try:
            F = norm_formula(sa.cond(c))
            if satisfy(f_and(guard, f_not(F))) is None:
                return True
            if satisfy(f_and(guard, F)) is None:
                return False
        except Exception:  # noqa: BLE001
            return None
        return None

    def empty_of(kind):
        return {"dict": ("dictlit", ()), "set": ("setlit", ()), "list": ("listlit", ()), "gen": ("listlit", ())}.get(kind)

    def is_empty(x):
        return is_term(x) and x in (("dictlit", ()), ("setlit", ()), ("listlit", ()), ("tuplelit", ()), ("empty",))

    def f(s_):
        if s_[0] == "comp" and len(s_) == 4 and s_[1] in ("dict", "set", "list", "gen") and isinstance(s_[3], tuple):
            bound = set()
            for g_ in s_[3]:
                bound |= {v for v in subterms(g_[0]) if v[0] == "var"}
            new_gens, changed = [], False
            for pat, it, conds in s_[3]:
                kept = []
                for c in conds:
                    if any(v in bound for v in subterms(c) if v[0] == "var"):
                        kept.append(c)
                        continue
                    d_ = decided(c)
                    if d_ is True:
                        changed = True
                        continue
                    if d_ is False:
                        e_ = empty_of(s_[1])
                        if e_ is not None:
                            return e_
                    kept.append(c)
                new_gens.append((pat, it, tuple(kept)))
            if changed:
                return (s_[0], s_[1], s_[2], tuple(new_gens))
            return None
        if s_[0] == "accum" and len(s_) == 6 and isinstance(s_[4], tuple):
            bound = set()
            for g_ in s_[4]:
                bound |= {v for v in subterms(g_[0]) if v[0] == "var"}
            new_gens, changed = [], False
            for pat, it, conds in s_[4]:
                kept = []
                for c in conds:
                    if any(v in bound for v in subterms(c) if v[0] == "var"):
                        kept.append(c)
                        continue
                    d_ = decided(c)
                    if d_ is True:
                        changed = True
                        continue
                    if d_ is False:
                        return s_[2]  # no iteration gets past this test: the accumulator is left as it was
                    kept.append(c)
                new_gens.append((pat, it, tuple(kept)))
            if changed:
                return (s_[0], s_[1], s_[2], s_[3], tuple(new_gens), s_[5])
            return None
        if s_[0] == "call" and s_[1] in ("sorted", "tuple", "list") and len(s_[2]) == 1 and is_term(s_[2][0]) and s_[2][0][0] in ("attr", "var") \
                and all(k_ in ("key", "reverse") for k_, _v in (s_[3] or ())):
            # the copy / sorted copy of a collection the guard knows to be empty is the empty sequence
            if decided(("truth", s_[2][0])) is False:
                return ("tuplelit", ()) if s_[1] == "tuple" else ("listlit", ())
        if s_[0] == "op" and len(s_) == 4 and s_[1] == "|":
            if is_empty(s_[3]):
                return s_[2]
            if is_empty(s_[2]):
                return s_[3]
        if s_[0] in ("union", "concat") and len(s_) >= 3:
            rest = [x for x in s_[1:] if not is_empty(x)]
            if len(rest) < len(s_) - 1:
                if not rest:
                    return s_[1]
                return rest[0] if len(rest) == 1 else (s_[0],) + tuple(rest)
        if s_[0] == "ite" and len(s_) == 4:
            d_ = decided(s_[1])
            if d_ is True:
                return s_[2]
            if d_ is False:
                return s_[3]
        return None
    try:
        return mapterm(t, f)
    except Exception:  # noqa: BLE001
        return t


def _factor_args(t: Any) -> list:
    """the collections handed to Product.safe / Product(...) inside a term, in order"""
    out = []
    for s_ in subterms_of(t):
        if s_[0] == "call" and isinstance(s_[1], str) and s_[1].endswith("Product.safe") and len(s_) == 4:
            a_ = dict(s_[3]).get("expressions", s_[2][0] if s_[2] else None)
            if a_ is not None:
                out.append(a_)
        elif s_[0] in ("rec", "new") and isinstance(s_[1], str) and s_[1].endswith(".Product"):
            f_ = dict(s_[2]) if s_[0] == "rec" else dict(s_[3])
            if f_.get("expressions") is not None:
                out.append(f_["expressions"])
    return out


def _is_set_valued(t: Term) -> bool:
    while is_term(t) and t[0] == "call" and t[1] in ("tuple", "list", "sorted", "iter") and len(t[2]) == 1:
        t = t[2][0]
    return is_term(t) and (t[0] in ("setof", "setlit", "union", "inter", "diff") or (t[0] == "comp" and t[1] == "set")
                           or (t[0] == "call" and t[1] in ("set", "frozenset")))


def multiplicity_mismatch(x: Any, y: Any) -> str | None:
    """The factors of a product are a MULTISET.  Collections are otherwise compared by their elements, which cannot tell `{f(e) for e in E}` from
    `[f(e) for e in E]`; handed to Product.safe the first one loses every repeated factor (x·x becomes x)."""
    ax, ay = _factor_args(x), _factor_args(y)
    if len(ax) != len(ay):
        return None
    for a_, b_ in zip(ax, ay):
        if _is_set_valued(a_) != _is_set_valued(b_):
            side = "implementation" if _is_set_valued(a_) else "definition"
            return (f"the {side} collects the factors of a product in a SET ({show(a_ if _is_set_valued(a_) else b_)[:120]}): equal factors collapse, "
                    f"x·x becomes x")
    return None


def keyed_collapse(x: Any, y: Any, model: Model | None) -> str | None:
    """The implementation routes a collection through a dict keyed by ONE attribute of each element and reads `.values()` back, where the
    definition keeps every element: two elements that agree on that attribute collapse into one.  Reported only when the key is a proper projection
    (`e.f` for an element class that compares more than `f`), so that colliding elements exist by the class's own definition."""
    def dict_values(t):
        for s_ in subterms_of(t):
            if s_[0] == "meth" and s_[2] == "values" and not s_[3] and not s_[4]:
                yield s_[1]

    def has_dictish(t):
        return any(s_[0] == "dictlit" or (s_[0] == "comp" and s_[1] == "dict") or (s_[0] == "meth" and s_[2] in ("values", "items", "keys")) for s_ in subterms_of(t))

    if has_dictish(y):
        return None
    for d_ in dict_values(x):
        keys = []
        for s_ in subterms_of(d_):
            if s_[0] == "accum" and s_[1] == "effect" and is_term(s_[3]) and s_[3][0] == "setitem" and len(s_[3]) == 3 and len(s_[4]) >= 1:
                keys.append((s_[3][1], s_[4][0][0]))
            if s_[0] == "comp" and s_[1] == "dict" and is_term(s_[2]) and s_[2][0] == "kv" and len(s_[3]) >= 1:
                keys.append((s_[2][1], s_[3][0][0]))
        for k_, bound in keys:
            if k_[0] == "attr" and k_[1] == bound and isinstance(k_[2], str):
                fld = k_[2]
                wider = None
                if model is not None:
                    owners = [c for c in model.classes.values() if fld in c.all_fields() and c.is_dataclass and len(c.all_fields()) > 1]
                    wider = owners[0] if owners else None
                if wider is not None:
                    others = [f_ for f_ in wider.all_fields() if f_ != fld]
                    return (f"the elements are collected in a dict keyed by `.{fld}` and read back with .values(): two elements with the same {fld} "
                            f"(they may still differ in {', '.join(others[:2])}) collapse into one, the definition keeps both")
    return None


def guarded_equal(x: Any, y: Any, guard, sa: SetAlg, depth: int = 0, foralls: tuple = ()) -> bool:
    """Are the two (raw) values equal on every input that satisfies the joint guard?  Set-valued operands are compared by membership
    under the guard (a part that is empty on these inputs does not count); everything else must have the same canonical form."""
    if x == y:
        return True
    if not isinstance(x, tuple) or not isinstance(y, tuple) or depth > 40:
        return False
    if depth == 0 and is_term(x) and is_term(y):
        x2, y2 = simplify_under_guard(x, guard, sa), simplify_under_guard(y, guard, sa)
        if (x2 != x or y2 != y) and guarded_equal(x2, y2, guard, sa, 1, foralls):
            return True
    if is_term(x) and is_term(y):
        if sa.canon_top(x) == sa.canon_top(y):
            return True
        xs, ys = sa.strip(x), sa.strip(y)
        cx, cy = sa.canon_top(x), sa.canon_top(y)
        if is_term(cx) and is_term(cy) and cx[0] == cy[0] == "comp" and cx[1] == cy[1] and cx[2] == cy[2] and len(cx[3]) == len(cy[3]) \
                and all(g[0] == h[0] and g[1] == h[1] for g, h in zip(cx[3], cy[3])):
            # the same elements drawn from the same collections: the two differ in their filters only -- compared as formulas about one
            # arbitrary element of the collection (the universal facts of the guard instantiated at it)
            prem, fx, fy, inst = [], [], [], []
            try:
                for (pat, it, c1), (_p, _i, c2) in zip(cx[3], cy[3]):
                    prem.append(norm_formula(sa.member(pat, it)) if pat[0] == "var" else TRUE_F)
                    fx.extend(norm_formula(sa.cond(c)) for c in c1)
                    fy.extend(norm_formula(sa.cond(c)) for c in c2)
                    for fa in foralls:
                        _, fp, fit, fconds = fa
                        if any(c[0] == "iter-elem" for c in fconds) or alpha_normalise(sa.canon(sa.rewrite(fit))) != alpha_normalise(sa.canon(it)):
                            continue
                        pv, wv = _pat_vars(fp), _pat_vars(pat)
                        if len(pv) != len(wv) or fp[0] != pat[0]:
                            continue
                        sub = dict(zip(pv, wv))
                        inst.append(norm_formula(f_not(f_and(*[sa.cond(sa.rewrite(subst(c, sub))) for c in fconds]))))
                F1, F2 = f_and(*fx), f_and(*fy)
                base = f_and(guard, *prem, *inst)
                base = f_and(base, *class_axioms(f_and(base, F1, F2)))
                if satisfy(f_and(base, F1, f_not(F2))) is None and satisfy(f_and(base, F2, f_not(F1))) is None:
                    return True
            except TooManyAtoms:
                pass

        def setlike(t):
            return sa.is_setexpr(t) or t[0] == "bigunion" or (t[0] == "accum" and t[1] == "union")

        def listy(t):
            return (t[0] == "comp" and t[1] in ("list", "gen")) or (t[0] == "accum" and t[1] == "concat") or t[0] == "concat" or (
                t[0] == "call" and isinstance(t[1], str) and t[1].split(".")[-1] == "chain")

        def loop_built(t):
            return t[0] == "accum" and t[1] == "concat"

        if (listy(xs) and listy(ys) and (loop_built(xs) or loop_built(ys))) or (setlike(xs) and listy(ys)) or (listy(xs) and setlike(ys)):
            # a list filled by a loop is read by its elements (the evaluator's abstraction of such loops): compare the other side the same way
            e = ("var", "§elem")
            mx, my = sa.member(e, xs), sa.member(e, ys)
            ax = _nonempty_axioms(e, (mx, my), sa) + _elem_instances(foralls, e, sa)
            try:
                if (satisfy(f_and(guard, norm_formula(mx), f_not(norm_formula(my)), *ax)) is None
                        and satisfy(f_and(guard, norm_formula(my), f_not(norm_formula(mx)), *ax)) is None):
                    return True
            except TooManyAtoms:
                pass
        elif setlike(xs) and setlike(ys):
            e = ("var", "§elem")
            mx, my = sa.member(e, xs), sa.member(e, ys)
            ax = _nonempty_axioms(e, (mx, my), sa) + _elem_instances(foralls, e, sa)
            try:
                if (satisfy(f_and(guard, norm_formula(mx), f_not(norm_formula(my)), *ax)) is None
                        and satisfy(f_and(guard, norm_formula(my), f_not(norm_formula(mx)), *ax)) is None):
                    return True
            except TooManyAtoms:
                pass
        # the only element of a one-element list: L[0], L[-1], L.pop() (on a list nobody else reads) are the same
        def only(t_):
            if t_[0] == "index" and len(t_) == 3 and t_[2] in (("const", 0), ("const", -1)):
                return t_[1]
            if t_[0] == "meth" and t_[2] == "pop" and not t_[3] and not t_[4]:
                return t_[1]
            if t_[0] == "call" and t_[1] == "next" and len(t_[2]) == 1 and t_[2][0][0] == "call" and t_[2][0][1] == "iter" and len(t_[2][0][2]) == 1:
                return t_[2][0][2][0]
            return None
        ox, oy = only(x), only(y)
        if ox is not None and oy is not None and (sa.canon_top(ox) == sa.canon_top(oy) or guarded_equal(ox, oy, guard, sa, depth + 1, foralls)):
            try:
                one = norm_formula(sa.cond(("eq", ("len", ox), ("const", 1))))
                if x[0] == y[0] and x[-1] == y[-1] and x[0] != "index":
                    return True
                if satisfy(f_and(guard, f_not(one))) is None:
                    return True
            except Exception:  # noqa: BLE001
                pass
        # not equal as a whole: the same construction with pairwise equal parts is still equal
        if x[0] != y[0] or len(x) != len(y):
            return False
        return all(guarded_equal(u, v, guard, sa, depth + 1, foralls) for u, v in zip(x[1:], y[1:]))
    if is_term(x) or is_term(y) or len(x) != len(y):
        return False
    return all(guarded_equal(u, v, guard, sa, depth + 1, foralls) for u, v in zip(x, y))


class Outcome:
    def __init__(self, path: Path, sa: SetAlg, post: Callable[[Term], Term] | None):
        self.path = path
        self.kind = path.kind
        ren = _witness_renaming(path.conds)
        self.conds = tuple(sa.rewrite(post(subst(c, ren)) if post is not None else subst(c, ren)) for c in path.conds)
        self.guard = norm_formula(f_and(*[sa.cond(c) for c in self.conds]))
        if path.kind == "raise":
            self.value: Any = exc_class(path)
        else:
            v = subst(path.value, ren)
            if post is not None:
                v = post(v)
            self.raw = v
            self.value = sa.canon_top(v)
        self.unknown = has_unknown(path.value) or any(has_unknown(c) for c in path.conds)


_MODEL: list = [None]


def class_axioms(f) -> list:
    """Closed-world facts about the repository's classes for the isinstance atoms of a guard: a subclass instance is an instance of its base;
    two classes without a common subclass in the repository have no common instance."""
    from .setalg import atoms_of, f_or

    model = _MODEL[0]
    if model is None:
        return []
    by_subject: dict = {}
    for a in atoms_of(f):
        if isinstance(a, tuple) and a and a[0] == "isinstance" and isinstance(a[2], tuple) and len(a[2]) == 1 and isinstance(a[2][0], str):
            by_subject.setdefault(a[1], []).append(a)
    out = []
    for _subj, atoms in by_subject.items():
        for i, x in enumerate(atoms):
            cx = model.classes.get(x[2][0])
            if cx is None:
                continue
            for y in atoms[i + 1:]:
                cy = model.classes.get(y[2][0])
                if cy is None or cy is cx:
                    continue
                if cx.is_subclass_of(cy):
                    out.append(f_or(f_not(("atom", x)), ("atom", y)))
                elif cy.is_subclass_of(cx):
                    out.append(f_or(f_not(("atom", y)), ("atom", x)))
                else:
                    subs_x = {c.qname for c in cx.all_subclasses()}
                    subs_y = {c.qname for c in cy.all_subclasses()}
                    if not (subs_x & subs_y):
                        out.append(f_not(f_and(("atom", x), ("atom", y))))
    return out


def joint_guard(a: "Outcome", b: "Outcome", sa: SetAlg):
    conds = list(a.conds) + list(b.conds)
    wit = [(c[1], c[2]) for c in conds if c[0] == "iter-elem"]
    ax = []
    if wit:
        for c in conds:
            if c[0] == "forall-not":
                ax.extend(_instantiate(c, wit, sa))
    g = f_and(a.guard, b.guard, *[norm_formula(x) for x in ax])
    if wit:
        wax = _witness_nonempty_axioms(g, wit, sa)
        if wax:
            g = f_and(g, *wax)
    lax = _length_axioms(g)
    if lax:
        g = f_and(g, *lax)
    pax = _post_init_invariants(conds, sa)
    if pax:
        g = f_and(g, *pax)
    cax = class_axioms(g)
    return f_and(g, *cax) if cax else g


_POST_INIT: dict = {}


def _post_init_invariants(conds: list, sa: SetAlg) -> list:
    """An object of a class EXISTS only if its `__post_init__` did not raise: for a term the guard knows to be an instance of K, the conditions under
    which K.__post_init__ (or a base's) raises are false.  (Only straight-line raise conditions over the object's own fields are used.)"""
    from .setalg import f_or

    model = _MODEL[0]
    if model is None:
        return []

    def parts(c):
        if c[0] == "and":
            for x in c[1:]:
                yield from parts(x)
        else:
            yield c
    out = []
    seen = set()
    for c0 in conds:
        for c in parts(c0):
            if not (c[0] == "isinstance" and len(c) == 3 and isinstance(c[2], tuple) and len(c[2]) == 1 and isinstance(c[2][0], str)):
                continue
            K = model.classes.get(c[2][0])
            if K is None or (c[1], K.qname) in seen:
                continue
            seen.add((c[1], K.qname))
            if K.qname not in _POST_INIT.setdefault(id(model), {}):
                raises = []
                try:
                    m = K.find_method("__post_init__")
                    if m is not None:
                        from .symeval import Evaluator
                        ev = Evaluator(model)
                        slf = ("var", "self")
                        ev.set_type(slf, ("cls", K.qname))
                        for p in ev.run(m, {}, slf):
                            if p.kind == "raise" and p.conds and not any(x[0] in ("iter-elem", "forall-not") or has_unknown(x) for x in p.conds):
                                raises.append(tuple(p.conds))
                except Exception:  # noqa: BLE001
                    raises = []
                _POST_INIT[id(model)][K.qname] = raises
            for rc in _POST_INIT[id(model)][K.qname]:
                try:
                    inst = [norm_formula(sa.cond(subst(x, {("var", "self"): c[1]}))) for x in rc]
                    out.append(f_or(f_not(norm_formula(sa.cond(c))), f_not(f_and(*inst))))
                except Exception:  # noqa: BLE001
                    pass
    return out


def _length_axioms(g) -> list:
    """len(X) == len(Y): both empty -> equal; exactly one empty -> different (X, Y collections the guard also tests for emptiness)."""
    from .setalg import atoms_of, f_or

    ats = list(atoms_of(g))
    out = []
    for at in ats:
        if isinstance(at, tuple) and len(at) == 3 and at[0] in ("eq", "ne") and is_term(at[1]) and is_term(at[2]) and at[1][0] == "len" and at[2][0] == "len":
            X, Y = at[1][1], at[2][1]

            def ne_atom(S):
                for b_ in ats:
                    if isinstance(b_, tuple) and len(b_) == 2 and b_[0] in ("truth", "nonempty") and b_[1] == S:
                        return ("atom", b_)
                return ("atom", ("truth", S))
            nx_, ny_ = ne_atom(X), ne_atom(Y)
            same = ("atom", at) if at[0] == "eq" else f_not(("atom", at))
            out.append(f_or(nx_, ny_, same))                       # both empty: same length
            out.append(f_or(f_not(nx_), ny_, f_not(same)))         # only X has elements: different lengths
            out.append(f_or(nx_, f_not(ny_), f_not(same)))         # only Y has elements
    return out


def _witness_nonempty_axioms(g, wit: list, sa: SetAlg) -> list:
    """A witness w of a search loop is an element: whenever w satisfies the defining condition of a set S = {x | phi(x)} that the guard talks
    about through `nonempty(S)`, S is not empty:  phi(w) -> nonempty(S).  (S is given by its canonical truth table over membership atoms.)"""
    from .setalg import atoms_of, f_or

    ws: list = []
    for pat, _src in wit:
        for v in _pat_vars(pat):
            if v not in ws:
                ws.append(v)
    out = []
    seen = set()
    all_atoms = list(atoms_of(g))
    # plain collections: (e in T) -> nonempty(T) for every membership atom and every emptiness atom about the same term T
    for at in all_atoms:
        if isinstance(at, tuple) and len(at) == 2 and at[0] in ("nonempty", "truth") and isinstance(at[1], tuple) and at[1] and at[1][0] != "SET":
            for m_ in all_atoms:
                if isinstance(m_, tuple) and len(m_) == 3 and m_[0] == "in" and m_[2] == at[1]:
                    out.append(norm_formula(f_or(f_not(("atom", m_)), ("atom", at))))
    for at in all_atoms:
        if not (isinstance(at, tuple) and len(at) == 2 and at[0] in ("nonempty", "truth") and isinstance(at[1], tuple) and len(at[1]) == 3 and at[1][0] == "SET"):
            continue
        _h, ats, tb = at[1]
        bound = sorted({v for a_ in ats for v in subterms_of(a_) if v[0] == "var" and isinstance(v[1], str) and v[1].startswith("%") and v[1][1:].isdigit()}, key=repr)
        if len(bound) != 1 or len(tb) != 1 << len(ats):
            continue
        x = bound[0]
        for w in ws[:6]:
            key = (at, w)
            if key in seen:
                continue
            seen.add(key)
            try:
                fs = [norm_formula(sa.cond(subst(a_, {x: w}))) for a_ in ats]
            except Exception:  # noqa: BLE001
                continue
            import itertools as _it
            rows = []
            for k, bits in enumerate(_it.product([False, True], repeat=len(fs))):
                if tb[k]:
                    rows.append(f_and(*[(f if b_ else f_not(f)) for f, b_ in zip(fs, bits)]))
            if not rows:
                continue
            phi = f_or(*rows)
            out.append(norm_formula(f_or(f_not(phi), ("atom", at))))
    return out


def evaluate(model: Model, qname: str, mk_ev: Callable[[], Evaluator], types: dict[str, Any], self_type: Any = None, func: Func | None = None,
             recurse_as=(), self_term: Term | None = None, rename: dict | None = None):
    f = func if func is not None else model.func(qname)
    ev = mk_ev()
    ev.recurse_as = set(recurse_as)
    args = {}
    if rename:
        for own, theirs in rename.items():
            v = ("var", theirs)
            if theirs in types and not (isinstance(types[theirs], tuple) and len(types[theirs]) == 2 and types[theirs][0] == "const"):
                ev.set_type(v, types[theirs])
                args[own] = v
            elif theirs in types:
                args[own] = types[theirs]
            else:
                args[own] = v
        types = {}
    for k, t in types.items():
        if isinstance(t, tuple) and len(t) == 2 and t[0] == "const":
            args[k] = t  # partial evaluation: this parameter is fixed to a constant
            continue
        v = ("var", k)
        ev.set_type(v, t)
        args[k] = v
    if self_term is None and self_type is not None:
        self_term = ("var", "self")
        ev.set_type(self_term, self_type)
    # a parameter with an integer default that the rule does not mention is a COUNTER the routine passes on to itself (`_number_recursions=0`):
    # it is left free, so that a test on it (`if _number_recursions == 0:` around a check) shows up as a case split the definition does not have
    a_ = f.node.args
    pos_ = a_.posonlyargs + a_.args
    for p_, d_ in list(zip(pos_[len(pos_) - len(a_.defaults):], a_.defaults)) + list(zip(a_.kwonlyargs, a_.kw_defaults)):
        if p_.arg not in args and isinstance(d_, ast.Constant) and type(d_.value) is int and not rename:
            v = ("var", p_.arg)
            ev.set_type(v, "int")
            args[p_.arg] = v
    paths = ev.run(f, args, self_term) if self_term is not None else ev.run(f, args)
    return f, ev, paths


def compare_with_reference(model: Model, impl_q: str, ref_q: str, types: dict[str, Any], mk_ev: Callable[[], Evaluator], sa: SetAlg,
                           post: Callable[[Term], Term] | None = None, ignore_raises: bool = False, ref_types: dict[str, Any] | None = None,
                           infeasible: Callable[[Path], bool] | None = None, impl_func: Func | None = None, ref_func: Func | None = None,
                           alias: dict | None = None, impl_self_type: Any = None, impl_self_term: Term | None = None):
    """Return (impl_func, verdict, detail, sample) with verdict in PROVEN / REFUTED / UNKNOWN."""
    _MODEL[0] = model
    rename = None
    try:
        fi_ = impl_func if impl_func is not None else model.func(impl_q)
        fr_ = ref_func if ref_func is not None else model.func(ref_q)
        pi_ = [p_ for p_ in fi_.params if not (fi_.cls is not None and not fi_.is_staticmethod and p_ == fi_.params[0])]
        pr_ = [p_ for p_ in fr_.params if p_ not in ("self", "cls")]
        if pi_ != pr_ and len(pi_) == len(pr_) and all(x == y or (x not in types and x not in pr_) for x, y in zip(pi_, pr_)):
            # a (private) routine whose parameters are merely NAMED differently from the definition's: matched by position
            rename = dict(zip(pi_, pr_))
    except Exception:  # noqa: BLE001
        rename = None
    f, ev_i, pi = evaluate(model, impl_q, mk_ev, {k: v for k, v in types.items() if k != "self"} if (impl_self_type or impl_self_term) else types,
                           func=impl_func, self_type=impl_self_type, self_term=impl_self_term, rename=rename)
    _, ev_r, pr = evaluate(model, ref_q, mk_ev, ref_types or types, func=ref_func, recurse_as=(f.qname,))
    import ast as _ast

    if f.node.returns is not None and _ast.unparse(f.node.returns) == "bool":
        # a predicate: `return <boolean expression>` is the same as testing it and returning True / False (search loops vs any / all)
        from .symeval import bool_paths
        pi, pr = bool_paths(pi), bool_paths(pr)
    from .symeval import resolve_ites
    pi, pr = lam_refs(pi, model, mk_ev), lam_refs(pr, model, mk_ev)
    pi, pr = normalise_items(pi), normalise_items(pr)
    pi, pr = contract_delegations(pi, model), contract_delegations(pr, model)
    pi, pr = strip_iterable_args(pi, model), strip_iterable_args(pr, model)
    pi, pr = resolve_ites(pi), resolve_ites(pr)
    pi, pr = split_boolean_data(pi, ev_i), split_boolean_data(pr, ev_r)
    pi, pr = expand_quantifiers(pi, ev_i), expand_quantifiers(pr, ev_r)
    if alias:
        # the definition's name for a helper stands for the routine the repository uses in that role (found by its position in the call graph)
        from dataclasses import replace as _replace

        def _ren(t):
            def fn(s_):
                if s_[0] == "call" and isinstance(s_[1], str) and s_[1] in alias:
                    return ("call", alias[s_[1]]) + tuple(s_[2:])
                return None
            return mapterm(t, fn)
        pr = [_replace(p, conds=tuple(_ren(c) for c in p.conds), value=_ren(p.value) if p.kind == "return" else p.value) for p in pr]
    if infeasible is not None:
        pi = [p for p in pi if not infeasible(p)]
        pr = [p for p in pr if not infeasible(p)]
    oi = [Outcome(p, sa, post) for p in pi]
    orf = [Outcome(p, sa, post) for p in pr]
    if ignore_raises:
        oi = [o for o in oi if o.kind == "return"]
        orf = [o for o in orf if o.kind == "return"]
    import os as _os
    if _os.environ.get("YV_DEBUG_CMP") and _os.environ["YV_DEBUG_CMP"] in impl_q:
        for side, os_ in (("IMPL", oi), ("REF", orf)):
            for k, o in enumerate(os_):
                print(f"-- {side} path {k} {o.kind} line {o.path.line}")
                for c in o.conds:
                    print("     cond:", show(c)[:600])
                print("     value:", (o.value if isinstance(o.value, str) else show(o.raw))[:1500])
    sample = {"implementation paths": len(oi), "reference paths": len(orf),
              "implementation": [show(o.value)[:260] if not isinstance(o.value, str) else "raise " + o.value for o in oi[:3]]}
    if any(o.unknown for o in orf):
        return f, "UNKNOWN", "the reference definition itself is outside the evaluator's idioms", sample
    agreed: set = set()  # reference paths matched by an implementation path whose value is equal UNDER the joint guard
    pending = None  # first recognition failure (UNKNOWN); an operand-level difference on ANY jointly satisfiable pair of paths outranks it
    for a in oi:
        for b in orf:
            if a.kind == b.kind and a.value == b.value:
                continue
            try:
                w = satisfy(joint_guard(a, b, sa))
            except TooManyAtoms:
                if pending is None:
                    pending = (f, "UNKNOWN", "guard comparison exceeds the case-split budget", sample)
                continue
            if w is None:
                continue
            fas = tuple(c for c in tuple(a.conds) + tuple(b.conds) if c[0] == "forall-not")
            nones = {c[1]: ("const", None) for c in tuple(a.conds) + tuple(b.conds) if c[0] == "isnone" and len(c) == 2 and is_term(c[1]) and c[1][0] != "const"}
            if nones and a.kind == b.kind == "return" and not a.unknown:
                # on these inputs the tested value IS None: `f(event=x)` and `f(event=None)` are the same call
                ra, rb = subst(a.raw, nones), subst(b.raw, nones)
                if (ra != a.raw or rb != b.raw) and guarded_equal(ra, rb, joint_guard(a, b, sa), sa, foralls=fas):
                    agreed.add(id(b))
                    continue
            mm_ = multiplicity_mismatch(a.raw, b.raw) if a.kind == b.kind == "return" and not a.unknown else None
            if mm_ is not None:
                return f, "REFUTED", mm_ + f" (line {a.path.line})", sample
            kc_ = keyed_collapse(a.raw, b.raw, model) if a.kind == b.kind == "return" and not a.unknown else None
            if kc_ is not None:
                return f, "REFUTED", kc_ + f" (line {a.path.line})", sample
            if a.kind == b.kind == "return" and not a.unknown and (guarded_equal(a.raw, b.raw, joint_guard(a, b, sa), sa, foralls=fas) or (
                    fas and guarded_equal(drop_implied_filters(a.raw, fas, sa), drop_implied_filters(b.raw, fas, sa), joint_guard(a, b, sa), sa, foralls=fas))):
                agreed.add(id(b))
                continue
            if a.unknown:
                if pending is None:
                    pending = (f, "UNKNOWN", f"a path of the implementation uses an idiom outside the evaluator (line {a.path.line}): {ev_i.unknowns[:2]}", sample)
                continue
            verdict = "REFUTED"
            if a.kind != b.kind:
                d = f"the implementation {'raises ' + str(a.value) if a.kind == 'raise' else 'returns'} where the definition {'raises ' + str(b.value) if b.kind == 'raise' else 'returns a value'}"
                if _idiom_marks(tuple(a.conds), True) != _idiom_marks(tuple(b.conds), True):
                    # the two guards are spelt with different idioms (a count, an index scan, an iterator protocol ...) which the normaliser
                    # did not relate: that they overlap is not evidence of a different decision
                    verdict = "UNKNOWN"
                    d = "the guards are written in idioms the normaliser cannot relate: " + d
            else:
                x, y = first_difference(a.value, b.value)
                d = f"implementation has `{_sh(x)}` where the definition has `{_sh(y)}`"
                leaves = all_differences(a.value, b.value)
                def _tainted(u, v):
                    mu, mv = _idiom_marks(u), _idiom_marks(v)
                    return bool(mu - mv) and bool(mv - mu)  # each side uses an idiom the other does not: two spellings, not two operands
                if leaves and all((_structural(u) and _structural(v)) or _tainted(u, v) for u, v in leaves):
                    # the two sides are built by different idioms at this point (loop vs comprehension, different container, ...): the
                    # normaliser cannot relate them -- a recognition failure, not a witness of different operands
                    verdict = "UNKNOWN"
                    d = "the routine is written in an idiom the normaliser cannot relate to the definition's: " + d
            cond = show_formula(joint_guard(a, b, sa))
            if _os.environ.get("YV_DEBUG_CMP") and _os.environ["YV_DEBUG_CMP"] in impl_q:
                print(f"== MISMATCH impl path {oi.index(a)} vs ref path {orf.index(b)}: {verdict}: {d[:300]}")
                from .setalg import atoms_of as _ao
                xa, xb = set(_ao(a.guard)), set(_ao(b.guard))
                only_a, only_b = sorted(xa - xb, key=repr), sorted(xb - xa, key=repr)
                for u in only_a:
                    for v in only_b:
                        if u[0] == v[0]:
                            def _deep(x_, y_, path=()):
                                if x_ == y_:
                                    return []
                                if isinstance(x_, tuple) and isinstance(y_, tuple) and len(x_) == len(y_) and len(path) < 60:
                                    ds = []
                                    for k_, (p_, q_) in enumerate(zip(x_, y_)):
                                        ds += _deep(p_, q_, path + (k_,))
                                        if len(ds) > 3:
                                            break
                                    if ds:
                                        return ds
                                return [(path, x_, y_)]
                            for pth, p_, q_ in _deep(u, v)[:3]:
                                print("   deep diff at", pth, "\n       ", repr(p_)[:500], "\n     vs", repr(q_)[:500])
            res = (f, verdict, f"{d}  [on inputs with: {cond[:int(__import__("os").environ.get("YV_GUARD_CHARS", "300"))]}] (line {a.path.line})", sample)
            if verdict == "REFUTED":
                return res
            if pending is None:
                pending = res
    if pending is not None:
        return pending
    # coverage: every reference *return* path must be reachable through some implementation path with the same outcome
    for b in orf:
        if id(b) not in agreed and not any(a.kind == b.kind and a.value == b.value for a in oi):
            # no implementation path has this outcome and none overlaps (otherwise refuted above): guard space lost
            return f, "REFUTED", f"no path of the implementation produces the definition's case `{_sh(b.value)}`", sample
    return f, "PROVEN", "", sample


def _sh(x: Any) -> str:
    s = x if isinstance(x, str) else show(x)
    return s if len(s) <= 420 else s[:419] + "…"


def private_callees(model: Model, f: Func, public: set) -> list:
    """Module-level routines of f's own module that f calls directly and that are not public anchors (helpers, whatever they are called)."""
    import ast as _ast

    out = []
    for n in _ast.walk(f.node):
        if isinstance(n, _ast.Call) and isinstance(n.func, _ast.Name):
            r = model.resolve_name(f.module, n.func.id)
            if isinstance(r, Func) and r.module is f.module and r.qname not in public and r.qname != f.qname and r.cls is None and r.qname not in out:
                out.append(r.qname)
    return out


def load_reference(model: Model, name: str, filename: str) -> None:
    """Index yv/refs/<filename> as module `name`; every repository name it imports must still exist (else: anchor vanished -> exit 2)."""
    import os

    from .model import AnalysisError

    path = os.path.join(os.path.dirname(os.path.abspath(__file__)), "refs", filename)
    with open(path, encoding="utf-8") as fh:
        src = fh.read()
    m = model.add_reference_module(name, src)
    for _local, target in m.imports.items():
        if target.startswith("y0.") and model.resolve_qualified(target) is None:
            raise AnalysisError(f"anchor vanished: the reference definitions use {target}, which the repository no longer defines")


class _RowTimeout(Exception):
    pass


class time_limit:
    """CPU-time bound for one comparison (a source shape that makes the terms or the case splits explode ends as "no verdict" for that
    routine, the other routines are still analysed).  CPU time of this process, not wall-clock: a loaded machine must not turn a routine that
    is analysed in seconds into "no verdict".  Nested inside the whole check's own CPU timer, which is re-armed with what is left of it."""

    def __init__(self, seconds: int):
        self.seconds = seconds

    def __enter__(self):
        import signal
        import time
        self._signal, self._t0 = signal, time.process_time()
        try:
            self._old = signal.getsignal(signal.SIGPROF)
            self._left = signal.setitimer(signal.ITIMER_PROF, 0)[0]
        except ValueError:  # not in the main thread
            self._old = None
            return self

        def handler(_s, _f):
            raise _RowTimeout()

        signal.signal(signal.SIGPROF, handler)
        signal.setitimer(signal.ITIMER_PROF, self.seconds if not self._left else max(1, min(self.seconds, self._left - 5)))
        return self

    def __exit__(self, *exc):
        import time
        if self._old is None:
            return False
        self._signal.setitimer(self._signal.ITIMER_PROF, 0)
        self._signal.signal(self._signal.SIGPROF, self._old)
        if self._left:
            self._signal.setitimer(self._signal.ITIMER_PROF, max(1, self._left - (time.process_time() - self._t0)))
        return False


def run_table(model: Model, rep, table, ref_module: str, mk, sa: SetAlg, infeasible=None, construct=None, loc=None, ignore_raises_for=(), post=None):
    """table rows: (rule, implementation qname, reference function, parameter types, primitives, role, words[, extra keyword arguments])."""
    for row in table:
        rule, impl, ref, types, prims, role, words = row[:7]
        extra = row[7] if len(row) > 7 else {}
        f = model.func(impl)
        try:
            with time_limit(int(__import__("os").environ.get("YV_ROW_BUDGET", "45"))):
                fobj, verdict, detail, sample = compare_with_reference(
                    model, impl, f"{ref_module}.{ref}", types, mk(model, prims), sa, infeasible=infeasible, ignore_raises=impl in ignore_raises_for, post=post, **extra)
        except Exception as ex:  # noqa: BLE001
            from .symeval import Budget
            if isinstance(ex, _RowTimeout):
                ex = "time budget for one routine exceeded (combinatorial blow-up of paths or terms)"
            elif not isinstance(ex, (Budget, RecursionError)):
                raise
            fobj, verdict, detail, sample = f, "UNKNOWN", f"the analysis of this routine did not finish: {ex}", {}
        sample["definition"] = words
        cons = construct(f, role)
        if verdict == "PROVEN":
            rep.proven(rule, cons, loc=loc(f), sample=sample)
        elif verdict == "REFUTED":
            d = detail if len(detail) <= 900 else detail[:899] + "…"
            rep.refuted(rule, cons, f"deviates from the definition ({words}): {d}", loc(f), sample=sample)
        else:
            rep.unknown(rule, cons, detail, loc(f))
