"""E10 -- single-pass discipline for one-shot iterables.

A parameter annotated `Iterable[...]` / `Iterator[...]` / `Generator[...]` (alone or as a member of a union) may be handed a generator, a `map`
or a `filter` object: something that can be traversed ONCE.  A second traversal silently sees nothing -- `all(... for c in conditions)` followed
by `set(conditions)` answers the query for the empty conditioning set.  The analysis is a syntax-directed abstract interpretation of one
function body: per still-unmaterialised parameter name, the number of traversals so far on the current path (0, 1, 2 = "more than one"); branches
are merged by maximum, loop bodies are run twice (so that a traversal repeated per iteration is seen), paths that leave the function drop out.

Traversals:  `for .. in p`, a comprehension / generator expression over p, `x in p`, `*p`, and p as the argument of a consuming builtin
(set, frozenset, list, tuple, sorted, any, all, sum, min, max, dict, enumerate, zip, map, filter, iter, reversed-free wrappers, str.join) or of a
repository function whose own summary says it traverses that parameter (interprocedural, resolved callees only: plain names, self/cls methods,
Class.method).  `p = set(p)` (any rebinding) ends the watch: from there on the name holds what the function built.
A finding names the function, the parameter, and both traversal sites.
"""

from __future__ import annotations

import ast
from dataclasses import dataclass

from .model import Cls, Func, Model

ONE_SHOT = {"Iterable", "Iterator", "Generator"}
CONSUMERS = {"set", "frozenset", "list", "tuple", "sorted", "any", "all", "sum", "min", "max", "dict", "enumerate", "zip", "map", "filter", "iter",
             "next", "Counter", "deque", "chain", "from_iterable", "fromkeys", "join", "extend", "update", "union", "intersection", "difference",
             "issubset", "issuperset", "isdisjoint", "symmetric_difference", "difference_update", "intersection_update", "add_nodes_from",
             "add_edges_from", "remove_nodes_from", "remove_edges_from", "subgraph", "combinations", "permutations", "product", "islice", "takewhile",
             "dropwhile", "accumulate", "groupby", "starmap", "zip_longest", "pairwise"}
# methods whose ARGUMENT is traversed (the receiver is something else)
ARG_CONSUMING_METHODS = {"join", "extend", "update", "union", "intersection", "difference", "issubset", "issuperset", "isdisjoint", "symmetric_difference",
                         "difference_update", "intersection_update", "add_nodes_from", "add_edges_from", "remove_nodes_from", "remove_edges_from",
                         "fromkeys", "from_iterable"}


@dataclass
class Finding:
    func: str
    param: str
    first: int
    second: int
    how: str


def _is_one_shot_annotation(ann: ast.expr | None) -> bool:
    if ann is None:
        return False
    if isinstance(ann, ast.Constant) and isinstance(ann.value, str):
        try:
            ann = ast.parse(ann.value, mode="eval").body
        except SyntaxError:
            return False
    if isinstance(ann, ast.BinOp) and isinstance(ann.op, ast.BitOr):
        return _is_one_shot_annotation(ann.left) or _is_one_shot_annotation(ann.right)
    if isinstance(ann, ast.Subscript):
        head = ann.value
        hn = head.id if isinstance(head, ast.Name) else (head.attr if isinstance(head, ast.Attribute) else None)
        if hn in ONE_SHOT:
            return True
        if hn in ("Optional", "Union"):
            sl = ann.slice
            elts = sl.elts if isinstance(sl, ast.Tuple) else [sl]
            return any(_is_one_shot_annotation(e) for e in elts)
        return False
    if isinstance(ann, ast.Name):
        return ann.id in ONE_SHOT
    if isinstance(ann, ast.Attribute):
        return ann.attr in ONE_SHOT
    return False


class OneShot:
    def __init__(self, model: Model) -> None:
        self.model = model
        self._summ: dict[str, dict[str, int]] = {}
        self._find: dict[str, list[Finding]] = {}
        self._busy: set[str] = set()
        self.aliases: dict[str, ast.expr] = {}

    # ---------------------------------------------------------------- public
    def one_shot_params(self, f: Func) -> list[str]:
        a = f.node.args
        out = []
        for x in a.posonlyargs + a.args + a.kwonlyargs:
            ann = x.annotation
            if isinstance(ann, ast.Name):
                # a module-level alias such as  VariableHint = str | Variable | Iterable[str | Variable]
                tgt = f.module.constants.get(ann.id)
                if tgt is None:
                    r = self.model.resolve_name(f.module, ann.id)
                    if isinstance(r, tuple) and len(r) == 3 and isinstance(r[2], ast.AST):
                        tgt = r[2]
                if isinstance(tgt, ast.AST) and _is_one_shot_annotation(tgt):
                    out.append(x.arg)
                    continue
            if _is_one_shot_annotation(ann):
                out.append(x.arg)
        return out

    def summary(self, f: Func) -> dict[str, int]:
        self._run(f)
        return self._summ.get(f.qname, {})

    def findings(self, f: Func) -> list[Finding]:
        self._run(f)
        return self._find.get(f.qname, [])

    # ---------------------------------------------------------------- analysis
    def _run(self, f: Func) -> None:
        if f.qname in self._summ or f.qname in self._busy:
            return
        self._busy.add(f.qname)
        try:
            a = f.node.args
            params = [x.arg for x in a.posonlyargs + a.args + a.kwonlyargs]
            if f.cls is not None and not f.is_staticmethod and params:
                params = params[1:]
            watched = set(self.one_shot_params(f))
            found: list[Finding] = []
            state = {p: (0, 0) for p in params}
            exits: list[dict] = []
            is_gen = any(isinstance(n, (ast.Yield, ast.YieldFrom)) for n in ast.walk(f.node))
            an = _Body(self, f, watched, found, exits)
            end = an.block(f.node.body, state)
            if end is not None:
                exits.append(end)
            summ: dict[str, int] = {}
            for st in exits:
                for p in params:
                    if p in st:
                        summ[p] = max(summ.get(p, 0), st[p][0])
            for p in an.touched:
                summ[p] = max(summ.get(p, 0), an.touched[p])
            if is_gen:
                # a generator function's body runs when ITS result is traversed; to the caller that is still one traversal of the argument
                pass
            self._summ[f.qname] = summ
            uniq = {}
            for x in found:
                uniq.setdefault((x.param, x.first, x.second), x)
            self._find[f.qname] = list(uniq.values())
        finally:
            self._busy.discard(f.qname)

    def resolve(self, f: Func, c: ast.Call):
        """(callee Func, receiver-bound?) for calls that resolve without guessing"""
        fn = c.func
        if isinstance(fn, ast.Name):
            r = self.model.resolve_name(f.module, fn.id)
            if isinstance(r, Func):
                return r, False
            if isinstance(r, Cls):
                return None, False
            return None, False
        if isinstance(fn, ast.Attribute):
            if isinstance(fn.value, ast.Name):
                if f.cls is not None and f.params and fn.value.id == f.params[0] and not f.is_staticmethod:
                    m = f.cls.find_method(fn.attr)
                    if m is not None:
                        return m, True
                r = self.model.resolve_name(f.module, fn.value.id)
                if isinstance(r, Cls):
                    m = r.find_method(fn.attr)
                    if m is not None:
                        return m, not (m.is_staticmethod or m.is_classmethod) and False
        return None, False


class _Body:
    def __init__(self, eng: OneShot, f: Func, watched: set, found: list, exits: list) -> None:
        self.eng, self.f, self.watched, self.found, self.exits = eng, f, set(watched), found, exits
        self.touched: dict[str, int] = {}
        self.local_one_shot: dict[str, int] = {}

    # state: name -> (count, line of first traversal)
    def consume(self, name: str, state: dict, line: int, how: str, times: int = 1) -> None:
        if name not in state or times <= 0:
            return
        n, first = state[name]
        if n == 0 and times >= 2 and name in self.watched:
            # traversed once PER ELEMENT of an enclosing loop / generator: every traversal after the first sees nothing
            self.found.append(Finding(self.f.qname, name, line, line, how + ", once per element of the enclosing iteration" + (
                " (a one-shot object built at line %d)" % self.local_one_shot[name] if name in self.local_one_shot else "")))
        if n >= 1 and name in self.watched:
            self.found.append(Finding(self.f.qname, name, first, line, how + (" (a one-shot object built at line %d)" % self.local_one_shot[name] if name in self.local_one_shot else "")))
        if n == 0:
            first = line
        state[name] = (min(2, n + times), first)
        self.touched[name] = max(self.touched.get(name, 0), state[name][0])

    @staticmethod
    def merge(states: list) -> dict | None:
        live = [s for s in states if s is not None]
        if not live:
            return None
        out: dict = {}
        for s in live:
            for k, (n, ln) in s.items():
                if k not in out or n > out[k][0]:
                    out[k] = (n, ln)
        return out

    # ---------------------------------------------------------------- expressions
    def expr(self, e: ast.AST | None, state: dict) -> None:
        if e is None:
            return
        if isinstance(e, ast.IfExp):
            self.expr(e.test, state)
            a, b = dict(state), dict(state)
            self.expr(e.body, a)
            self.expr(e.orelse, b)
            m = self.merge([a, b])
            state.clear()
            state.update(m)
            return
        if isinstance(e, (ast.ListComp, ast.SetComp, ast.GeneratorExp, ast.DictComp)):
            for i, g in enumerate(e.generators):
                if isinstance(g.iter, ast.Name) and g.iter.id in state:
                    self.consume(g.iter.id, state, g.iter.lineno, "a comprehension over it", times=1 if i == 0 else 2)
                else:
                    self.expr(g.iter, state)
                # conditions and the element run once per element: a traversal in there is repeated
                inner = dict(state)
                for c in g.ifs:
                    self.expr(c, inner)
                    self.expr(c, inner)
                self._absorb(state, inner)
            inner = dict(state)
            for part in ([e.key, e.value] if isinstance(e, ast.DictComp) else [e.elt]):
                self.expr(part, inner)
                self.expr(part, inner)
            self._absorb(state, inner)
            return
        if isinstance(e, ast.Lambda):
            return
        if isinstance(e, ast.Compare):
            self.expr(e.left, state)
            for op, c in zip(e.ops, e.comparators):
                if isinstance(op, (ast.In, ast.NotIn)) and isinstance(c, ast.Name) and c.id in state:
                    self.consume(c.id, state, c.lineno, "a membership test on it")
                else:
                    self.expr(c, state)
            return
        if isinstance(e, ast.Starred):
            if isinstance(e.value, ast.Name) and e.value.id in state:
                self.consume(e.value.id, state, e.lineno, "unpacking it")
            else:
                self.expr(e.value, state)
            return
        if isinstance(e, ast.Call):
            self.call(e, state)
            return
        for ch in ast.iter_child_nodes(e):
            if isinstance(ch, (ast.expr, ast.comprehension, ast.keyword)):
                self.expr(ch if not isinstance(ch, ast.keyword) else ch.value, state)

    def _absorb(self, state: dict, inner: dict) -> None:
        for k, v in inner.items():
            if k in state and v[0] > state[k][0]:
                state[k] = v

    def call(self, c: ast.Call, state: dict) -> None:
        fn = c.func
        name = fn.id if isinstance(fn, ast.Name) else (fn.attr if isinstance(fn, ast.Attribute) else None)
        if isinstance(fn, ast.Attribute):
            self.expr(fn.value, state)
        cal, _ = self.eng.resolve(self.f, c)
        handled: set[int] = set()
        if cal is not None:
            summ = self.eng.summary(cal)
            bound = _bind(cal, c)
            for p, a in bound.items():
                if isinstance(a, ast.Name) and a.id in state:
                    handled.add(id(a))
                    n = summ.get(p, 0)
                    if n:
                        self.consume(a.id, state, a.lineno, f"passing it to {cal.qname.split('.')[-1]}(), which traverses `{p}`", times=1)
        elif name in CONSUMERS and (isinstance(fn, ast.Name) or name in ARG_CONSUMING_METHODS or isinstance(fn, ast.Attribute) and isinstance(fn.value, ast.Name) and fn.value.id in ("itt", "itertools", "it")):
            for a in c.args:
                if isinstance(a, ast.Name) and a.id in state:
                    handled.add(id(a))
                    self.consume(a.id, state, a.lineno, f"{name}() over it")
        for a in list(c.args) + [k.value for k in c.keywords]:
            if id(a) in handled:
                continue
            self.expr(a, state)

    # ---------------------------------------------------------------- statements
    def block(self, stmts: list, state: dict | None) -> dict | None:
        for st in stmts:
            if state is None:
                return None
            state = self.stmt(st, state)
        return state

    def _rebind(self, tgt: ast.expr, state: dict) -> None:
        if isinstance(tgt, ast.Name):
            state.pop(tgt.id, None)
        elif isinstance(tgt, (ast.Tuple, ast.List)):
            for e in tgt.elts:
                self._rebind(e, state)
        elif isinstance(tgt, ast.Starred):
            self._rebind(tgt.value, state)

    def stmt(self, st: ast.stmt, state: dict) -> dict | None:
        if isinstance(st, (ast.FunctionDef, ast.AsyncFunctionDef, ast.ClassDef, ast.Import, ast.ImportFrom, ast.Pass, ast.Global, ast.Nonlocal)):
            return state
        if isinstance(st, ast.Return):
            self.expr(st.value, state)
            self.exits.append(state)
            return None
        if isinstance(st, ast.Raise):
            self.expr(st.exc, state)
            return None
        if isinstance(st, (ast.Break, ast.Continue)):
            return state  # loops are run a bounded number of times below; treating these as fall-through only adds paths
        if isinstance(st, ast.Expr):
            self.expr(st.value, state)
            return state
        if isinstance(st, ast.Assign):
            one_shot = _is_one_shot_value(st.value)
            if one_shot and isinstance(st.value, ast.GeneratorExp):
                # building the generator traverses nothing yet; what it ranges over is traversed when the generator is
                for g in st.value.generators[1:]:
                    self.expr(g.iter, state)
            elif one_shot and isinstance(st.value, ast.Call):
                for a in list(st.value.args) + [k.value for k in st.value.keywords]:
                    if not (isinstance(a, ast.Name) and a.id in state):
                        self.expr(a, state)
            else:
                self.expr(st.value, state)
            alias = isinstance(st.value, ast.Name) and st.value.id in state
            for t in st.targets:
                if alias and isinstance(t, ast.Name):
                    state[t.id] = state[st.value.id]  # a second name for the same object (counts are copied; good enough for straight-line code)
                elif one_shot and isinstance(t, ast.Name):
                    # a generator / map / filter / zip / iterator object held in a local: it can be walked once
                    state[t.id] = (0, 0)
                    self.watched.add(t.id)
                    self.local_one_shot[t.id] = st.lineno
                else:
                    self._rebind(t, state)
            return state
        if isinstance(st, ast.AnnAssign):
            self.expr(st.value, state)
            self._rebind(st.target, state)
            return state
        if isinstance(st, ast.AugAssign):
            self.expr(st.value, state)
            return state
        if isinstance(st, ast.If):
            self.expr(st.test, state)
            a = self.block(st.body, dict(state))
            b = self.block(st.orelse, dict(state))
            return self.merge([a, b])
        if isinstance(st, (ast.For, ast.AsyncFor)):
            if isinstance(st.iter, ast.Name) and st.iter.id in state:
                self.consume(st.iter.id, state, st.iter.lineno, "a for loop over it")
            else:
                self.expr(st.iter, state)
            s0 = dict(state)
            self._rebind(st.target, s0)
            s1 = self.block(st.body, dict(s0))
            s2 = self.block(st.body, dict(s1)) if s1 is not None else None
            out = self.merge([state, s1, s2])
            if st.orelse and out is not None:
                out = self.block(st.orelse, out)
            return out
        if isinstance(st, ast.While):
            self.expr(st.test, state)
            s1 = self.block(st.body, dict(state))
            if s1 is not None:
                self.expr(st.test, s1)
            s2 = self.block(st.body, dict(s1)) if s1 is not None else None
            out = self.merge([state, s1, s2])
            if st.orelse and out is not None:
                out = self.block(st.orelse, out)
            return out
        if isinstance(st, (ast.With, ast.AsyncWith)):
            for it in st.items:
                self.expr(it.context_expr, state)
            return self.block(st.body, state)
        if isinstance(st, ast.Try):
            body = self.block(st.body, dict(state))
            outs = [body]
            for h in st.handlers:
                outs.append(self.block(h.body, self.merge([state, body]) or dict(state)))
            m = self.merge(outs)
            if st.orelse and body is not None:
                m = self.merge([self.block(st.orelse, dict(body))] + outs[1:])
            if st.finalbody and m is not None:
                m = self.block(st.finalbody, m)
            return m
        if isinstance(st, ast.Match):
            self.expr(st.subject, state)
            outs = []
            for case in st.cases:
                s = dict(state)
                for n in ast.walk(case.pattern):
                    if isinstance(n, (ast.MatchAs, ast.MatchStar)) and n.name:
                        s.pop(n.name, None)
                if case.guard is not None:
                    self.expr(case.guard, s)
                outs.append(self.block(case.body, s))
            exhaustive = any(isinstance(c.pattern, ast.MatchAs) and c.pattern.pattern is None and c.guard is None for c in st.cases)
            if not exhaustive:
                outs.append(state)
            return self.merge(outs)
        if isinstance(st, (ast.Assert, ast.Delete)):
            return state
        for ch in ast.iter_child_nodes(st):
            if isinstance(ch, ast.expr):
                self.expr(ch, state)
        return state


ONE_SHOT_CALLS = {"map", "filter", "zip", "iter", "chain", "islice", "enumerate", "reversed", "takewhile", "dropwhile", "starmap", "from_iterable", "groupby",
                  "accumulate", "zip_longest", "pairwise", "combinations", "permutations", "product"}


def _is_one_shot_value(e: ast.expr) -> bool:
    """Does the expression build an object that can be iterated only once (a generator expression, or a lazy iterator of the standard library)?"""
    if isinstance(e, ast.GeneratorExp):
        return True
    if isinstance(e, ast.Call):
        fn = e.func
        name = fn.id if isinstance(fn, ast.Name) else (fn.attr if isinstance(fn, ast.Attribute) else None)
        if name in ONE_SHOT_CALLS and (isinstance(fn, ast.Name) or (isinstance(fn, ast.Attribute) and (
                (isinstance(fn.value, ast.Name) and fn.value.id in ("itt", "itertools", "it")) or
                (isinstance(fn.value, ast.Attribute) and fn.value.attr == "chain")))):
            return True
    return False


def _bind(cal: Func, c: ast.Call) -> dict[str, ast.expr]:
    a = cal.node.args
    pos = [x.arg for x in a.posonlyargs + a.args]
    if cal.cls is not None and not cal.is_staticmethod and pos:
        pos = pos[1:]
    bound: dict[str, ast.expr] = {}
    for i, x in enumerate(c.args):
        if isinstance(x, ast.Starred):
            break
        if i < len(pos):
            bound[pos[i]] = x
    for k in c.keywords:
        if k.arg:
            bound[k.arg] = k.value
    return bound
