#!/venv/bin/python
"""setup_cmd: nothing to build (pure Python). Verifies the interpreter, the repo tree and the engine import."""
import os, sys
sys.path.insert(0, os.path.dirname(os.path.dirname(os.path.abspath(__file__))))
from yv.model import Model  # noqa: E402
m = Model()
assert m.files_parsed > 40, m.files_parsed
print(f"yv ok: python {sys.version.split()[0]}, {m.files_parsed} files, {len(m.functions)} functions parsed from /repo/src/y0")
