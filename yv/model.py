"""E0 -- program model of /repo/src/y0 built from source with `ast` only.

Nothing of y0 is imported or executed.  The model records modules, classes (bases, MRO inside the
repo, dataclass fields), functions/methods (parameters, annotations), module-level constants,
and resolves names through imports.  Call resolution is annotation driven with a class-hierarchy
fallback by method name.
"""

from __future__ import annotations

import ast
import hashlib
import os
from dataclasses import dataclass, field
from typing import Any, Iterator

REPO = os.environ.get("YV_REPO", "/repo")
SRC = os.path.join(REPO, "src")
PKG = "y0"


class AnalysisError(Exception):
    """The analysis itself is broken (anchor vanished, unparsable tree...) -> exit 2."""


@dataclass
class Func:
    qname: str  # y0.graph.NxMixedGraph.subgraph  /  y0.graph._ensure_set
    module: "Module"
    node: ast.FunctionDef
    cls: "Cls | None" = None
    decorators: tuple[str, ...] = ()

    @property
    def name(self) -> str:
        return self.node.name

    @property
    def is_classmethod(self) -> bool:
        return "classmethod" in self.decorators

    @property
    def is_staticmethod(self) -> bool:
        return "staticmethod" in self.decorators

    @property
    def is_property(self) -> bool:
        return "property" in self.decorators

    @property
    def is_generator(self) -> bool:
        g = getattr(self, "_isgen", None)
        if g is None:
            g = any(isinstance(n, (ast.Yield, ast.YieldFrom)) for n in walk_local(self.node))
            object.__setattr__(self, "_isgen", g)
        return g

    @property
    def params(self) -> list[str]:
        a = self.node.args
        return [x.arg for x in a.posonlyargs + a.args] + [x.arg for x in a.kwonlyargs]

    def param_annotation(self, name: str) -> ast.expr | None:
        a = self.node.args
        for x in a.posonlyargs + a.args + a.kwonlyargs:
            if x.arg == name:
                return x.annotation
        if a.vararg and a.vararg.arg == name:
            return a.vararg.annotation
        return None

    @property
    def loc(self) -> str:
        return f"{self.module.relpath}:{self.node.lineno}"


@dataclass
class Cls:
    qname: str
    module: "Module"
    node: ast.ClassDef
    base_exprs: list[ast.expr]
    bases: list["Cls"] = field(default_factory=list)
    methods: dict[str, Func] = field(default_factory=dict)
    fields: dict[str, ast.expr | None] = field(default_factory=dict)  # own annotated fields, in order
    field_defaults: dict[str, ast.expr] = field(default_factory=dict)
    is_dataclass: bool = False
    dataclass_kw: dict[str, Any] = field(default_factory=dict)
    subclasses: list["Cls"] = field(default_factory=list)

    @property
    def name(self) -> str:
        return self.node.name

    def mro(self) -> list["Cls"]:
        out: list[Cls] = []
        seen = set()

        def go(c: Cls) -> None:
            if c.qname in seen:
                return
            seen.add(c.qname)
            out.append(c)
            for b in c.bases:
                go(b)

        go(self)
        return out

    def find_method(self, name: str) -> Func | None:
        for c in self.mro():
            if name in c.methods:
                return c.methods[name]
        return None

    def all_fields(self) -> dict[str, ast.expr | None]:
        """Dataclass fields in definition order (bases first)."""
        out: dict[str, ast.expr | None] = {}
        for c in reversed(self.mro()):
            out.update(c.fields)
        return out

    def all_field_defaults(self) -> dict[str, ast.expr]:
        out: dict[str, ast.expr] = {}
        for c in reversed(self.mro()):
            out.update(c.field_defaults)
        return out

    def is_subclass_of(self, other: "Cls | str") -> bool:
        oq = other if isinstance(other, str) else other.qname
        return any(c.qname == oq or c.name == oq for c in self.mro())

    def all_subclasses(self) -> list["Cls"]:
        out = []
        stack = list(self.subclasses)
        seen = set()
        while stack:
            c = stack.pop()
            if c.qname in seen:
                continue
            seen.add(c.qname)
            out.append(c)
            stack.extend(c.subclasses)
        return out

    @property
    def loc(self) -> str:
        return f"{self.module.relpath}:{self.node.lineno}"


@dataclass
class Module:
    name: str  # y0.graph
    path: str
    relpath: str
    tree: ast.Module
    source: str
    imports: dict[str, str] = field(default_factory=dict)  # local name -> qualified target
    functions: dict[str, Func] = field(default_factory=dict)
    classes: dict[str, Cls] = field(default_factory=dict)
    constants: dict[str, ast.expr] = field(default_factory=dict)
    is_package: bool = False


def walk_local(fn: ast.AST) -> Iterator[ast.AST]:
    """Walk a function body without descending into nested defs/classes/lambdas."""
    stack = list(ast.iter_child_nodes(fn))
    while stack:
        n = stack.pop()
        yield n
        if isinstance(n, (ast.FunctionDef, ast.AsyncFunctionDef, ast.ClassDef, ast.Lambda)):
            continue
        stack.extend(ast.iter_child_nodes(n))


def _decorator_name(d: ast.expr) -> str:
    if isinstance(d, ast.Call):
        d = d.func
    if isinstance(d, ast.Attribute):
        return d.attr
    if isinstance(d, ast.Name):
        return d.id
    return "?"


class Model:
    def __init__(self, src: str | None = None) -> None:
        self.src = src or SRC
        self.modules: dict[str, Module] = {}
        self.functions: dict[str, Func] = {}
        self.classes: dict[str, Cls] = {}
        self.classes_by_name: dict[str, list[Cls]] = {}
        self.methods_by_name: dict[str, list[Func]] = {}
        self.files_parsed = 0
        self._load()

    # ------------------------------------------------------------------ loading
    def _load(self) -> None:
        root = os.path.join(self.src, PKG)
        if not os.path.isdir(root):
            raise AnalysisError(f"source tree not found: {root}")
        for dirpath, dirnames, filenames in os.walk(root):
            dirnames[:] = sorted(d for d in dirnames if d != "__pycache__")
            for fn in sorted(filenames):
                if not fn.endswith(".py"):
                    continue
                path = os.path.join(dirpath, fn)
                rel = os.path.relpath(path, self.src)
                modname = rel[:-3].replace(os.sep, ".")
                is_pkg = False
                if modname.endswith(".__init__"):
                    modname = modname[: -len(".__init__")]
                    is_pkg = True
                with open(path, encoding="utf-8") as fh:
                    source = fh.read()
                try:
                    tree = ast.parse(source, filename=path)
                except SyntaxError as e:  # pragma: no cover
                    raise AnalysisError(f"cannot parse {path}: {e}") from e
                m = Module(modname, path, os.path.join("src", rel), tree, source, is_package=is_pkg)
                self.modules[modname] = m
                self.files_parsed += 1
        for m in self.modules.values():
            self._index_module(m)
        for c in self.classes.values():
            for b in c.base_exprs:
                bc = self.resolve_class_expr(c.module, b)
                if bc is not None:
                    c.bases.append(bc)
                    bc.subclasses.append(c)
        self._alias_renamed_private_helpers()

    # ------------------------------------------------------------------ renamed private helpers
    @staticmethod
    def fingerprint(f: "Func") -> str:
        """A private helper's identity apart from its NAME: parameters, decorators and body (docstring removed, its own name blanked, so a
        recursive helper keeps its fingerprint when it is renamed)."""
        node = f.node
        body = list(node.body)
        if body and isinstance(body[0], ast.Expr) and isinstance(body[0].value, ast.Constant) and isinstance(body[0].value.value, str):
            body = body[1:]
        own = node.name

        class _Blank(ast.NodeTransformer):
            def visit_Name(self, n):  # noqa: N802
                return ast.copy_location(ast.Name(id="<self>", ctx=n.ctx), n) if n.id == own else n

            def visit_Attribute(self, n):  # noqa: N802
                self.generic_visit(n)
                return ast.copy_location(ast.Attribute(value=n.value, attr="<self>", ctx=n.ctx), n) if n.attr == own else n
        import copy as _copy
        # parameters and locals by position of first appearance, annotations dropped: renaming them (and annotating) is house-keeping too
        a = node.args
        order: dict[str, str] = {}
        for x in a.posonlyargs + a.args + ([a.vararg] if a.vararg else []) + a.kwonlyargs + ([a.kwarg] if a.kwarg else []):
            order.setdefault(x.arg, f"_p{len(order)}")
        for st in body:
            for n in ast.walk(st):
                if isinstance(n, ast.Name) and isinstance(n.ctx, ast.Store) and n.id != own:
                    order.setdefault(n.id, f"_l{len(order)}")

        class _Alpha(ast.NodeTransformer):
            def visit_Name(self, n):  # noqa: N802
                return ast.copy_location(ast.Name(id=order.get(n.id, n.id), ctx=n.ctx), n)

            def visit_arg(self, n):  # noqa: N802
                return ast.copy_location(ast.arg(arg=order.get(n.arg, n.arg), annotation=None), n)

            def visit_AnnAssign(self, n):  # noqa: N802
                self.generic_visit(n)
                if n.value is None:
                    return ast.copy_location(ast.Pass(), n)
                return ast.copy_location(ast.Assign(targets=[n.target], value=n.value), n)

            def visit_keyword(self, n):  # noqa: N802
                self.generic_visit(n)
                return n
        body = [_Alpha().visit(_Blank().visit(_copy.deepcopy(st))) for st in body]
        dumped = [ast.dump(st, annotate_fields=False, include_attributes=False) for st in body]
        args = ast.dump(_Alpha().visit(_copy.deepcopy(node.args)), annotate_fields=False, include_attributes=False)
        decos = [ast.dump(d, annotate_fields=False, include_attributes=False) for d in node.decorator_list]
        return hashlib.sha256("\n".join([args] + decos + dumped).encode()).hexdigest()[:20]

    @staticmethod
    def arity(f: "Func") -> int:
        a = f.node.args
        return len(a.posonlyargs) + len(a.args) + len(a.kwonlyargs)

    @staticmethod
    def param_names(f: "Func") -> list[str]:
        a = f.node.args
        return [x.arg for x in a.posonlyargs + a.args + a.kwonlyargs]

    @staticmethod
    def sketch(f: "Func") -> list[str]:
        """what the body talks about, names of locals and of the routine itself left out: attribute names, called names, exception classes"""
        own = f.node.name
        out = set()
        for st in f.node.body:
            for n in ast.walk(st):
                if isinstance(n, ast.Attribute) and n.attr != own:
                    out.add("." + n.attr)
                elif isinstance(n, ast.Call) and isinstance(n.func, ast.Name) and n.func.id != own:
                    out.add(n.func.id)
                elif isinstance(n, ast.Raise) and n.exc is not None:
                    e = n.exc.func if isinstance(n.exc, ast.Call) else n.exc
                    if isinstance(e, ast.Name):
                        out.add(e.id)
        return sorted(out)

    def _alias_renamed_private_helpers(self) -> None:
        """Rules and reference definitions name some PRIVATE helpers of the repository.  Renaming such a helper (same parameters, same body) is
        house-keeping: when a name recorded in yv/refs/fingerprints.json is gone and exactly one new private routine of the same module (or class)
        has the recorded fingerprint, the old name is kept as an alias of it.  Anything else stays a vanished anchor."""
        path = os.path.join(os.path.dirname(os.path.abspath(__file__)), "refs", "fingerprints.json")
        self.renamed: dict[str, str] = {}
        if not os.path.isfile(path):
            return
        try:
            import json
            with open(path, encoding="utf-8") as fh:
                base = json.load(fh)
        except Exception:  # noqa: BLE001
            return
        current = {q: f for q, f in self.functions.items() if not f.module.path.startswith("<")}
        by_print: dict[tuple, list[str]] = {}
        for q, f in current.items():
            if q in base:
                continue
            owner = q.rpartition(".")[0]
            if f.node.name.startswith("_") and not f.node.name.startswith("__"):
                by_print.setdefault((owner, self.fingerprint(f)), []).append(q)
        def _keep(old: str, newq: str) -> None:
            new = current[newq]
            self.functions[old] = new
            self.renamed[old] = newq
            # the analysis keeps calling it by the recorded name (primitives, call terms and reports all use qname); `renamed` keeps the new one
            new.qname = old
            leaf = old.rpartition(".")[2]
            if new.cls is not None:
                new.cls.methods.setdefault(leaf, new)
            else:
                new.module.functions.setdefault(leaf, new)

        base = {q: (v if isinstance(v, dict) else {"fp": v, "arity": None, "sketch": None}) for q, v in base.items()}
        taken: set[str] = set()
        for old, rec in sorted(base.items()):
            if old in current:
                continue
            owner = old.rpartition(".")[0]
            cands = by_print.get((owner, rec["fp"]), [])
            if len(cands) != 1:
                continue
            _keep(old, cands[0])
            taken.add(cands[0])
        # second pass -- renamed AND lightly edited (a docstring, a guard clause, `(x,) = xs` for `xs.pop()`): the recorded name has vanished and
        # exactly one new private routine of the same module / class has the same parameters (names, order) and talks about the same things (attribute
        # names, called names, exception classes: Jaccard >= 0.6).  The alias only decides WHICH routine the rules are applied to -- its body is
        # analysed like any other, so a changed meaning is still reported under the recorded name.
        fresh: dict[str, list[str]] = {}
        for (owner, _fp), qs in by_print.items():
            fresh.setdefault(owner, []).extend(q for q in qs if q not in taken)
        for old, rec in sorted(base.items()):
            if old in current or old in self.renamed or rec.get("arity") is None:
                continue
            owner = old.rpartition(".")[0]
            want = set(rec.get("sketch") or [])
            cands = []
            for q in fresh.get(owner, []):
                if q in taken or self.arity(current[q]) != rec["arity"] or self.param_names(current[q]) != rec.get("params"):
                    continue  # same parameters in the same order: every rule that reads a call of the helper reads its arguments by position
                have = set(self.sketch(current[q]))
                union = want | have
                if union and len(want & have) / len(union) >= 0.6:
                    cands.append(q)
            if len(cands) == 1:
                _keep(old, cands[0])
                taken.add(cands[0])

    def add_reference_module(self, name: str, source: str) -> "Module":
        """Index a reference module written by a rule (published definitions as Python source) next to the repo's
        modules, so that the same evaluator turns it into terms.  It is not part of the digest / file count."""
        tree = ast.parse(source, filename=f"<{name}>")
        m = Module(name, f"<{name}>", f"<{name}>", tree, source)
        self.modules[name] = m
        before = set(self.classes)
        self._index_module(m)
        for q in set(self.classes) - before:
            c = self.classes[q]
            for b in c.base_exprs:
                bc = self.resolve_class_expr(c.module, b)
                if bc is not None:
                    c.bases.append(bc)
                    bc.subclasses.append(c)
        return m

    def digest(self) -> str:
        h = hashlib.sha256()
        for name in sorted(self.modules):
            if self.modules[name].path.startswith("<"):
                continue
            h.update(name.encode())
            h.update(self.modules[name].source.encode())
        return h.hexdigest()[:16]

    def _index_module(self, m: Module) -> None:
        pkg_parts = m.name.split(".") if m.is_package else m.name.split(".")[:-1]

        def handle(stmts: list[ast.stmt]) -> None:
            for st in stmts:
                if isinstance(st, ast.Import):
                    for a in st.names:
                        m.imports[a.asname or a.name.split(".")[0]] = a.name if a.asname else a.name.split(".")[0]
                elif isinstance(st, ast.ImportFrom):
                    if st.level:
                        base = pkg_parts[: len(pkg_parts) - (st.level - 1)]
                        target = ".".join(base + ([st.module] if st.module else []))
                    else:
                        target = st.module or ""
                    for a in st.names:
                        m.imports[a.asname or a.name] = f"{target}.{a.name}"
                elif isinstance(st, ast.FunctionDef):
                    f = Func(f"{m.name}.{st.name}", m, st, None, tuple(_decorator_name(d) for d in st.decorator_list))
                    m.functions[st.name] = f
                    self.functions[f.qname] = f
                elif isinstance(st, ast.ClassDef):
                    self._index_class(m, st)
                elif isinstance(st, ast.Assign):
                    for t in st.targets:
                        if isinstance(t, ast.Name):
                            m.constants[t.id] = st.value
                        elif isinstance(t, ast.Tuple) and isinstance(st.value, ast.Tuple) and len(t.elts) == len(st.value.elts):
                            for tt, vv in zip(t.elts, st.value.elts):
                                if isinstance(tt, ast.Name):
                                    m.constants[tt.id] = vv
                elif isinstance(st, ast.AnnAssign) and isinstance(st.target, ast.Name) and st.value is not None:
                    m.constants[st.target.id] = st.value
                elif isinstance(st, ast.If):
                    # `if TYPE_CHECKING:` imports and the like
                    handle(st.body)
                    handle(st.orelse)
                elif isinstance(st, ast.Try):
                    handle(st.body)

        handle(m.tree.body)

    def _index_class(self, m: Module, node: ast.ClassDef) -> None:
        c = Cls(f"{m.name}.{node.name}", m, node, list(node.bases))
        for d in node.decorator_list:
            if _decorator_name(d) == "dataclass":
                c.is_dataclass = True
                if isinstance(d, ast.Call):
                    for kw in d.keywords:
                        if kw.arg and isinstance(kw.value, ast.Constant):
                            c.dataclass_kw[kw.arg] = kw.value.value
        for st in node.body:
            if isinstance(st, ast.FunctionDef):
                f = Func(f"{c.qname}.{st.name}", m, st, c, tuple(_decorator_name(d) for d in st.decorator_list))
                c.methods[st.name] = f
                self.functions[f.qname] = f
                self.methods_by_name.setdefault(st.name, []).append(f)
            elif isinstance(st, ast.AnnAssign) and isinstance(st.target, ast.Name):
                c.fields[st.target.id] = st.annotation
                if st.value is not None:
                    c.field_defaults[st.target.id] = st.value
        m.classes[node.name] = c
        self.classes[c.qname] = c
        self.classes_by_name.setdefault(node.name, []).append(c)

    # ------------------------------------------------------------------ resolution
    def resolve_qualified(self, q: str, _depth: int = 0) -> Func | Cls | tuple[str, Module, ast.expr] | Module | None:
        """Resolve a dotted name to a repo entity (following re-exports)."""
        if _depth > 8:
            return None
        if q in self.functions:
            return self.functions[q]
        if q in self.classes:
            return self.classes[q]
        if q in self.modules:
            return self.modules[q]
        if "." in q:
            head, _, tail = q.rpartition(".")
            if head in self.modules:
                mod = self.modules[head]
                if tail in mod.functions:
                    return mod.functions[tail]
                if tail in mod.classes:
                    return mod.classes[tail]
                if tail in mod.constants:
                    # alias such as `Q = QFactor`
                    v = mod.constants[tail]
                    if isinstance(v, ast.Name):
                        r = self.resolve_name(mod, v.id, _depth + 1)
                        if isinstance(r, (Func, Cls)):
                            return r
                    return ("const", mod, v)
                if tail in mod.imports:
                    return self.resolve_qualified(mod.imports[tail], _depth + 1)
            r = self.resolve_qualified(head, _depth + 1)
            if isinstance(r, Cls):
                f = r.find_method(tail)
                if f:
                    return f
        return None

    def resolve_name(self, m: Module, name: str, _depth: int = 0) -> Any:
        if name in m.functions:
            return m.functions[name]
        if name in m.classes:
            return m.classes[name]
        if name in m.imports:
            tgt = m.imports[name]
            r = self.resolve_qualified(tgt, _depth + 1)
            if r is not None:
                return r
            return ("external", tgt)
        if name in m.constants:
            v = m.constants[name]
            if isinstance(v, ast.Name) and v.id != name:
                r = self.resolve_name(m, v.id, _depth + 1)
                if isinstance(r, (Func, Cls)):
                    return r
            return ("const", m, v)
        return None

    def resolve_class_expr(self, m: Module, e: ast.expr) -> Cls | None:
        if isinstance(e, ast.Name):
            r = self.resolve_name(m, e.id)
            return r if isinstance(r, Cls) else None
        if isinstance(e, ast.Attribute):
            q = dotted(e)
            if q:
                head = q.split(".")[0]
                if head in m.imports:
                    r = self.resolve_qualified(m.imports[head] + q[len(head):])
                    return r if isinstance(r, Cls) else None
        if isinstance(e, ast.Subscript):
            return self.resolve_class_expr(m, e.value)
        return None

    def cls(self, name: str) -> Cls:
        """Class by short or qualified name; AnalysisError if missing/ambiguous."""
        if name in self.classes:
            return self.classes[name]
        cands = self.classes_by_name.get(name, [])
        if len(cands) == 1:
            return cands[0]
        if not cands:
            raise AnalysisError(f"anchor class vanished: {name}")
        raise AnalysisError(f"ambiguous class name {name}: {[c.qname for c in cands]}")

    def func(self, qname: str) -> Func:
        r = self.functions.get(qname)
        if r is None:
            # allow Class.method with short class name / module function by short module
            r2 = self.resolve_qualified(qname)
            if isinstance(r2, Func):
                return r2
            raise AnalysisError(f"anchor function vanished: {qname}")
        return r

    def has_func(self, qname: str) -> bool:
        return qname in self.functions or isinstance(self.resolve_qualified(qname), Func)

    def funcs_in_module(self, modname: str) -> list[Func]:
        m = self.modules.get(modname)
        if m is None:
            raise AnalysisError(f"anchor module vanished: {modname}")
        out = list(m.functions.values())
        for c in m.classes.values():
            out.extend(c.methods.values())
        return out


def dotted(e: ast.expr) -> str | None:
    parts = []
    while isinstance(e, ast.Attribute):
        parts.append(e.attr)
        e = e.value
    if isinstance(e, ast.Name):
        parts.append(e.id)
        return ".".join(reversed(parts))
    return None


def unparse(n: ast.AST) -> str:
    try:
        return ast.unparse(n)
    except Exception:  # pragma: no cover
        return "<?>"
