"""C03 -- IDC estimands (refinement to Shpitser & Pearl 2008, IDC).

R3.1  rule-2 test: for ALL outcomes y, y ⟂ z | X ∪ (Z∖{z}) in G with edges into X and out of z removed.
R3.2  exchange: on success recurse with (Y, X ∪ {z}, Z ∖ {z}) on the same graph and estimand; every condition is tried.
R3.3  base case: identify on (Y ∪ Z, X, ∅), normalised by the sum over Y (not over Z).
R3.4  only `Unidentifiable` escapes: internal raises are dead; inherits ID's rules (C01 line table, C02 totality, R1.0) and
      C04's separation pipeline, re-run here; normalize_marginalize is R13.4.
"""

from __future__ import annotations

from ..model import AnalysisError, Model
from ..report import Report
from ..setalg import SetAlg, compare, f_and, f_not, f_or, show_formula, show_row
from ..symeval import Evaluator
from ..terms import Term, const, mapterm, show, subterms, var
from .common import NXMG, VARIABLE, construct, loc, return_paths, short, typed, kwargs_of
from .dslcommon import concrete_expression_classes
from .idcommon import ID, IDENT, IDENTIFY, ID_PRIMS, ID_PRIM_METHODS, Ref, exc_class, make_sa
from . import c01, c04, c13

CI = "y0.algorithm.conditional_independencies.are_d_separated"
RULE2 = f"{ID}.id_c.rule_2_of_do_calculus_applies"
IDC = f"{ID}.id_c.idc"


def run(model: Model, rep: Report, tier: str) -> None:
    rep.level = "other"
    rep.explanation = (
        "idc() and rule_2_of_do_calculus_applies() are evaluated symbolically with identify and are_d_separated as primitives. The "
        "rule-2 test must be all_{y∈Y} sep(G with edges into X and out of z removed; y, z | X ∪ (Z∖{z})): receiver term (the two surgeries "
        "commute, either order accepted), quantifier, and the conditioning set by truth table over (n∈X, n∈Z, n=z). The exchange step and the "
        "base case are compared as query triples by truth table; the normaliser's range must be the outcomes. The ValueError inside "
        "exchange_observation_with_action is shown unreachable (z ∈ Z on that path). ID's own rules (line table, totality), the separation "
        "pipeline (C04) and normalize_marginalize (R13.4) are re-run. The value identity is the paper's theorem."
    )
    rep.trusted_base = ["Shpitser & Pearl 2008 (IDC soundness)", "C01/C02 rules for ID (re-run)", "C04 rules for the separation oracle (re-run)", "C14"]
    rep.floors = {"R3.1": 1, "R3.2": 1, "R1.1": 1, "R4.1": 1, "R13.4": 2}
    from ..refcmp import load_reference, run_table
    from .common import graph_rewrite, rewriter
    from .idcommon import id_rewrite

    load_reference(model, "yvref.c03", "c03_ref.py")
    V = ("cls", VARIABLE)
    I = ("cls", IDENT)

    def mk(model_, prims):
        return lambda: Evaluator(model_, primitives=set(ID_PRIMS) | set(prims), prim_methods=set(ID_PRIM_METHODS))

    table = [
        ("R3.1", RULE2, "rule_2", {"identification": I, "condition": V}, (IDENTIFY, CI), "rule-2",
         "for ALL outcomes y: y is separated from z given X ∪ (Z∖{z}) in G with the edges into X and the edges out of z removed"),
        ("R3.2", IDC, "idc_algorithm", {"identification": I}, (IDENTIFY, CI, RULE2), "exchange-and-base-case",
         "the first condition passing rule 2 becomes an action -- (Y, X ∪ {z}, Z∖{z}) on the same graph and distribution --; when none does, "
         "ID on (Y ∪ Z, X) divided by its sum over Y; nothing but ID's refusal escapes"),
    ]
    run_table(model, rep, table, "yvref.c03", mk, SetAlg(rewriter(graph_rewrite, id_rewrite)), construct=construct, loc=loc)
    # ---------------------------------------------------------------- inherited
    c01.r1_0(model, rep)
    c01.r1_1(model, rep)
    c04.analyse_are_d_separated(model, rep)
    classes = concrete_expression_classes(model)
    c13.r13_4_marginalize(model, rep, classes)


def _query_fields(value: Term) -> dict:
    """Fields of the (un-rewritten) Query record inside a recursive call."""
    for s in subterms(value):
        if s[0] == "rec" and s[1].endswith(".Query"):
            return dict(s[2])
    return {}
