"""C03 -- IDC estimands (refinement to Shpitser & Pearl 2008, IDC).

R3.1  rule-2 test: for ALL outcomes y, y ⟂ z | X ∪ (Z∖{z}) in G with edges into X and out of z removed.
R3.2  exchange: on success recurse with (Y, X ∪ {z}, Z ∖ {z}) on the same graph and estimand; every condition is tried.
R3.3  base case: identify on (Y ∪ Z, X, ∅), normalised by the sum over Y (not over Z).
R3.4  only `Unidentifiable` escapes: internal raises are dead; inherits ID's rules (C01 line table, C02 totality, R1.0) and
      C04's separation pipeline, re-run here; normalize_marginalize is R13.4.
"""

from __future__ import annotations

from ..model import AnalysisError, Model
from ..report import Report
from ..setalg import SetAlg, compare, f_and, f_not, f_or, show_formula, show_row
from ..symeval import Evaluator
from ..terms import Term, const, mapterm, show, subterms, var
from .common import NXMG, VARIABLE, construct, loc, return_paths, short, typed, kwargs_of
from .dslcommon import concrete_expression_classes
from .idcommon import ID, IDENT, IDENTIFY, ID_PRIMS, ID_PRIM_METHODS, Ref, exc_class, make_sa
from . import c01, c04, c13

CI = "y0.algorithm.conditional_independencies.are_d_separated"
RULE2 = f"{ID}.id_c.rule_2_of_do_calculus_applies"
IDC = f"{ID}.id_c.idc"


def run(model: Model, rep: Report, tier: str) -> None:
    rep.level = "other"
    rep.explanation = (
        "idc() and rule_2_of_do_calculus_applies() are evaluated symbolically with identify and are_d_separated as primitives. The "
        "rule-2 test must be all_{y∈Y} sep(G with edges into X and out of z removed; y, z | X ∪ (Z∖{z})): receiver term (the two surgeries "
        "commute, either order accepted), quantifier, and the conditioning set by truth table over (n∈X, n∈Z, n=z). The exchange step and the "
        "base case are compared as query triples by truth table; the normaliser's range must be the outcomes. The ValueError inside "
        "exchange_observation_with_action is shown unreachable (z ∈ Z on that path). ID's own rules (line table, totality), the separation "
        "pipeline (C04) and normalize_marginalize (R13.4) are re-run. The value identity is the paper's theorem."
    )
    rep.trusted_base = ["Shpitser & Pearl 2008 (IDC soundness)", "C01/C02 rules for ID (re-run)", "C04 rules for the separation oracle (re-run)", "C14"]
    rep.floors = {"R3.1": 1, "R3.2": 1, "R3.3": 1, "R3.4": 1, "R1.1": 7, "R4.1": 1, "R4.2": 1, "R13.4": 2}
    sa = make_sa()
    n = var("%n")
    # ---------------------------------------------------------------- R3.1
    f = model.func(RULE2)
    ev = Evaluator(model, primitives=set(ID_PRIMS) | {IDENTIFY, CI}, prim_methods=set(ID_PRIM_METHODS))
    ident = typed(ev, "identification", ("cls", IDENT))
    z = typed(ev, "condition", ("cls", VARIABLE))
    ref = Ref(ident)
    G, X, Y = ref.G, ref.X, ref.Y
    Z = ("attr", ref.q, "conditions")
    rets = return_paths(ev.run(f, {"identification": ident, "condition": z}))
    problems = []
    from .idcommon import quantifier_of, witness_normalise
    v = quantifier_of(rets)
    if v is None:
        problems.append(f"{len(rets)} return paths")
    else:
        if v[0] != "all":
            problems.append("rule 2 must hold for ALL outcomes" + (" (it is tested with any(): a condition separated from one outcome only would be exchanged)" if v[0] == "any" else ""))
        comp = v[1] if v[0] in ("all", "any") else None
        if not (comp and comp[0] == "comp" and len(comp[3]) == 1):
            problems.append("not a quantified separation test")
        else:
            y_, it, conds = comp[3][0]
            if sa.canon_top(("setof", it)) != sa.canon_top(("setof", Y)) or conds:
                problems.append("the quantifier does not range over exactly the outcomes")
            call = comp[2]
            while call[0] == "truth":
                call = call[1]
            if not (call[0] == "call" and call[1] == CI):
                problems.append("the test is not are_d_separated")
            else:
                kw = kwargs_of(call)
                if {kw.get("a"), kw.get("b")} != {y_, z}:
                    problems.append("separation is not tested between the outcome and the condition")
                # conditioning set
                want = f_or(sa.member(n, X), f_and(sa.member(n, Z), f_not(sa.eq_atom(n, z))))
                eq, row, _ = compare(sa.member(n, kw.get("conditions")), want)
                if not eq:
                    problems.append(f"the conditioning set is not X ∪ (Z ∖ {{z}}): differs for a node with [{show_row(row)}]")
                # graph: remove_in_edges(X) and remove_out_edges({z}) of G, in either order
                g = sa.rewrite(kw.get("graph"))
                ops = []
                while g[0] == "meth" and g[2] in ("remove_in_edges", "remove_out_edges", "remove_nodes_from", "subgraph"):
                    ops.append((g[2], kwargs_of(g).get("vertices")))
                    g = g[1]
                opd = dict(ops)
                if g != G or len(ops) != 2 or set(opd) != {"remove_in_edges", "remove_out_edges"}:
                    problems.append("the test graph is not G with two surgeries (edges into X removed, edges out of z removed): " + short(show(kw.get("graph")), 160))
                else:
                    if not compare(sa.member(n, opd["remove_in_edges"]), sa.member(n, X))[0]:
                        problems.append("incoming edges are removed for " + short(show(opd["remove_in_edges"]).replace("identification.", ""), 60) + ", not for the treatments X (G_X̄ is required)")
                    roe = opd["remove_out_edges"]
                    if roe == z:
                        roe = ("setlit", (z,))
                    if not compare(sa.member(n, roe), sa.eq_atom(n, z))[0]:
                        problems.append("outgoing edges are removed for " + short(show(opd["remove_out_edges"]).replace("identification.", ""), 60) + ", not for the condition z")
    (rep.refuted if problems else rep.proven)("R3.1", construct(f, "rule-2"), "; ".join(problems), loc(f), sample={"test": short(show(rets[0].value), 500) if rets else ""})
    # ---------------------------------------------------------------- R3.2 / R3.3 / R3.4
    f = model.func(IDC)
    ev = Evaluator(model, primitives=set(ID_PRIMS) | {IDENTIFY, CI, RULE2}, prim_methods=set(ID_PRIM_METHODS))
    ident = typed(ev, "identification", ("cls", IDENT))
    ref = Ref(ident)
    G, X, Y, P = ref.G, ref.X, ref.Y, ref.P
    Z = ("attr", ref.q, "conditions")
    paths = [witness_normalise(p_) for p_ in ev.run(f, {"identification": ident})]
    p2, p3, p4 = [], [], []
    seen_rec = seen_base = False
    for p in paths:
        if p.kind == "raise":
            cls = exc_class(p)
            if cls == "Unidentifiable":
                continue
            fm = f_and(*[sa.cond(sa.rewrite(c)) for c in p.conds])
            if compare(fm, False)[0]:
                continue
            p4.append(f"idc() can fail with {cls} when [{short(show_formula(fm), 200)}]")
            continue
        v = sa.rewrite(p.value)
        if v[0] == "op" and v[1] == "/" and v[3][0] == "meth" and v[3][2] == "marginalize" and v[3][1] == v[2]:
            # e / e.marginalize(r) is e.normalize_marginalize(r)  (that identity is R13.4's obligation for normalize_marginalize)
            r_ = kwargs_of(v[3]).get("ranges", v[3][3][0] if v[3][3] else None)
            v = ("meth", v[2], "normalize_marginalize", (), (("ranges", r_),))
        if v[0] == "recurse" and v[1] == IDC:
            seen_rec = True
            zs = [c[1] for c in p.conds if c[0] == "iter-elem"]
            if len(zs) != 1 or sa.canon_top(("setof", [c[2] for c in p.conds if c[0] == "iter-elem"][0])) != sa.canon_top(("setof", Z)):
                p2.append("the exchanged variable is not drawn from the conditions")
                continue
            zz = zs[0]
            if not any(c[0] == "call" and c[1] == RULE2 and kwargs_of(c).get("condition") == zz and kwargs_of(c).get("identification") == ident for c in p.conds):
                p2.append("the exchange is not guarded by rule 2 for that very condition")
            i2 = v[2][0]
            if i2[0] != "IDENT":
                p2.append("recursion is not on an Identification")
                continue
            q = i2[1]
            kwq = _query_fields(p.value)
            checks = (("outcomes", q[1], sa.member(n, Y)), ("treatments", q[2], f_or(sa.member(n, X), sa.eq_atom(n, zz))),
                      ("conditions", kwq.get("conditions"), f_and(sa.member(n, Z), f_not(sa.eq_atom(n, zz)))))
            for nm, got, want in checks:
                if got is None or not compare(sa.member(n, got), want)[0]:
                    p2.append(f"after the exchange the {nm} are not " + {"outcomes": "Y", "treatments": "X ∪ {z}", "conditions": "Z ∖ {z}"}[nm])
            if i2[2] != G:
                p2.append("the exchange changes the graph")
            if i2[3] != P:
                p2.append("the exchange changes the estimand")
        elif v[0] == "meth" and v[2] == "normalize_marginalize":
            seen_base = True
            inner = v[1]
            rng = kwargs_of(v).get("ranges")
            if not compare(sa.member(n, rng), sa.member(n, Y))[0]:
                p3.append("the joint effect is normalised by a sum over " + short(show(rng).replace("identification.", ""), 60) + ", not over the outcomes Y: P(y,z|do x)/Σ_y P(y,z|do x) is required")
            if not (inner[0] == "call" and inner[1] == IDENTIFY):
                p3.append("the base case does not call identify")
            else:
                i3 = sa.rewrite(kwargs_of(inner).get("identification"))
                if i3[0] != "IDENT":
                    p3.append("identify is not called on an Identification")
                else:
                    if not compare(sa.member(n, i3[1][1]), f_or(sa.member(n, Y), sa.member(n, Z)))[0]:
                        p3.append("the base case does not identify the joint of outcomes and remaining conditions (Y ∪ Z)")
                    if not compare(sa.member(n, i3[1][2]), sa.member(n, X))[0]:
                        p3.append("the base case changes the treatments")
                    if i3[2] != G or i3[3] != P:
                        p3.append("the base case changes graph or estimand")
            if not any(c[0] == "forall-not" for c in p.conds):
                p3.append("the base case is reached without having tried every condition")
        else:
            p3.append("unexpected result of idc: " + short(show(p.value), 160))
    if not seen_rec:
        p2.append("idc never exchanges a condition for an action")
    if not seen_base:
        p3.append("idc has no base case")
    (rep.refuted if p2 else rep.proven)("R3.2", construct(f, "exchange"), "; ".join(sorted(set(p2))), loc(f))
    (rep.refuted if p3 else rep.proven)("R3.3", construct(f, "base-case"), "; ".join(sorted(set(p3))), loc(f))
    (rep.refuted if p4 else rep.proven)("R3.4", construct(f, "only-Unidentifiable-escapes"), "; ".join(sorted(set(p4))), loc(f))
    # ---------------------------------------------------------------- inherited
    c01.r1_0(model, rep)
    fi, ev1, ident1, paths1, impl, results, sa1, ref1 = c01.match_lines(model, rep)
    for name, (best, rf, rv) in results.items():
        ok = best is not None and best[1] and best[2]
        (rep.proven if ok else rep.refuted)("R1.1", construct(fi, name), "" if ok else f"ID {name} deviates from the published line (details under C01)", loc(fi))
    c04.analyse_are_d_separated(model, rep)
    classes = concrete_expression_classes(model)
    c13.r13_4_marginalize(model, rep, classes)


def _query_fields(value: Term) -> dict:
    """Fields of the (un-rewritten) Query record inside a recursive call."""
    for s in subterms(value):
        if s[0] == "rec" and s[1].endswith(".Query"):
            return dict(s[2])
    return {}
