"""C10 -- canonicalisation never changes what an expression means.

R10.1  every branch of Canonicalizer.canonicalize is value preserving (exponent vectors / field-flow), by
       structural induction: the recursive call on a strict sub-term denotes its argument.
R10.2  dispatch exhaustive for the classes in the property's quantifier.
R10.3  canonical_expr_equal canonicalises both sides with one ordering and compares with ==.
Inherits R13.1-R13.3 for everything the canonicaliser calls (Sum.safe(simplify=True), Product.safe, /).
"""

from __future__ import annotations

from ..model import AnalysisError, Model
from ..monomial import Denoter, Mono
from ..report import Report, REFUTED
from ..setalg import SetAlg
from ..symeval import Evaluator, dnf_paths
from ..terms import is_term as is_term
from ..terms import Term, const, show, subterms, var
from .common import construct, exc_name, loc, return_paths, short, typed
from .dslcommon import DSL, DSL_PRIMS, EXPR, classes_consistent, concrete_expression_classes, kind_of, mentions
from . import c13

CAN = "y0.mutate.canonicalize_expr"
QUANT = ("Probability", "PopulationProbability", "Sum", "Product", "Fraction", "One", "Zero")


FLATTENERS: dict = {}  # qname -> "seq" (takes the factors) | "product" (takes a Product); filled by find_flatteners() on every run


class CanonDenoter(Denoter):
    """recurse(canonicalize, x) denotes x (induction hypothesis); flatten helpers preserve the product."""

    def d(self, t: Term) -> Mono:
        if t[0] == "recurse" and str(t[1]).endswith("canonicalize"):
            args = list(t[2]) + [v for _, v in t[3]]
            return self.d(args[-1])
        return super().d(t)

    def d_seq(self, ex: Term) -> Mono:
        h = ex[0]
        if h in ("call", "recurse") and isinstance(ex[1], str) and ex[1] in FLATTENERS:
            arg = (list(ex[2]) + [v for _, v in ex[3]])[0]
            # a verified flattener: the product of what it yields is the product of what it was given
            return self.d(arg) if FLATTENERS[ex[1]] in ("product", "expr") else self.d_seq(arg)
        if h == "call" and ex[1] in ("iter", "list", "tuple") and len(ex[2]) == 1:
            return self.d_seq(ex[2][0])
        if h == "comp" and len(ex[3]) == 2 and ex[2] == ex[3][1][0] and not ex[3][1][2]:
            # (f for s in S for f in FLAT(g(s))): the factors of g(s), for every s  --  Π = Π_s g(s)
            it2 = ex[3][1][1]
            while it2[0] == "call" and it2[1] in ("iter", "list", "tuple") and len(it2[2]) == 1:
                it2 = it2[2][0]
            if it2[0] in ("call", "recurse") and isinstance(it2[1], str) and FLATTENERS.get(it2[1]) in ("expr", "product"):
                arg = (list(it2[2]) + [v for _, v in it2[3]])[0]
                return self.d_seq(("comp", ex[1], arg, (ex[3][0],)))
        if h == "comp" and len(ex[3]) == 1:
            pat, it, conds = ex[3][0]
            elt = ex[2]
            # map of a value-preserving function over a sequence
            if not conds and elt[0] == "recurse" and (list(elt[2]) + [v for _, v in elt[3]])[-1] == pat:
                return self.d_seq(it)
            if not conds and elt == pat:
                return self.d_seq(it)
            # a filter `f != D` / `f == D` over a sequence: removes *every* copy of D
            if elt == pat and len(conds) == 1 and conds[0][0] in ("ne",) and pat in conds[0][1:]:
                other = conds[0][2] if conds[0][1] == pat else conds[0][1]
                return self.d_seq(it).mul(Mono({("all-copies-of", other, it): 1}), -1)
        return super().d_seq(ex)


def run(model: Model, rep: Report, tier: str) -> None:
    rep.level = "other"
    rep.explanation = (
        "Canonicalizer.canonicalize is evaluated symbolically once per concrete Expression class (so its isinstance "
        "dispatch resolves); each return of each branch is denoted as an exponent vector in which the recursive call "
        "canonicalize(sub) stands for sub (structural induction on strict sub-terms) and compared with the vector of "
        "the input; the Probability branch is a field-flow check (children stay children, parents stay parents, "
        "same class/population through _new, sorted = permutation); the Sum branch must hand the same ranges to "
        "Sum.safe. Value preservation of Sum.safe/Sum.simplify, Product.safe and the operators is R13.1-R13.3, "
        "re-run here. Decides that every rewrite step is an identity; not numeric values; a == b => a/b = 1 needs b != 0."
    )
    rep.trusted_base = ["sorted() is a permutation", "the recursion is on strict sub-terms (visible in the AST)", "R13.1-R13.3 obligations re-checked in this run"]
    rep.floors = {"R10.1": 9, "R10.2": 7, "R10.3": 1, "R13.1": 40, "R13.3": 4}
    classes = concrete_expression_classes(model)
    canon = model.func(f"{CAN}.Canonicalizer.canonicalize")
    canon_cls = model.cls(f"{CAN}.Canonicalizer")
    helpers = find_flatteners(model, rep)
    prims = set(DSL_PRIMS) | set(helpers)
    for K in classes:
        ev = Evaluator(model, primitives=prims, prim_methods={"_new", "__truediv__", "__mul__"})
        slf = typed(ev, "self", ("cls", canon_cls.qname))
        e = typed(ev, "expression", ("cls", K.qname))
        ev.exact_terms.add(e)
        paths = dnf_paths(ev.run(canon, {"expression": e}, self_term=slf))
        rets = return_paths(paths)
        in_quant = K.name in QUANT
        # R10.2
        if in_quant:
            bad = [p for p in paths if p.kind == "raise" and exc_name(p) == "TypeError" and not p.conds]
            if not rets or bad:
                rep.refuted("R10.2", construct(canon, f"dispatch:{K.name}"), f"{K.name} reaches `raise TypeError` (no branch handles it)", loc(canon))
            else:
                rep.proven("R10.2", construct(canon, f"dispatch:{K.name}"), loc=loc(canon))
        else:
            continue
        kself = kind_of(K)
        for pi, p in enumerate(rets):
            cons = construct(canon, f"{K.name}#path{pi}")
            v = p.value
            if K.is_subclass_of("Probability"):
                _check_probability_branch(rep, canon, cons, e, v, p)
                continue
            if K.name == "Sum":
                _check_sum_branch(rep, canon, cons, e, v, p)
                continue

            def cls_of_atom(t, e=e, kself=kself):
                if t == e:
                    return kself
                return None

            dn = CanonDenoter(cls_of_atom)
            want = dn.d(e)
            # equalities on the path identify atoms; isinstance(canon(x), One) makes x denote 1
            eqs = [(c[1], c[2]) for c in p.conds if c[0] == "eq"]
            ones = [c[1] for c in p.conds if c[0] == "isinstance" and "One" in str(c[2])]
            got = dn.d(v)
            for a, b in eqs:
                da, db = dn.d(a), dn.d(b)
                want = want.mul(da, -1).mul(db)  # a == b: replace one by the other
            for o in ones:
                want = want.mul(dn.d(o), 1) if False else want
                got = got.mul(dn.d(o), -1) if False else got
            # normalise both by the facts: divide out terms known to be 1
            for o in ones:
                do = dn.d(o)
                for k_, e_ in do.exp.items():
                    for m in (want, got):
                        if k_ in m.exp:
                            del m.exp[k_]
            sample = {"returned": short(show(v), 200), "vector": got.show(), "input": want.show()}
            if got.unknown:
                rep.unknown("R10.1", cons, f"cannot denote {short(show(v), 160)}: {got.unknown}", loc(canon, p.line))
            elif got.same(want):
                rep.proven("R10.1", cons, loc=loc(canon, p.line), sample=sample)
            else:
                extra = ""
                if any(k_[0] == "all-copies-of" for k_ in got.exp):
                    extra = " (a filter removes every factor equal to the denominator, not one of them)"
                rep.refuted("R10.1", cons, f"branch returns {got.show()} but the input denotes {want.show()}{extra}", loc(canon, p.line), sample=sample)
    # R10.3
    from ..refcmp import load_reference, run_table
    load_reference(model, "yvref.c10", "c10_ref.py")
    EX = ("cls", EXPR)

    def mk3(model_, prims):
        # canonicalize() and ensure_ordering() are looked into (an explicit ordering is passed through whatever the expression is);
        # the canonicaliser object's own method is the primitive
        return lambda: Evaluator(model_, primitives=set(prims) | {f"{DSL}._upgrade_ordering", f"{CAN}.Canonicalizer.canonicalize"},
                                 prim_methods={"get_variables", "canonicalize"})
    run_table(model, rep, [("R10.3", f"{CAN}.canonical_expr_equal", "canonically_equal", {"left": EX, "right": EX}, (), "same-ordering",
                            "both sides are canonicalised with ONE ordering that covers the variables of both and compared with ==")],
              "yvref.c10", mk3, SetAlg(), construct=construct, loc=loc)
    # inherited obligations
    c13.r13_1(model, rep, classes)
    c13.r13_1b(model, rep)
    c13.r13_3(model, rep)


def _check_probability_branch(rep, canon, cons, e, v, p):
    problems = []
    ch, pa = ("attr", ("attr", e, "distribution"), "children"), ("attr", ("attr", e, "distribution"), "parents")
    sa = SetAlg()
    if not (v[0] == "meth" and v[2] == "_new" and v[1] == e):
        problems.append("the probability is not rebuilt through its own `_new` (class / population tag may change)")
    else:
        d = (list(v[3]) + [x for _, x in v[4]])[0]
        if not (d[0] == "rec" and d[1].endswith("Distribution")):
            problems.append("not a Distribution")
        else:
            fl = dict(d[2])
            for fld, src, other in (("children", ch, pa), ("parents", pa, ch)):
                t = fl.get(fld)
                if t is None:
                    problems.append(f"{fld} missing")
                    continue
                core = sa.strip(t)
                if core != src and t in (("tuplelit", ()), ("listlit", ())) and any(
                        c_[0] == "not" and is_term(c_[1]) and c_[1][0] in ("truth", "nonempty") and c_[1][1] in (src, ("attr", e, fld)) for c_ in p.conds):
                    continue  # the empty sequence IS the input's (empty) collection on a path that tested it to be empty
                if core != src:
                    problems.append(f"`{fld}` of the result is not a permutation of the input's {fld}: {short(show(t), 100)}")
                if mentions(t, other):
                    problems.append(f"`{fld}` of the result reads the input's {'parents' if fld == 'children' else 'children'} (crosses the conditioning bar)")
                if not any(s[0] == "call" and s[1] == "sorted" for s in subterms(t)) and core == src and t != src:
                    pass
    (rep.refuted if problems else rep.proven)("R10.1", cons, "; ".join(problems), loc(canon, p.line), sample={"returned": short(show(v), 240)})


def _check_sum_branch(rep, canon, cons, e, v, p):
    problems = []
    if not (v[0] == "call" and str(v[1]).endswith("Sum.safe")):
        # any other return must be justified by a Zero summand (Σ 0 = 0); returning the summand for One drops |dom|
        conds_zero_only = any(c[0] == "isinstance" and "Zero" in str(c[2]) and "One" not in str(c[2]) for c in p.conds)
        if not conds_zero_only:
            problems.append(f"returns {short(show(v), 100)} instead of a sum over the same ranges (a sum over a constant is not that constant)")
    else:
        kw = dict(v[3])
        inner = kw.get("expression")
        if not (inner and inner[0] == "recurse" and (list(inner[2]) + [x for _, x in inner[3]])[-1] == ("attr", e, "expression")):
            problems.append("the summand is not the canonicalised summand of the input")
        if kw.get("ranges") != ("attr", e, "ranges"):
            problems.append(f"the ranges are {short(show(kw.get('ranges')), 80)}, not the input's ranges")
    (rep.refuted if problems else rep.proven)("R10.1", cons, "; ".join(problems), loc(canon, p.line), sample={"returned": short(show(v), 240)})


def _expr_level_flattener(fn, prm, paths, sa):
    """`def flat(e): if not isinstance(e, Product): yield e; return` / `for s in e.expressions: yield from flat(s)`: the factors of ONE expression
    (itself, unless it is a product).  (ok, why) when the routine has that two-case shape, None when it is something else."""
    from ..setalg import compare, f_and, f_not

    def unwrap(v):
        while v[0] == "call" and v[1] in ("iter", "list", "tuple") and len(v[2]) == 1:
            v = v[2][0]
        return v
    is_prod = sa.cond(("isinstance", prm, (f"{DSL}.Product",)))
    leaf = rec = None
    for p_ in paths:
        c_ = f_and(*[sa.cond(x) for x in p_.conds])
        if compare(c_, is_prod)[0]:
            rec = p_
        elif compare(c_, f_not(is_prod))[0]:
            leaf = p_
    if leaf is None or rec is None:
        return None
    lv = unwrap(leaf.value)
    if lv[0] == "accum" and lv[1] == "concat" and lv[2] == ("listlit", ()):
        return None
    if lv != ("listlit", (prm,)):
        return (False, "an expression that is not a product must be yielded itself, exactly once")
    rv = unwrap(rec.value)
    if not (rv[0] == "accum" and rv[1] == "concat" and unwrap(rv[2]) == ("listlit", ()) and len(rv[4]) == 1):
        return None
    pat, it, conds = rv[4][0]
    if unwrap(it) != ("attr", prm, "expressions") or conds:
        return (False, "a product must be replaced by the factors of ALL of its own expressions")
    pl = unwrap(rv[3])
    if pl[0] in ("recurse", "call") and isinstance(pl[1], str) and (pl[1] == fn.qname or FLATTENERS.get(pl[1]) == "expr"):
        arg = (list(pl[2]) + [v for _, v in pl[3]])[0]
        if arg == pat:
            return (True, "")
    if pl == ("listlit", (pat,)):
        return (False, "nested products are not expanded (one level only)")
    return (False, "a factor of a product is replaced by something that is neither its own factors: " + short(show(pl), 100))


def find_flatteners(model: Model, rep: Report) -> set:
    """The module-level routines of the canonicaliser's module that re-yield the factors they are given, expanding nested products: each is
    verified by induction on its own body (a recursive call, or a call of an already verified sibling, on the factors of a Product denotes that
    Product; any other element is yielded itself; the two cases partition the elements), whatever it is called."""
    from ..setalg import compare, f_and, f_not, f_or

    FLATTENERS.clear()
    mod_funcs = [fn for fn in model.funcs_in_module(CAN) if fn.cls is None and fn.name not in ("canonicalize", "canonical_expr_equal")]
    names = {fn.qname for fn in mod_funcs}
    sa = SetAlg()
    pending = list(mod_funcs)
    verdicts: dict = {}
    # pure delegates: `def flat_product(p): return flat_seq(p.expressions)` / `return flat(p)`.  Two flatteners that call each other are verified by
    # MUTUAL induction: inside the sibling's body a call of the delegate stands for the sibling's own call on the delegate's argument, and once the
    # sibling is verified the delegate denotes what the sibling denotes there (every call goes to strictly smaller structures).
    deleg: dict = {}
    for fn in mod_funcs:
        a = fn.node.args
        params = [x.arg for x in a.posonlyargs + a.args]
        if len(params) != 1:
            continue
        try:
            paths = return_paths(Evaluator(model, primitives=names - {fn.qname}).run(fn, {params[0]: var(params[0])}))
        except Exception:  # noqa: BLE001
            continue
        if len(paths) != 1 or paths[0].conds:
            continue
        v = paths[0].value
        while v[0] == "call" and v[1] in ("iter", "list", "tuple") and len(v[2]) == 1:
            v = v[2][0]
        if v[0] in ("recurse", "call") and isinstance(v[1], str) and v[1] in names and v[1] != fn.qname:
            args_ = list(v[2]) + [x for _, x in v[3]]
            if len(args_) == 1 and args_[0] == var(params[0]):
                deleg[fn.qname] = (v[1], "same", fn)
            elif len(args_) == 1 and args_[0] == ("attr", var(params[0]), "expressions"):
                deleg[fn.qname] = (v[1], "factors", fn)
    for _round in range(3):
        for q_, (sib_, form_, fn_) in sorted(deleg.items()):
            if q_ not in FLATTENERS and sib_ in FLATTENERS:
                k_sib = FLATTENERS[sib_]
                k_new = k_sib if form_ == "same" else "product" if k_sib == "seq" else None
                if k_new is None:
                    verdicts[q_] = (False, "hands the factors of its argument to a routine that expands the factors again", fn_)
                else:
                    FLATTENERS[q_] = k_new
                    verdicts[q_] = (True, "", fn_)
                if fn_ in pending:
                    pending.remove(fn_)
        for fn in list(pending):
            if fn.qname in deleg:
                continue
            a = fn.node.args
            params = [x.arg for x in a.posonlyargs + a.args]
            if len(params) != 1:
                pending.remove(fn)
                continue
            ev = Evaluator(model, primitives=names - {fn.qname})
            prm = var(params[0])
            try:
                paths = return_paths(ev.run(fn, {params[0]: prm}))
            except Exception:  # noqa: BLE001
                pending.remove(fn)
                continue
            if len(paths) == 2:
                k_ = _expr_level_flattener(fn, prm, paths, sa)
                if k_ is not None:
                    verdicts[fn.qname] = (k_[0], k_[1], fn)
                    if k_[0]:
                        FLATTENERS[fn.qname] = "expr"
                        pending.remove(fn)
                    continue
            if len(paths) != 1:
                continue
            seq = paths[0].value
            while seq[0] == "call" and seq[1] in ("iter", "list", "tuple") and len(seq[2]) == 1:
                seq = seq[2][0]
            pieces = []
            while seq[0] == "accum" and seq[1] == "concat":
                pieces.append((seq[3], seq[4]))
                seq = seq[2]
            if seq != ("listlit", ()) or not pieces:
                continue
            kind = None
            conds_all = []
            ok = True
            why = ""
            for payload, gens in pieces:
                if len(gens) != 1:
                    ok, why = False, "nested loops"
                    break
                pat, it, conds = gens[0]
                src = it
                while src[0] == "call" and src[1] in ("iter", "list", "tuple") and len(src[2]) == 1:
                    src = src[2][0]
                k_here = "seq" if src == prm else "product" if src == ("attr", prm, "expressions") else None
                if k_here is None or (kind is not None and kind != k_here):
                    ok, why = False, "does not iterate over what it is given"
                    break
                kind = k_here
                c = f_and(*[sa.cond(x) for x in conds])
                conds_all.append(c)
                pl = payload
                while pl[0] == "call" and pl[1] in ("iter", "list", "tuple") and len(pl[2]) == 1:
                    pl = pl[2][0]
                if pl == ("listlit", (pat,)):
                    continue  # the element itself
                target = pl[1] if pl[0] in ("recurse", "call") and isinstance(pl[1], str) else None
                arg = (list(pl[2]) + [v for _, v in pl[3]])[0] if target is not None and (pl[2] or pl[3]) else None
                if target in deleg and target not in FLATTENERS and arg is not None:
                    target, form_ = deleg[target][0], deleg[target][1]
                    if form_ == "factors":
                        arg = ("attr", arg, "expressions")
                if target is not None and arg is not None and (target == fn.qname or target in FLATTENERS):
                    callee_kind = kind if target == fn.qname else FLATTENERS[target]
                    is_prod = sa.cond(("isinstance", pat, (f"{DSL}.Product",)))
                    guarded = compare(f_and(c, f_not(is_prod)), False)[0]
                    good_arg = arg == (pat if callee_kind == "product" else ("attr", pat, "expressions"))
                    if guarded and good_arg:
                        continue  # Π flatten(factors of a Product x) = x by induction
                    ok, why = False, "a nested call does not expand exactly the factors of a Product element"
                    break
                ok, why = False, "an element is replaced by something that is neither itself nor its own factors: " + short(show(pl), 120)
                break
            if ok:
                total = compare(f_or(*conds_all), True)[0]
                disjoint = all(compare(f_and(conds_all[i], conds_all[j]), False)[0] for i in range(len(conds_all)) for j in range(i + 1, len(conds_all)))
                if not total:
                    ok, why = False, "a factor is dropped while flattening (the cases do not cover every element)"
                elif not disjoint:
                    ok, why = False, "a factor is duplicated while flattening (the cases overlap)"
            verdicts[fn.qname] = (ok, why, fn)
            if ok:
                FLATTENERS[fn.qname] = kind
                pending.remove(fn)
    for q, (ok, why, fn) in sorted(verdicts.items()):
        (rep.proven if ok else rep.refuted)("R10.1", construct(fn, "multiset-preserving"), "" if ok else why, loc(fn))
    # only the (verified or refuted) flatteners stand for their meaning in the branch comparison; any other helper of the module -- a shared
    # short-cut, a named sort key -- is read through like the code it was extracted from
    return (set(FLATTENERS) | set(verdicts)) & names
