"""C10 -- canonicalisation never changes what an expression means.

R10.1  every branch of Canonicalizer.canonicalize is value preserving (exponent vectors / field-flow), by
       structural induction: the recursive call on a strict sub-term denotes its argument.
R10.2  dispatch exhaustive for the classes in the property's quantifier.
R10.3  canonical_expr_equal canonicalises both sides with one ordering and compares with ==.
Inherits R13.1-R13.3 for everything the canonicaliser calls (Sum.safe(simplify=True), Product.safe, /).
"""

from __future__ import annotations

from ..model import AnalysisError, Model
from ..monomial import Denoter, Mono
from ..report import Report, REFUTED
from ..setalg import SetAlg
from ..symeval import Evaluator, dnf_paths
from ..terms import Term, const, show, subterms, var
from .common import construct, exc_name, loc, return_paths, short, typed
from .dslcommon import DSL, DSL_PRIMS, EXPR, classes_consistent, concrete_expression_classes, kind_of, mentions
from . import c13

CAN = "y0.mutate.canonicalize_expr"
QUANT = ("Probability", "PopulationProbability", "Sum", "Product", "Fraction", "One", "Zero")


class CanonDenoter(Denoter):
    """recurse(canonicalize, x) denotes x (induction hypothesis); flatten helpers preserve the product."""

    def d(self, t: Term) -> Mono:
        if t[0] == "recurse" and str(t[1]).endswith("canonicalize"):
            args = list(t[2]) + [v for _, v in t[3]]
            return self.d(args[-1])
        return super().d(t)

    def d_seq(self, ex: Term) -> Mono:
        h = ex[0]
        if h == "call" and isinstance(ex[1], str) and ex[1].startswith(CAN + "._flatten"):
            arg = (list(ex[2]) + [v for _, v in ex[3]])[0]
            if arg[0] in ("var", "attr"):
                # _flatten_product(p): the factors of p, nested products expanded  ==  p
                return self.d(arg)
            return self.d_seq(arg)
        if h == "comp" and len(ex[3]) == 1:
            pat, it, conds = ex[3][0]
            elt = ex[2]
            # map of a value-preserving function over a sequence
            if not conds and elt[0] == "recurse" and (list(elt[2]) + [v for _, v in elt[3]])[-1] == pat:
                return self.d_seq(it)
            if not conds and elt == pat:
                return self.d_seq(it)
            # a filter `f != D` / `f == D` over a sequence: removes *every* copy of D
            if elt == pat and len(conds) == 1 and conds[0][0] in ("ne",) and pat in conds[0][1:]:
                other = conds[0][2] if conds[0][1] == pat else conds[0][1]
                return self.d_seq(it).mul(Mono({("all-copies-of", other, it): 1}), -1)
        return super().d_seq(ex)


def run(model: Model, rep: Report, tier: str) -> None:
    rep.level = "other"
    rep.explanation = (
        "Canonicalizer.canonicalize is evaluated symbolically once per concrete Expression class (so its isinstance "
        "dispatch resolves); each return of each branch is denoted as an exponent vector in which the recursive call "
        "canonicalize(sub) stands for sub (structural induction on strict sub-terms) and compared with the vector of "
        "the input; the Probability branch is a field-flow check (children stay children, parents stay parents, "
        "same class/population through _new, sorted = permutation); the Sum branch must hand the same ranges to "
        "Sum.safe. Value preservation of Sum.safe/Sum.simplify, Product.safe and the operators is R13.1-R13.3, "
        "re-run here. Decides that every rewrite step is an identity; not numeric values; a == b => a/b = 1 needs b != 0."
    )
    rep.trusted_base = ["sorted() is a permutation", "the recursion is on strict sub-terms (visible in the AST)", "R13.1-R13.3 obligations re-checked in this run"]
    rep.floors = {"R10.1": 9, "R10.2": 7, "R10.3": 1, "R13.1": 40, "R13.3": 4}
    classes = concrete_expression_classes(model)
    canon = model.func(f"{CAN}.Canonicalizer.canonicalize")
    canon_cls = model.cls(f"{CAN}.Canonicalizer")
    prims = set(DSL_PRIMS) | {f"{CAN}._flatten_product", f"{CAN}._flatten_expressions"}
    for K in classes:
        ev = Evaluator(model, primitives=prims, prim_methods={"_new", "__truediv__", "__mul__"})
        slf = typed(ev, "self", ("cls", canon_cls.qname))
        e = typed(ev, "expression", ("cls", K.qname))
        ev.exact_terms.add(e)
        paths = dnf_paths(ev.run(canon, {"expression": e}, self_term=slf))
        rets = return_paths(paths)
        in_quant = K.name in QUANT
        # R10.2
        if in_quant:
            bad = [p for p in paths if p.kind == "raise" and exc_name(p) == "TypeError" and not p.conds]
            if not rets or bad:
                rep.refuted("R10.2", construct(canon, f"dispatch:{K.name}"), f"{K.name} reaches `raise TypeError` (no branch handles it)", loc(canon))
            else:
                rep.proven("R10.2", construct(canon, f"dispatch:{K.name}"), loc=loc(canon))
        else:
            continue
        kself = kind_of(K)
        for pi, p in enumerate(rets):
            cons = construct(canon, f"{K.name}#path{pi}")
            v = p.value
            if K.is_subclass_of("Probability"):
                _check_probability_branch(rep, canon, cons, e, v, p)
                continue
            if K.name == "Sum":
                _check_sum_branch(rep, canon, cons, e, v, p)
                continue

            def cls_of_atom(t, e=e, kself=kself):
                if t == e:
                    return kself
                return None

            dn = CanonDenoter(cls_of_atom)
            want = dn.d(e)
            # equalities on the path identify atoms; isinstance(canon(x), One) makes x denote 1
            eqs = [(c[1], c[2]) for c in p.conds if c[0] == "eq"]
            ones = [c[1] for c in p.conds if c[0] == "isinstance" and "One" in str(c[2])]
            got = dn.d(v)
            for a, b in eqs:
                da, db = dn.d(a), dn.d(b)
                want = want.mul(da, -1).mul(db)  # a == b: replace one by the other
            for o in ones:
                want = want.mul(dn.d(o), 1) if False else want
                got = got.mul(dn.d(o), -1) if False else got
            # normalise both by the facts: divide out terms known to be 1
            for o in ones:
                do = dn.d(o)
                for k_, e_ in do.exp.items():
                    for m in (want, got):
                        if k_ in m.exp:
                            del m.exp[k_]
            sample = {"returned": short(show(v), 200), "vector": got.show(), "input": want.show()}
            if got.unknown:
                rep.unknown("R10.1", cons, f"cannot denote {short(show(v), 160)}: {got.unknown}", loc(canon, p.line))
            elif got.same(want):
                rep.proven("R10.1", cons, loc=loc(canon, p.line), sample=sample)
            else:
                extra = ""
                if any(k_[0] == "all-copies-of" for k_ in got.exp):
                    extra = " (a filter removes every factor equal to the denominator, not one of them)"
                rep.refuted("R10.1", cons, f"branch returns {got.show()} but the input denotes {want.show()}{extra}", loc(canon, p.line), sample=sample)
    # flatten helpers: multiset preserving
    for fn in ("_flatten_product", "_flatten_expressions"):
        if not model.has_func(f"{CAN}.{fn}"):
            continue
        f = model.func(f"{CAN}.{fn}")
        ev = Evaluator(model, primitives={f"{CAN}._flatten_product"} - {f.qname})
        paths = return_paths(ev.run(f, {}))
        ok, detail = _check_flatten(paths)
        (rep.proven if ok else rep.refuted)("R10.1", construct(f, "multiset-preserving"), detail, loc(f))
    # R10.3
    f = model.func(f"{CAN}.canonical_expr_equal")
    ev = Evaluator(model, primitives={f"{CAN}.canonicalize", f"{DSL}.ensure_ordering"}, prim_methods={"get_variables"})
    l, r = typed(ev, f.params[0], ("cls", EXPR)), typed(ev, f.params[1], ("cls", EXPR))
    rets = return_paths(ev.run(f, {f.params[0]: l, f.params[1]: r}))
    ok = False
    detail = "canonical_expr_equal must canonicalise both sides with one ordering covering both and compare with =="
    if len(rets) == 1 and rets[0].value[0] == "eq":
        a, b = rets[0].value[1], rets[0].value[2]
        if a[0] == "call" and b[0] == "call" and a[1] == b[1] == f"{CAN}.canonicalize":
            ka, kb = dict(a[3]), dict(b[3])
            ok = {ka.get("expression"), kb.get("expression")} == {l, r} and ka.get("ordering") == kb.get("ordering") and ka.get("ordering") is not None
            if ok:
                o = ka["ordering"]
                ok = mentions(o, l) and mentions(o, r)
                if not ok:
                    detail += "; the ordering does not cover both expressions' variables"
    (rep.proven if ok else rep.refuted)("R10.3", construct(f, "same-ordering"), "" if ok else detail, loc(f))
    # inherited obligations
    c13.r13_1(model, rep, classes)
    c13.r13_1b(model, rep)
    c13.r13_3(model, rep)


def _check_probability_branch(rep, canon, cons, e, v, p):
    problems = []
    ch, pa = ("attr", ("attr", e, "distribution"), "children"), ("attr", ("attr", e, "distribution"), "parents")
    sa = SetAlg()
    if not (v[0] == "meth" and v[2] == "_new" and v[1] == e):
        problems.append("the probability is not rebuilt through its own `_new` (class / population tag may change)")
    else:
        d = (list(v[3]) + [x for _, x in v[4]])[0]
        if not (d[0] == "rec" and d[1].endswith("Distribution")):
            problems.append("not a Distribution")
        else:
            fl = dict(d[2])
            for fld, src, other in (("children", ch, pa), ("parents", pa, ch)):
                t = fl.get(fld)
                if t is None:
                    problems.append(f"{fld} missing")
                    continue
                core = sa.strip(t)
                if core != src:
                    problems.append(f"`{fld}` of the result is not a permutation of the input's {fld}: {short(show(t), 100)}")
                if mentions(t, other):
                    problems.append(f"`{fld}` of the result reads the input's {'parents' if fld == 'children' else 'children'} (crosses the conditioning bar)")
                if not any(s[0] == "call" and s[1] == "sorted" for s in subterms(t)) and core == src and t != src:
                    pass
    (rep.refuted if problems else rep.proven)("R10.1", cons, "; ".join(problems), loc(canon, p.line), sample={"returned": short(show(v), 240)})


def _check_sum_branch(rep, canon, cons, e, v, p):
    problems = []
    if not (v[0] == "call" and str(v[1]).endswith("Sum.safe")):
        # any other return must be justified by a Zero summand (Σ 0 = 0); returning the summand for One drops |dom|
        conds_zero_only = any(c[0] == "isinstance" and "Zero" in str(c[2]) and "One" not in str(c[2]) for c in p.conds)
        if not conds_zero_only:
            problems.append(f"returns {short(show(v), 100)} instead of a sum over the same ranges (a sum over a constant is not that constant)")
    else:
        kw = dict(v[3])
        inner = kw.get("expression")
        if not (inner and inner[0] == "recurse" and (list(inner[2]) + [x for _, x in inner[3]])[-1] == ("attr", e, "expression")):
            problems.append("the summand is not the canonicalised summand of the input")
        if kw.get("ranges") != ("attr", e, "ranges"):
            problems.append(f"the ranges are {short(show(kw.get('ranges')), 80)}, not the input's ranges")
    (rep.refuted if problems else rep.proven)("R10.1", cons, "; ".join(problems), loc(canon, p.line), sample={"returned": short(show(v), 240)})


def _check_flatten(paths):
    if len(paths) != 1:
        return False, f"{len(paths)} paths"
    v = paths[0].value
    if not (v[0] == "call" and v[1] == "iter"):
        return False, "not a generator"
    seq = v[2][0]
    pieces = []
    while seq[0] == "accum" and seq[1] == "concat":
        pieces.append((seq[3], seq[4]))
        seq = seq[2]
    if seq != ("listlit", ()) or len(pieces) != 2:
        return False, "generator body is not `for e in xs: if isinstance(e, Product): yield from flatten(e) else: yield e`: " + short(show(v), 200)
    ok_prod = ok_leaf = False
    for payload, gens in pieces:
        (pat, it, conds), = gens
        if len(conds) != 1:
            return False, "unexpected guard"
        c = conds[0]
        pos = c[0] == "isinstance" and c[1] == pat and "Product" in str(c[2])
        neg = c[0] == "not" and c[1][0] == "isinstance" and c[1][1] == pat and "Product" in str(c[1][2])
        if pos and payload[0] in ("recurse", "call") and pat in (list(payload[2]) + [x for _, x in payload[3]]):
            ok_prod = True
        if neg and payload == ("listlit", (pat,)):
            ok_leaf = True
    if ok_prod and ok_leaf:
        return True, ""
    return False, "a factor is dropped or duplicated while flattening: " + short(show(v), 200)
