"""C13 -- DSL operators and rewrite helpers are identities of probability calculus.

R13.1  operator table: every branch of every __mul__/__truediv__/__rmul__ is an exponent-vector identity
       (for every dynamic class of the right operand the branch admits); Product.safe / Sum.safe summaries.
R13.2  Fraction.simplify/_simplify_parts are value preserving; the cancellation helper matches equal elements
       one-to-one (index-domain coherence + guarded single match).
R13.3  Sum.simplify conserves bound variables: ranges_out = R∖C, children_out = C∖R in every branch.
R13.4  marginalize / normalize_marginalize / conditional.
R13.5  chain / fraction / bayes expansion, contraction, Applier roles.
"""

from __future__ import annotations

import ast
import dataclasses

from ..model import AnalysisError, Model
from ..monomial import Denoter, Mono
from ..report import Report
from ..setalg import SetAlg, accum_as_comp, compare, f_and, f_not, f_or, show_formula, show_row, atoms_of
from ..symeval import Evaluator, dnf_paths, State
from ..terms import EMPTY, NONE, TRUE, Term, const, has_unknown, mapterm, show, subst, subterms, var
from .common import construct, loc, raise_paths, return_paths, short, typed, exc_name
from .dslcommon import ATOMIC, DSL, DSL_PRIMS, EXPR, classes_consistent, concrete_expression_classes, kind_of, mentions


def is_ctor(t: Term, name: str) -> bool:
    return t[0] in ("rec", "new") and str(t[1]).split(".")[-1] == name


def _ev(model, extra_prims=(), prim_methods=()):
    return Evaluator(model, primitives=set(DSL_PRIMS) | set(extra_prims), prim_methods=set(prim_methods))


def run(model: Model, rep: Report, tier: str) -> None:
    rep.level = "other"
    rep.explanation = (
        "Denotation of an Expression is a homomorphism into the multiplicative group of positive functions, so every "
        "return of every operator branch is one integer exponent vector over the atoms in scope (self, other and their "
        "fields, expanded through Fraction/Product/One/Zero according to the branch's isinstance conditions); a branch "
        "is correct iff its vector equals that of the mathematical operation. Each operator method is evaluated "
        "symbolically for every concrete left class and every right class admitted by the path. Sum.simplify, "
        "marginalize/conditional, the expansions and contract are decided by set-membership truth tables of their "
        "range/children/parents sets and by constructor-role checks; the cancellation helper by a one-iteration symbolic "
        "execution of its loop body plus index-domain coherence. Decides that every branch is an algebraic identity; "
        "does not decide numeric values."
    )
    rep.trusted_base = ["denotation of Probability leaves is the definition", "Python sorted() returns a permutation", "tuple/frozenset semantics"]
    rep.floors = {"R13.1": 40, "R13.2": 6, "R13.3": 4, "R13.4": 4, "R13.5": 10, "R13.6": 6}
    classes = concrete_expression_classes(model)
    if len(classes) < 8:
        raise AnalysisError(f"expected >= 8 concrete Expression subclasses, found {[c.name for c in classes]}")
    r13_1(model, rep, classes)
    r13_1b(model, rep)
    r13_2(model, rep)
    r13_3(model, rep)
    r13_4(model, rep, classes)
    r13_5(model, rep)
    r13_6(model, rep, classes)


# ------------------------------------------------------------------------------------------- R13.1
def r13_1(model: Model, rep: Report, classes) -> None:
    done = set()
    for K in classes:
        for opname, sym in (("__mul__", "*"), ("__truediv__", "/"), ("__rmul__", "r*")):
            f = K.find_method(opname)
            if f is None or f.cls is None:
                continue
            ev = _ev(model, prim_methods={"__mul__", "__truediv__", "__rmul__"})
            slf = typed(ev, "self", ("cls", K.qname))
            oth = typed(ev, f.params[1], ("cls", EXPR))
            try:
                paths = dnf_paths(ev.run(f, {f.params[1]: oth}, self_term=slf))
            except Exception as e:  # noqa: BLE001
                rep.unknown("R13.1", construct(f, f"{K.name}"), f"evaluator failed: {e}", loc(f))
                continue
            kself = kind_of(K)
            for pi, p in enumerate(paths):
                poss = classes_consistent(model, classes, p.conds, oth)
                kinds = sorted({kind_of(c) for c in poss})
                for ko in kinds:
                    key = (f.qname, K.name, pi, ko)
                    role = f"{K.name}{'*' if sym != '/' else '/'}{ko}#path{pi}"
                    cons = construct(f, role)

                    def cls_of_atom(t, kself=kself, ko=ko, slf=slf, oth=oth):
                        if t == slf:
                            return kself
                        if t == oth:
                            return ko
                        return None

                    den = Denoter(cls_of_atom)
                    a, b = den.d(slf), den.d(oth)
                    if sym == "*":
                        want = a.mul(b)
                    elif sym == "r*":
                        want = b.mul(a)
                    else:
                        want = a.mul(b, -1)
                    div_by_zero = sym == "/" and ko == "Zero"
                    if p.kind == "raise" and exc_name(p) == "ZeroDivisionError" and not div_by_zero:
                        # raised by Fraction.__post_init__ for a constructed denominator T that is Zero: legitimate iff T
                        # divides the mathematical denominator (or is a Fraction's own denominator: impossible by invariant)
                        zs = [c[1] for c in p.conds if c[0] == "isinstance" and "Zero" in str(c[2])]
                        ok_all = bool(zs)
                        for T in zs:
                            dT = den.d(T)
                            for a_, e_ in dT.exp.items():
                                inv = a_[0] == "attr" and a_[2] == "denominator"
                                if e_ > 0 and not inv and not (want.exp.get(a_, 0) < 0):
                                    ok_all = False
                        if ok_all:
                            rep.proven("R13.1", cons, loc=loc(f, p.line), nontrivial=False, sample={"branch": "ZeroDivisionError only when the mathematical denominator is Zero"})
                        else:
                            rep.refuted("R13.1", cons, f"{K.name} {sym} {ko} raises ZeroDivisionError although the quotient is defined", loc(f, p.line))
                        continue
                    if p.kind == "raise":
                        if div_by_zero and exc_name(p) == "ZeroDivisionError":
                            rep.proven("R13.1", cons, loc=loc(f, p.line), sample={"branch": "x/0 raises ZeroDivisionError"})
                        elif div_by_zero:
                            rep.refuted("R13.1", cons, f"division by Zero must raise ZeroDivisionError, raises {exc_name(p)}", loc(f, p.line))
                        else:
                            rep.refuted("R13.1", cons, f"{K.name} {sym} {ko} raises {exc_name(p)} instead of returning the product/quotient", loc(f, p.line))
                        continue
                    got = den.d(p.value)
                    sample = {"returned": short(show(p.value), 200), "vector": got.show(), "expected": want.show() if not div_by_zero else "raise"}
                    if div_by_zero:
                        if got.unknown == "division by zero":
                            rep.proven("R13.1", cons, loc=loc(f, p.line), sample={"branch": "Fraction(_, 0) raises in __post_init__"})
                        else:
                            rep.refuted("R13.1", cons, f"{K.name} / Zero returns {short(show(p.value), 120)} instead of raising ZeroDivisionError", loc(f, p.line), sample=sample)
                        continue
                    if got.unknown:
                        rep.unknown("R13.1", cons, f"cannot denote {short(show(p.value), 160)}: {got.unknown}", loc(f, p.line), required=False)
                    elif got.same(want):
                        rep.proven("R13.1", cons, loc=loc(f, p.line), sample=sample)
                    else:
                        rep.refuted("R13.1", cons, f"branch returns {short(show(p.value), 160)} = {got.show()}, but {K.name} {sym} {ko} = {want.show()}", loc(f, p.line), sample=sample)


# ------------------------------------------------------------------------------------------- R13.1b
def r13_1b(model: Model, rep: Report) -> None:
    # Product.safe: drops One, absorbs Zero, otherwise a permutation of the factors.
    # Decided by small-scope symbolic evaluation: the factor list is a literal of k <= 3 symbolic factors, each of a known class
    # (One / Zero / Probability / Sum); the evaluator unrolls loops and comprehensions over the literal and folds ==, isinstance, any,
    # len, truthiness by class, so every syntactic form of the routine (comprehension + any, explicit loop with a flag, in-place sort,
    # merged returns) reduces to one outcome per configuration, compared with the definition.  4^0 + ... + 4^3 = 85 configurations.
    import itertools
    f = model.func(f"{DSL}.Product.safe")
    KINDS = ("One", "Zero", "Probability", "Sum")
    problems = []
    n_cfg = 0
    undecided = 0
    configs = [(cfg, None) for k in range(0, 4) for cfg in itertools.product(KINDS, repeat=k)]
    # ... and the same factor given twice (a product is a multiset: x·x is not x)
    configs += [(("Probability", "Probability"), (0, 0)), (("Sum", "Probability", "Sum"), (0, 1, 0)), (("Probability", "One", "Probability"), (0, 1, 0)),
                (("Probability", "Probability", "Probability"), (0, 0, 0))]
    for cfg, same in configs:
        if True:
            n_cfg += 1
            ev = Evaluator(model)
            els = [typed(ev, f"e{i if same is None else same[i]}", ("cls", f"{DSL}.{c}")) for i, c in enumerate(cfg)]
            try:
                ps = dnf_paths(ev.run(f, {"expressions": ("listlit", tuple(els))}, self_term=("ref", f"{DSL}.Product")))
            except Exception as e:  # noqa: BLE001
                undecided += 1
                continue
            ps = [p_ for p_ in ps if not ev.infeasible(p_.conds)]
            if len(ps) != 1 or ps[0].conds or has_unknown(ps[0].value):
                undecided += 1
                continue
            p_ = ps[0]
            nonunit = [e for e, c in zip(els, cfg) if c != "One"]
            label = "Product.safe([" + ", ".join(cfg) + "])"
            if p_.kind != "return":
                problems.append(f"{label} raises {exc_name(p_)}")
                continue
            v = p_.value
            if "Zero" in cfg:
                if not is_ctor(v, "Zero"):
                    problems.append(f"{label} is {short(show(v), 80)}, must be Zero()")
            elif not nonunit:
                if not is_ctor(v, "One"):
                    problems.append(f"{label} is {short(show(v), 80)}, must be One()")
            elif len(nonunit) == 1:
                if v != nonunit[0]:
                    problems.append(f"{label} is {short(show(v), 80)}, must be the single non-unit factor")
            else:
                ok = is_ctor(v, "Product")
                if ok:
                    seq = dict(v[2]).get("expressions") if v[0] == "rec" else dict(v[3]).get("expressions")
                    while seq is not None and seq[0] == "call" and seq[1] in ("tuple", "list", "sorted") and len(seq[2]) == 1:
                        seq = seq[2][0]
                    ok = seq is not None and seq[0] in ("listlit", "tuplelit") and sorted(map(repr, seq[1])) == sorted(map(repr, nonunit))
                if not ok:
                    problems.append(f"{label} is {short(show(v), 100)}, must be a Product of exactly the non-unit factors")
    if problems:
        # a configuration that folds to a wrong outcome is a counterexample, whatever the others do
        rep.refuted("R13.1", construct(f, "summary"), "; ".join(problems[:4]), loc(f))
    elif undecided:
        rep.unknown("R13.1", construct(f, "summary"), f"{undecided} of {n_cfg} small-scope configurations do not reduce to a single outcome (idiom outside the folding rules)", loc(f))
    else:
        rep.proven("R13.1", construct(f, "summary"), loc=loc(f), sample={"configurations": n_cfg, "rule": "Zero absorbs; One is dropped; 0 factors -> One(); 1 -> itself; else Product of exactly the rest"})
    sa = SetAlg()
    x = var("%x")

    # Sum.safe: returns its summand unchanged only for empty ranges or a Zero summand
    f = model.func(f"{DSL}.Sum.safe")
    ev = Evaluator(model, prim_methods={"simplify"}, primitives={f"{DSL}._upgrade_ordering"})
    X = typed(ev, "expression", ("cls", EXPR))
    R = typed(ev, "ranges", ("iter", ("cls", f"{DSL}.Variable")))
    simp = typed(ev, "simplify", "bool")
    paths = dnf_paths(ev.run(f, {"expression": X, "ranges": R, "simplify": simp}, self_term=("ref", f"{DSL}.Sum")))
    classes = concrete_expression_classes(model)
    problems = []
    built = 0
    for p in paths:
        if p.kind != "return":
            continue
        v = p.value
        if v == X:
            poss = classes_consistent(model, classes, p.conds, X)
            empty_ranges = any(_says_empty(sa, c) for c in p.conds)
            if not empty_ranges and not all(k.is_subclass_of("Zero") for k in poss):
                problems.append("returns the summand unchanged (dropping the sum) for a summand that is not Zero: " + ", ".join(k.name for k in poss if not k.is_subclass_of("Zero"))[:120])
        else:
            core = v[1] if v[0] == "meth" and v[2] == "simplify" else v
            if is_ctor(core, "Sum") and core[0] == "rec":
                fld = dict(core[2])
                if fld.get("expression") != X:
                    problems.append("Sum built over something other than the given expression")
                rr = fld.get("ranges")
                if rr is None or not mentions(rr, R):
                    problems.append("Sum ranges do not come from the `ranges` argument")
                built += 1
            else:
                problems.append("unexpected return " + short(show(v), 120))
    if built == 0:
        problems.append("no path builds a Sum")
    if problems:
        rep.refuted("R13.1", construct(f, "summary"), "; ".join(sorted(set(problems))), loc(f))
    else:
        rep.proven("R13.1", construct(f, "summary"), loc=loc(f), sample={"sum-building paths": built})


# ------------------------------------------------------------------------------------------- R13.2
def r13_2(model: Model, rep: Report) -> None:
    helper_q = f"{DSL}.Fraction._simplify_parts_helper"
    fr = model.cls(f"{DSL}.Fraction")
    f = fr.find_method("simplify")
    ev = _ev(model, extra_prims={helper_q}, prim_methods={"__mul__", "__truediv__", "flip"})
    slf = typed(ev, "self", ("cls", fr.qname))
    paths = dnf_paths(ev.run(f, {}, self_term=slf))
    classes = concrete_expression_classes(model)
    num, den_ = ("attr", slf, "numerator"), ("attr", slf, "denominator")
    for pi, p in enumerate(paths):
        if p.kind != "return":
            continue
        kn = sorted({kind_of(c) for c in classes_consistent(model, classes, p.conds, num)})
        kd = sorted({kind_of(c) for c in classes_consistent(model, classes, p.conds, den_)})
        for a in kn:
            for b in kd:
                if b == "Zero":
                    continue
                cons = construct(f, f"path{pi}:{a}/{b}")
                eqs = [c for c in p.conds if c[0] == "eq"]

                def cls_of_atom(t, a=a, b=b):
                    if t == num:
                        return a
                    if t == den_:
                        return b
                    if t == slf:
                        return "Fraction"
                    return None

                dn = Denoter(cls_of_atom)
                want = dn.d(num).mul(dn.d(den_), -1)
                if any({c[1], c[2]} == {num, den_} for c in eqs):
                    want = Mono()
                got = dn.d(p.value)
                got = _apply_helper_axiom(got, p, dn)
                sample = {"returned": short(show(p.value), 200), "vector": got.show(), "expected": want.show()}
                if got.unknown:
                    rep.unknown("R13.2", cons, f"cannot denote {short(show(p.value), 160)}: {got.unknown}", loc(f, p.line), required=False)
                elif got.same(want):
                    rep.proven("R13.2", cons, loc=loc(f, p.line), sample=sample)
                else:
                    rep.refuted("R13.2", cons, f"simplify returns {got.show()} but the fraction denotes {want.show()}", loc(f, p.line), sample=sample)
    # the helper: one-iteration symbolic execution of the inner loop body + index-domain coherence
    h = model.func(helper_q)
    _check_cancellation_helper(model, rep, h)


def _apply_helper_axiom(got: Mono, p, dn: Denoter) -> Mono:
    """Π helper(N, D)[0] / Π helper(N, D)[1] = Π N / Π D  (the helper's contract, checked separately)."""
    if got.unknown or got.zero:
        return got
    hs = {}
    for k in list(got.exp):
        if k[0] == "prod" and k[1][0] == "index" and k[1][1][0] in ("call", "meth") and str(k[1][1][1] if k[1][1][0] == "call" else k[1][1][2]).endswith("_simplify_parts_helper"):
            hs.setdefault(k[1][1], {})[k[1][2][1]] = k
    # find helper calls mentioned in emptiness conditions
    for c in p.conds:
        neg = c[0] == "not"
        cc = c[1] if neg else c
        if cc[0] == "truth" and cc[1][0] == "index" and cc[1][1][0] in ("call", "meth"):
            hs.setdefault(cc[1][1], {})
    for call, found in hs.items():
        e0 = got.exp.get(("prod", ("index", call, const(0))), 0)
        e1 = got.exp.get(("prod", ("index", call, const(1))), 0)
        sa = SetAlg()
        allc = f_and(*[sa.cond(c) for c in p.conds if any(s == call for s in subterms(c))])
        empty0 = compare(f_and(allc, sa.cond(("truth", ("index", call, const(0))))), False)[0]
        empty1 = compare(f_and(allc, sa.cond(("truth", ("index", call, const(1))))), False)[0]
        if empty0 and e0 == 0:
            e0 = 1
        if empty1 and e1 == 0:
            e1 = -1
        if e0 == 1 and e1 == -1:
            kw = dict(call[3]) if call[0] == "call" else dict(call[4])
            args = call[2] if call[0] == "call" else call[3]
            n = kw.get("numerator", args[0] if args else None)
            d = kw.get("denominator", args[1] if len(args) > 1 else None)
            if n is None or d is None:
                return Mono(unknown="helper arguments")
            r = Mono({k: v for k, v in got.exp.items() if not (k[0] == "prod" and k[1][0] == "index" and k[1][1] == call)})
            return r.mul(dn.d_seq(n)).mul(dn.d_seq(d), -1)
        if e0 or e1:
            return Mono(unknown=f"helper parts used with exponents ({e0},{e1})")
    return got


def _check_cancellation_helper(model: Model, rep: Report, h) -> None:
    """Small-scope evaluation of the cancellation helper: for every numerator / denominator of up to three factors over two distinct symbols
    (225 configurations) the evaluator folds the routine to its literal result -- loops over literal sequences are unrolled, membership in a
    set of known constants and equality of constants are decided -- and the result must be a one-to-one cancellation: what is removed from the
    numerator is, as a multiset, exactly what is removed from the denominator, nothing is added, and no common factor is left."""
    import itertools
    from collections import Counter

    cons = construct(h, "one-to-one-cancellation")
    a = h.node.args
    params = [x.arg for x in a.posonlyargs + a.args]
    if h.cls is not None and not h.is_staticmethod:
        params = params[1:]
    if len(params) != 2:
        rep.unknown("R13.2", cons, "the helper does not take (numerator, denominator)", loc(h))
        return
    problems = []
    undecided = 0
    n_cfg = 0
    alphabet = ["a", "b"]

    def literal(t):
        while t[0] == "call" and t[1] in ("tuple", "list") and len(t[2]) == 1 and not t[3]:
            t = t[2][0]
        if t[0] in ("tuplelit", "listlit") and all(x[0] == "const" for x in t[1]):
            return [x[1] for x in t[1]]
        return None

    for ln in range(4):
        for N in itertools.product(alphabet, repeat=ln):
            for ld in range(4):
                for D in itertools.product(alphabet, repeat=ld):
                    n_cfg += 1
                    ev = Evaluator(model)
                    args = {params[0]: ("tuplelit", tuple(const(x) for x in N)), params[1]: ("tuplelit", tuple(const(x) for x in D))}
                    try:
                        ps = ev.run(h, args, ("ref", h.cls.qname)) if (h.cls is not None and h.is_classmethod) else ev.run(h, args)
                    except Exception:  # noqa: BLE001
                        undecided += 1
                        continue
                    rets = [p for p in ps if not (p.kind == "raise")]
                    if len(ps) != 1 or ps[0].kind != "return" or ps[0].conds or ps[0].value[0] != "tuplelit" or len(ps[0].value[1]) != 2:
                        undecided += 1
                        continue
                    n2, d2 = literal(ps[0].value[1][0]), literal(ps[0].value[1][1])
                    if n2 is None or d2 is None:
                        undecided += 1
                        continue
                    cn, cd, cn2, cd2 = Counter(N), Counter(D), Counter(n2), Counter(d2)
                    where = f"{list(N)} / {list(D)} -> {n2} / {d2}"
                    if cn2 - cn or cd2 - cd:
                        problems.append(f"a factor is added: {where}")
                    elif (cn - cn2) != (cd - cd2):
                        problems.append(f"the factors removed above and below the bar differ (the value changes): {where}")
                    elif cn2 & cd2:
                        problems.append(f"a common factor is left uncancelled: {where}")
    if problems:
        rep.refuted("R13.2", cons, "; ".join(sorted(set(problems))[:3]), loc(h), sample={"configurations": n_cfg, "violating": len(problems)})
    elif undecided:
        rep.unknown("R13.2", cons, f"{undecided} of {n_cfg} small-scope configurations do not fold to a literal result (idiom outside the folding rules)", loc(h))
    else:
        rep.proven("R13.2", cons, loc=loc(h), sample={"configurations": n_cfg, "rule": "removed(numerator) = removed(denominator) as multisets; nothing added; no common factor left"})


# ------------------------------------------------------------------------------------------- R13.3
def r13_3(model: Model, rep: Report) -> None:
    sm = model.cls(f"{DSL}.Sum")
    f = sm.find_method("simplify")
    ev = Evaluator(model, primitives={f"{DSL}.Sum.safe", f"{DSL}.Distribution.safe"}, prim_methods={"_new", "get_base"})
    slf = typed(ev, "self", ("cls", sm.qname))
    paths = dnf_paths(ev.run(f, {}, self_term=slf))
    sa = SetAlg()
    X = ("attr", slf, "expression")
    R = ("attr", slf, "ranges")
    k = var("%k")
    n_checked = 0
    for pi, p in enumerate(paths):
        if p.kind != "return":
            rep.refuted("R13.3", construct(f, f"path{pi}"), f"simplify raises {exc_name(p)}", loc(f, p.line))
            continue
        cons = construct(f, f"path{pi}")
        if p.value == slf:
            rep.proven("R13.3", cons, loc=loc(f, p.line), nontrivial=False, sample={"branch": "returns self unchanged"})
            continue
        n_checked += 1
        # a dict filled by a loop (`d[k(x)] = x` once per element) is the dict comprehension with the same generators
        p = dataclasses.replace(p, conds=tuple(mapterm(c, _loops_as_comps) for c in p.conds), value=mapterm(p.value, _loops_as_comps))
        v = p.value
        # K = base names of the children (keys of the children dict), found from the path conditions / value
        K = None
        for s in subterms((p.conds, v)):
            if s[0] == "comp" and s[1] == "dict":
                K = s
        if K is None:
            rep.unknown("R13.3", cons, "children map not found on this path", loc(f, p.line))
            continue
        inK = sa.member(k, K)
        inR = sa.member(k, R)
        axioms = []
        problems = []
        # the rewrite is the marginalisation of a JOINT: the path must establish that the summand has no conditioning variables (with
        # conditions, Σ_C P(C | Pa) = 1 holds only if no summed variable occurs among the conditions or their subscripts)
        gfm = f_and(*[sa.cond(c) for c in p.conds])
        guarded = any(compare(f_and(gfm, sa.cond(("truth", t_))), False)[0]
                      for t_ in (("attr", X, "parents"), ("attr", ("attr", X, "distribution"), "parents")))
        if not guarded:
            problems.append("a probability is marginalised on a path that does not establish that it has no conditioning variables "
                            "(Σ over the children of a CONDITIONAL probability is 1 only if no summed variable occurs among the conditions)")
        # ... and the remaining children must not be SUBSCRIPTED by a summed variable: Σ_b P(b, c_b) is not P(c_b) -- the subscript would be left
        # behind as a free variable.  A path that never looks at the children's interventions together with the ranges cannot exclude that.
        looks = any(any(s_[0] == "attr" and s_[2] == "interventions" for s_ in subterms(c)) and any(s_ == R for s_ in subterms(c)) for c in p.conds)
        if not looks:
            problems.append("a summed variable is removed from the joint on a path that never compares the ranges with the children's intervention subscripts: "
                            "Sum[B](P(B, C @ B)) becomes P(C @ B), in which the summed B is left behind as a free subscript (variable capture)")
        # ... and the children are looked up BY BASE VARIABLE (the map K): the lookup is one-to-one only if no base occurs twice among the
        # children.  P(C @ A, C @ B) mentions C twice: K keeps one of the two, Sum[C] of it "covers every child" and becomes One() although
        # Σ_c P(C_a = c, C_b = c) = P(C_a = C_b) < 1, and Sum[D](P(D, B @ A, B @ E)) loses B @ A.  A path that never looks at how often a
        # base occurs (a cardinality, a count, a comparison of pairs of children) cannot exclude that.
        CH = ("attr", X, "children")

        def _multiplicity_aware(c_):
            subs = list(subterms(c_))
            if not any(s_ == CH or s_ == K for s_ in subs):
                return False
            for s_ in subs:
                if s_[0] == "len":
                    return True
                if s_[0] == "call" and isinstance(s_[1], str) and s_[1].split(".")[-1] in ("len", "Counter", "combinations", "permutations", "groupby", "most_common"):
                    return True
                if s_[0] == "meth" and s_[2] in ("count", "most_common", "__len__"):
                    return True
                if s_[0] == "comp" and sum(1 for _pat, it_, _cs in s_[3] if any(u_ == CH for u_ in subterms(it_))) >= 2:
                    return True
            return False

        if not any(_multiplicity_aware(c_) for c_ in p.conds):
            problems.append("the children are looked up by base variable on a path that never looks at how often a base occurs among them: in P(C @ A, C @ B) the "
                            "variable C appears twice, the lookup keeps one of the two children, and Sum[C](P(C @ A, C @ B)) becomes One() although "
                            "Σ_c P(C_a = c, C_b = c) < 1 in general (Sum[D](P(D, B @ A, B @ E)) likewise loses B @ A)")
        for c in p.conds:
            axioms.extend(_universal_instances(c, k, sa, R, K))
        # decompose the returned value
        if is_ctor(v, "Zero"):
            rep.refuted("R13.3", cons, "the path returns Zero(): summing a joint probability over some of its variables gives a marginal probability (One() when "
                        "every child is summed), never the constant 0 -- whatever the path's test says about the children (a repeated child, an empty "
                        "range) does not make the sum vanish", loc(f, p.line))
            continue
        ranges_out, child_filter, leaf_ok = _decompose_sum_result(v, X, sa, k)
        if ranges_out is None:
            rep.unknown("R13.3", cons, "result shape not understood: " + short(show(v), 200), loc(f, p.line))
            continue
        eq1, row1, _ = compare(ranges_out, f_and(inR, f_not(inK)), axioms)
        eq2, row2, _ = compare(child_filter, f_and(inK, f_not(inR)), axioms)
        if not eq1:
            problems.append(f"remaining summation variables are not R∖C: for a variable with [{show_row(row1)}] (implementation: {short(show_formula(ranges_out), 120)})")
        if not eq2:
            problems.append(f"remaining joint variables are not C∖R: for a variable with [{show_row(row2)}] (implementation: {short(show_formula(child_filter), 120)})")
        if not leaf_ok:
            problems.append("the reduced probability is not rebuilt through the summand's own `_new` (class / population tag lost)")
        sample = {"ranges_out": show_formula(ranges_out), "children_out": show_formula(child_filter), "axioms": [show_formula(a) for a in axioms]}
        if problems:
            rep.refuted("R13.3", cons, "; ".join(problems), loc(f, p.line), sample=sample)
        else:
            rep.proven("R13.3", cons, loc=loc(f, p.line), sample=sample)
    if n_checked < 1:
        rep.error("R13.3: no rewriting branch of Sum.simplify found")


def _says_empty(sa: SetAlg, c: Term) -> bool:
    """Is the condition `this collection is empty`, however spelt (not X, len(X) == 0, len(X) < 1, X == ())?"""
    if c[0] == "not" and c[1][0] == "truth":
        return True
    subjects = [s_[1] for s_ in subterms(c) if s_[0] in ("len", "truth") and len(s_) == 2 and is_term_(s_[1])]
    if c[0] == "eq" and len(c) == 3:
        for a_, b_ in ((c[1], c[2]), (c[2], c[1])):
            if b_ in (("tuplelit", ()), ("listlit", ())):
                subjects.append(a_)
    try:
        f = sa.cond(c)
    except Exception:  # noqa: BLE001
        return False
    for y in subjects:
        same, _row, _ = compare(f, f_not(sa.cond(("truth", y))), [])
        if same:
            return True
    return False


def is_term_(x) -> bool:
    return isinstance(x, tuple) and bool(x) and isinstance(x[0], str)


def _loops_as_comps(t: Term):
    if t[0] == "accum":
        return accum_as_comp(t)
    return None


def _set_like(sa: SetAlg, t: Term) -> bool:
    return sa.is_setexpr(t) or (t[0] == "op" and t[1] in ("^", "|", "&", "-") and len(t) == 4 and _set_like(sa, t[2]) and _set_like(sa, t[3])) or (
        t[0] == "call" and t[1] in ("set", "frozenset") and len(t[2]) == 1)


def _universal_instances(c: Term, k: Term, sa: SetAlg, R: Term, K: Term) -> list:
    """What a path condition about whole sets says about ONE arbitrary key k (the universal half of the condition; an existential half --
    'some element is in the difference' -- says nothing about k and is dropped)."""
    neg = c[0] == "not"
    cc = c[1] if neg else c
    out = []
    if cc[0] == "eq" and not neg and ((_set_like(sa, cc[1]) and _set_like(sa, cc[2])) or
                                      {sa.canon_top(("setof", cc[1])), sa.canon_top(("setof", cc[2]))} == {sa.canon_top(("setof", R)), sa.canon_top(("setof", K))}):
        a_, b_ = sa.member(k, cc[1]), sa.member(k, cc[2])
        out.append(f_or(f_and(a_, b_), f_and(f_not(a_), f_not(b_))))
    if cc[0] == "ne" and neg and _set_like(sa, cc[1]) and _set_like(sa, cc[2]):
        a_, b_ = sa.member(k, cc[1]), sa.member(k, cc[2])
        out.append(f_or(f_and(a_, b_), f_and(f_not(a_), f_not(b_))))
    if cc[0] in ("psubset", "subset") and not neg:
        a_, b_ = sa.member(k, cc[1]), sa.member(k, cc[2])
        out.append(f_or(f_not(a_), b_))
    if cc[0] == "disjoint" and not neg and len(cc) == 3:
        out.append(f_not(f_and(sa.member(k, cc[1]), sa.member(k, cc[2]))))
    if cc[0] == "truth" and neg:
        # "this selection is empty": no key passes its filter
        sel = cc[1]
        while sel[0] == "call" and sel[1] in ("list", "tuple", "set", "frozenset", "sorted") and len(sel[2]) == 1:
            sel = sel[2][0]
        while sel[0] == "setof":
            sel = sel[1]
        if sel[0] == "comp" and len(sel[3]) == 1 and sel[3][0][0][0] == "tuplelit":
            pat, it, cds = sel[3][0]
            if len(pat[1]) == 2 and it[0] == "meth" and it[2] == "items":
                out.append(f_not(f_and(sa.member(k, it[1]), *[sa.cond(subst(c_, {pat[1][0]: k})) for c_ in cds])))
        elif _set_like(sa, sel) or (sel[0] == "comp" and sel[1] in ("set", "list", "gen") and len(sel[3]) == 1 and sel[3][0][0] == sel[2]):
            out.append(f_not(sa.member(k, sel)))
    return out


def _decompose_sum_result(v: Term, X: Term, sa: SetAlg, k: Term):
    """(ranges_out formula, children-kept formula over key k, leaf built through X._new?)"""

    def leaf(t):
        # X._new(Distribution.safe(<comp over children.items()>)) -> formula of kept keys
        if is_ctor(t, "One"):
            return False, True
        if t[0] == "meth" and t[2] == "_new" and t[1] == X:
            args = list(t[3]) + [x for _, x in t[4]]
            if len(args) == 1 and args[0][0] == "call" and str(args[0][1]).endswith("Distribution.safe"):
                dargs = list(args[0][2]) + [x for _, x in args[0][3]]
                comp = dargs[0] if dargs else None
                if comp is not None and comp[0] == "comp" and len(comp[3]) == 1:
                    pat, it, conds = comp[3][0]
                    if pat[0] == "tuplelit" and len(pat[1]) == 2 and it[0] == "meth" and it[2] == "items" and comp[2] == pat[1][1]:
                        base = sa.member(k, it[1])
                        return f_and(base, *[sa.cond(subst(c, {pat[1][0]: k})) for c in conds]), True
            return None, True
        if t[0] in ("rec", "new", "call") and ("Probability" in str(t[1])):
            # rebuilt with a hard-coded constructor: find the filter anyway
            for s in subterms(t):
                if s[0] == "comp" and len(s[3]) == 1 and s[3][0][0][0] == "tuplelit":
                    pat, it, conds = s[3][0]
                    base = sa.member(k, it[1]) if it[0] == "meth" else True
                    return f_and(base, *[sa.cond(subst(c, {pat[1][0]: k})) for c in conds]), False
            return None, False
        return None, True

    if v[0] == "call" and str(v[1]).endswith("Sum.safe"):
        kw = dict(v[3])
        ex = kw.get("expression", v[2][0] if v[2] else None)
        rg = kw.get("ranges", v[2][1] if len(v[2]) > 1 else None)
        if ex is None or rg is None:
            return None, None, True
        cf, ok = leaf(ex)
        if cf is None:
            return None, None, ok
        return sa.member(k, rg), cf, ok
    cf, ok = leaf(v)
    if cf is None:
        return None, None, ok
    return False, cf, ok


# ------------------------------------------------------------------------------------------- R13.4
def r13_4(model: Model, rep: Report, classes) -> None:
    r13_4_marginalize(model, rep, classes)
    r13_4_conditional(model, rep, classes)


def r13_4_marginalize(model: Model, rep: Report, classes) -> None:
    ex = model.cls(EXPR)
    # marginalize
    f = ex.find_method("marginalize")
    ev = Evaluator(model, primitives=set(DSL_PRIMS), prim_methods={"get_base"})
    slf = typed(ev, "self", ("cls", EXPR))
    R = var("ranges")
    paths = return_paths(ev.run(f, {"ranges": R}, self_term=slf))
    ok = False
    if len(paths) == 1:
        v = paths[0].value
        if v[0] == "call" and str(v[1]).endswith("Sum.safe"):
            kw = dict(v[3])
            rg = kw.get("ranges")
            ok = kw.get("expression") == slf and rg is not None and mentions(rg, R) and not mentions(rg, slf) and kw.get("simplify", const(False)) in (const(False),)
    (rep.proven if ok else rep.refuted)("R13.4", construct(f, "sum-over-given-ranges"), "" if ok else "marginalize(r) must be Sum.safe(self, bases of r) with nothing else in the ranges", loc(f))
    # normalize_marginalize
    f = ex.find_method("normalize_marginalize")
    ev = Evaluator(model, prim_methods={"marginalize", "__truediv__", "__mul__"})
    slf = typed(ev, "self", ("cls", EXPR))
    paths = return_paths(ev.run(f, {"ranges": R}, self_term=slf))
    ok = len(paths) == 1 and paths[0].value == ("op", "/", slf, ("meth", slf, "marginalize", (), (("ranges", R),)))
    (rep.proven if ok else rep.refuted)("R13.4", construct(f, "self-over-marginal"), "" if ok else
                                        "normalize_marginalize(r) must be self / self.marginalize(r): " + (short(show(paths[0].value)) if paths else "no path"), loc(f))


def r13_4_conditional(model: Model, rep: Report, classes) -> None:
    # conditional: the denominator sums the free variables of self that are not kept
    R = var("ranges")
    seen = set()
    for K in classes:
        f = K.find_method("conditional")
        if f is None or f.qname in seen:
            continue
        seen.add(f.qname)
        ev = Evaluator(model, primitives=set(DSL_PRIMS), prim_methods={"get_base", "normalize_marginalize", "_iter_variables"})
        slf = typed(ev, "self", ("cls", f.cls.qname))
        paths = return_paths(ev.run(f, {"ranges": R}, self_term=slf))
        cons = construct(f, "denominator-range")
        if not paths or not all(p_.value[0] == "meth" and p_.value[2] == "normalize_marginalize" for p_ in paths):
            rep.unknown("R13.4", cons, "conditional does not reduce to normalize_marginalize(complement)", loc(f))
            continue
        sa = SetAlg()
        problems = []
        comp = None
        for p_ in paths:
            comp = dict(p_.value[4]).get("ranges", p_.value[3][0] if p_.value[3] else None)
            # complement must be  {base(c) for c in vars(self) [if not Intervention]} ∖ bases(ranges)
            if not (comp[0] == "diff" and mentions(comp[2], R)):
                problems.append("the kept variables are not subtracted from the summation set")
            src = [s for s in subterms((comp[1] if comp[0] == "diff" else comp, p_.conds))
                   if (s[0] == "meth" and s[2] in ("_iter_variables", "get_variables")) or (s[0] == "recurse" and str(s[1]).endswith("_get_free_variables"))]
            if not src:
                problems.append("summation set is not derived from the expression's variables")
        if problems:
            rep.refuted("R13.4", cons, "; ".join(sorted(set(problems))), loc(f))
        else:
            rep.proven("R13.4", cons, loc=loc(f), sample={"complement": short(show(comp), 200), "paths": len(paths)})
        users = [k for k in classes if k.find_method("conditional") is f]
        if any(k.name == "Sum" for k in users):
            _bound_rules(model, rep, f)


def _bound_leak(model: Model, users, comp) -> str | None:
    """Does the variable enumeration used by `conditional` include variables bound by a Sum?"""
    filt_interventions = any(s[0] == "isinstance" and "Intervention" in str(s[2]) for s in subterms(comp))
    for K in model.cls(EXPR).all_subclasses():
        m = K.methods.get("_iter_variables")
        if m is None:
            continue
        fields = K.all_fields()
        # a class with a frozenset `ranges` field binds those variables
        if "ranges" not in fields:
            continue
        ev = Evaluator(model, prim_methods={"_iter_variables"})
        slf = typed(ev, "self", ("cls", K.qname))
        paths = return_paths(ev.run(m, {}, self_term=slf))
        yields_ranges = any(mentions(p.value, ("attr", slf, "ranges")) for p in paths)
        if not yields_ranges:
            continue
        # the class yields its bound variables; is it (or a container of it) among the users?
        reach = [u.name for u in users if u.name != "Probability" and not u.is_subclass_of("Probability")]
        if reach:
            return (f"the denominator sums over every variable reported by _iter_variables(), and {K.name}._iter_variables() also yields the "
                    f"variables bound by the sum (its `ranges`); for {', '.join(sorted(reach))} expressions containing a {K.name} the bound variables are "
                    f"summed a second time (free(e) ∖ r is required)")
    return None


# ------------------------------------------------------------------------------------------- R13.5
def r13_5(model: Model, rep: Report) -> None:
    from ..refcmp import load_reference, run_table
    from .common import graph_rewrite, rewriter

    if "yvref.c13" not in model.modules:
        load_reference(model, "yvref.c13", "c13_ref.py")
    PROB = ("cls", f"{DSL}.Probability")
    DIST = ("cls", f"{DSL}.Distribution")
    EX = ("cls", EXPR)
    AP = ("cls", "y0.mutate.utils.Applier")
    sa = SetAlg(rewriter(graph_rewrite))

    def mk(model_, prims):
        return lambda: Evaluator(model_, primitives=set(DSL_PRIMS) | set(prims), prim_methods={
            "_new", "given", "__or__", "uncondition", "normalize_marginalize", "apply_expression", "apply_sum", "apply_product", "apply_fraction",
            "apply_probability", "apply_q"})

    CH = "y0.mutate.chain"
    table = [
        ("R13.5", f"{CH}.chain_expand", "chain", {"p": PROB, "reorder": ("const", False), "ordering": None}, (), "reorder=False",
         "chain rule: Π_i P(c_i | c_(i+1).., original parents), every factor rebuilt through p._new, the children used as given"),
        ("R13.5", f"{CH}.chain_expand", "chain", {"p": PROB, "reorder": ("const", True), "ordering": None}, (), "reorder=True",
         "chain rule over the children filtered from the requested ordering; an ordering that misses a child is refused"),
        ("R13.5", f"{CH}.fraction_expand", "as_fraction", {"p": PROB}, (), "P(C,Pa)/P(Pa)", "P(C | Pa) = P(C, Pa) / P(Pa) of the same kind; unchanged without parents"),
        ("R13.5", f"{CH}.bayes_expand", "bayes", {"p": PROB}, (), "P(C,Pa)/ΣP", "P(C | Pa) = P(C, Pa) / Σ_C P(C, Pa); unchanged without parents"),
        ("R13.5", f"{DSL}.Distribution.uncondition", "joint_of", {"self": DIST}, (), "children+parents", "the joint over children and parents", {"impl_self_type": DIST}),
        ("R13.5", "y0.mutate.contract.contract", "contracted", {"expression": EX}, (), "guard-and-result",
         "P(N)/P(D) is contracted to P(N∖D | N∩D) only for two unconditioned probabilities OF THE SAME KIND (class, population) with D ⊆ N; rebuilt through numerator._new"),
        ("R13.5", "y0.mutate.utils.Applier.apply_expression", "visit", {"self": AP, "expression": EX}, (), "dispatch",
         "each node kind goes to its own handler; anything else is returned unchanged", {"impl_self_type": AP}),
        ("R13.5", "y0.mutate.utils.Applier.apply_sum", "visit_sum", {"self": AP, "expression": ("cls", f"{DSL}.Sum")}, (), "roles",
         "a Sum is rebuilt from its visited summand and its own ranges", {"impl_self_type": AP}),
        ("R13.5", "y0.mutate.utils.Applier.apply_product", "visit_product", {"self": AP, "expression": ("cls", f"{DSL}.Product")}, (), "roles",
         "a Product is rebuilt from every visited factor", {"impl_self_type": AP}),
        ("R13.5", "y0.mutate.utils.Applier.apply_fraction", "visit_fraction", {"self": AP, "expression": ("cls", f"{DSL}.Fraction")}, (), "roles",
         "a Fraction is rebuilt from its visited numerator and its visited denominator, each in its own place", {"impl_self_type": AP}),
    ]
    if f"{DSL}._get_free_variables" in model.functions:
        table.append(("R13.4", f"{DSL}._get_free_variables", "free_variables", {"expression": EX}, (), "free-variables",
                      "the free variables of an expression: a sum binds its ranges, products and fractions have the free variables of all their parts, a leaf "
                      "has the variables it mentions (Expression.conditional normalises over exactly these)"))
    if f"{DSL}._ranges_subscript_children" in model.functions:
        VS = ("iter", ("cls", f"{DSL}.Variable"))
        table.append(("R13.3", f"{DSL}._ranges_subscript_children", "ranges_subscript_children", {"ranges": VS, "children": VS}, (), "no-capture-test",
                      "a summed variable subscripts the joint as soon as ONE intervention of ONE counterfactual child carries its name"))
    run_table(model, rep, table, "yvref.c13", mk, sa, construct=construct, loc=loc)


def _bound_rules(model: Model, rep: Report, f) -> None:
    """R13.4 for the `conditional` implementation that Sum uses: bound variables must not be summed again."""
    sm = model.cls(f"{DSL}.Sum")
    ev = Evaluator(model, primitives=set(DSL_PRIMS), prim_methods={"get_base", "normalize_marginalize", "_iter_variables", "get_variables"})
    slf = typed(ev, "self", ("cls", sm.qname))
    R = var("ranges")
    paths = return_paths(ev.run(f, {"ranges": R}, self_term=slf))
    c1, c2 = construct(f, "bound-variables"), construct(f, "bound-bases")
    if len(paths) != 1 or not (paths[0].value[0] == "meth" and paths[0].value[2] == "normalize_marginalize"):
        rep.unknown("R13.4", c1, "conditional(Sum) does not reduce to normalize_marginalize(complement)", loc(f))
        return
    comp = dict(paths[0].value[4]).get("ranges", paths[0].value[3][0] if paths[0].value[3] else None)
    sa = SetAlg()
    own = ("attr", slf, "ranges")
    diffs = [s for s in subterms(comp) if s[0] == "diff" and any(sa.strip(x) == own for x in s[2:])]
    if not diffs:
        rep.refuted("R13.4", c1, "for a Sum, the variables it binds (its `ranges`) are not removed from the set the denominator sums over, so "
                    "Sum[C](P(A,B,C)).conditional(A) sums C a second time (free(e) ∖ r is required): " + short(show(comp), 160), loc(f))
        rep.refuted("R13.4", c2, "bound variables are not removed at all", loc(f))
        return
    rep.proven("R13.4", c1, loc=loc(f), sample={"complement for a Sum": short(show(comp), 240)})
    # the subtraction must act on base variables: get_base is not injective (W @ -x and W have the same base)
    A = diffs[0][1]

    def base_level(t, depth=0):
        t = sa.strip(t)
        if t[0] == "comp" and t[2][0] == "meth" and t[2][2] == "get_base":
            return True
        if t[0] == "diff":
            return base_level(t[1], depth)
        if t[0] in ("union", "inter"):
            vals = [base_level(x, depth) for x in t[1:]]
            return None if any(v is None for v in vals) else all(vals)
        if t[0] in ("bigunion", "accum"):
            parts = sa.union_parts(t)
            vals = [base_level(p[1][2] if p[0] == "bigunion" else p, depth) for p in parts]
            return None if (not vals or any(v is None for v in vals)) else all(vals)
        if t[0] == "recurse" and depth < 2:
            fn = model.functions.get(t[1])
            if fn is None:
                return None
            ev2 = Evaluator(model, primitives=set(DSL_PRIMS), prim_methods={"get_base", "_iter_variables", "get_variables"})
            leaf = typed(ev2, fn.params[0], ("cls", f"{DSL}.Probability"))
            rs = return_paths(ev2.run(fn, {fn.params[0]: leaf}))
            vals = [base_level(r.value, depth + 1) for r in rs]
            return None if (not vals or any(v is None for v in vals)) else all(vals)
        if t[0] == "meth" and t[2] in ("get_variables", "_iter_variables"):
            return False
        if t[0] == "call" and str(t[1]) == "iter":
            return base_level(t[2][0], depth)
        return None

    outside = any(s[0] == "diff" and any(sa.strip(x) == own for x in s[2:]) and base_level(s[1]) for s in subterms(comp))
    bl = True if outside else base_level(A)
    if bl is True:
        rep.proven("R13.4", c2, loc=loc(f))
    elif bl is False:
        rep.refuted("R13.4", c2, "the Sum's bound variables are subtracted from a set of unreduced variables and only then mapped to base variables; "
                    "W @ -x is not removed by subtracting W but has base W, so Sum[W](P[X](W) * ...).conditional(...) sums W a second time", loc(f))
    else:
        rep.unknown("R13.4", c2, "cannot tell whether the subtraction acts on base variables: " + short(show(A), 160), loc(f), required=False)


# ------------------------------------------------------------------------------------------- R13.6
def r13_6(model: Model, rep: Report, classes) -> None:
    """Ordering keys of the DSL (E11): total, path-independent component types; compared fields read as they are."""
    from ..keys import check_key_function

    VARIABLE = ("cls", f"{DSL}.Variable")
    funcs = []
    for name, ptypes in (("_variable_sort_key", {"variable": VARIABLE}), ("_variable_key", {"variable": VARIABLE}),
                         ("_distribution_key", {"distribution": ("cls", f"{DSL}.Distribution")})):
        q = f"{DSL}.{name}"
        if q in model.functions:
            funcs.append((model.functions[q], None, ptypes, name))
    seen = set()
    for K in classes:
        m = K.find_method("_get_key")
        if m is not None and m.qname not in seen:
            seen.add(m.qname)
            funcs.append((m, ("cls", K.qname), None, f"{K.name}._get_key"))
    for cq in (f"{DSL}.Variable", f"{DSL}.Intervention", f"{DSL}.CounterfactualVariable"):
        if cq in model.classes:
            m = model.classes[cq].methods.get("__lt__")
            if m is not None:
                funcs.append((m, ("cls", cq), {m.params[1]: ("cls", cq)} if len(m.params) > 1 else None, f"{cq.split('.')[-1]}.__lt__"))
    for f, st, pt, label in funcs:
        cons = construct(f, "key-discipline")
        try:
            problems, n, sample = check_key_function(model, f, st, pt)
        except Exception as e:  # noqa: BLE001
            rep.unknown("R13.6", cons, f"the key could not be evaluated ({type(e).__name__})", loc(f), required=False)
            continue
        if problems:
            rep.refuted("R13.6", cons, f"{label}: " + "; ".join(problems[:3]), loc(f), sample=sample)
        else:
            rep.proven("R13.6", cons, loc=loc(f), sample=sample, nontrivial=n > 0)
