"""C07 -- ID* estimands (partial refinement to Shpitser & Pearl 2008, ID*).

R7.1  line order and constants: empty event -> 1; effectiveness violation -> 0; tautology removal recurses on the reduced event;
      inconsistent counterfactual graph -> 0; disconnected -> line 6; conflict -> Unidentifiable; else line 9.
R7.2  polarity tables: line 2 fires iff same base and DIFFERENT value, line 3 removes iff same base and EQUAL value.
R7.3  line 6 structure: summed variables, one sub-event per district of the non-self-intervened part, subscripts = Markov pillow.
R7.4  subscripts carry the event's values (must-depend of the intervention set on the event).
R7.5  conflicts compare name equal and value different between subscripts of the graph and the evidence; line 9 is R6.4.
Counterfactual-graph rules (C18) are re-run: ID* inherits them.
"""

from __future__ import annotations

from ..model import AnalysisError, Model
from ..report import Report
from ..setalg import SetAlg, compare, f_and, f_not, f_or, show_formula, show_row
from ..symeval import Evaluator
from ..terms import NONE, Term, const, show, subterms, var
from .common import GRAPH_PRIMS, NXMG, VARIABLE, construct, loc, return_paths, short, typed, kwargs_of, exc_name
from .dslcommon import DSL_PRIMS
from . import c06, c18

IS = "y0.algorithm.identify.id_star"
CG = "y0.algorithm.identify.cg"
EVT = ("dict", None, None)


def _ev(model, prims=(), pm=()):
    return Evaluator(model, primitives=set(GRAPH_PRIMS) | set(DSL_PRIMS) | set(prims), prim_methods=set(pm) | {"get_base", "intervene", "__matmul__"})


def is_ctor(t: Term, name: str) -> bool:
    return t[0] in ("rec", "new") and str(t[1]).split(".")[-1] == name


def run(model: Model, rep: Report, tier: str) -> None:
    rep.level = "other"
    rep.explanation = (
        "id_star() is evaluated symbolically with its helpers as primitives; the order of tests and the constant answers are read off the "
        "path list. The two polarity predicates are quantified boolean terms whose bodies are compared as 2x2 tables over (same base, same "
        "value). Line 6 is checked term by term. R7.4 is a must-depend check: the intervention set attached to a district's variables must be "
        "derived from the event for pillow variables the event assigns, otherwise events that differ only in such a value get the same sub-event. "
        "Decides this structure; legitimacy of the counterfactual graph (C18's undecided core) and the value identity are not decided."
    )
    rep.trusted_base = ["Shpitser & Pearl 2008, Theorem (ID* soundness)", "C18 structural rules (re-run)", "C14"]
    rep.floors = {"R7.1": 6, "R7.2": 2, "R7.3": 3, "R7.4": 1, "R7.5": 1, "R6.4": 2}
    sa = SetAlg()
    V = ("cls", VARIABLE)
    # ---------------------------------------------------------------- R7.1
    helpers = {f"{IS}.{x}" for x in ("violates_axiom_of_effectiveness", "remove_event_tautologies", "id_star_line_6", "get_conflicts", "id_star_line_9")} | {
        f"{CG}.make_counterfactual_graph", f"{CG}.is_not_self_intervened"}
    f = model.func(f"{IS}.id_star")
    ev = _ev(model, prims=helpers)
    g, e = typed(ev, "graph", ("cls", NXMG)), typed(ev, "event", EVT)
    paths = ev.run(f, {"graph": g, "event": e})
    t_event = sa.cond(("truth", e))
    viol = sa.cond(("call", f"{IS}.violates_axiom_of_effectiveness", (), (("event", e),)))
    red = ("call", f"{IS}.remove_event_tautologies", (), (("event", e),))
    changed = f_not(sa.eq_atom(red, e))
    mcg = ("call", f"{CG}.make_counterfactual_graph", (), (("event", e), ("graph", g)))
    incons = sa.cond(("isnone", ("index", mcg, const(1))))

    def guard(p):
        return f_and(*[sa.cond(c) for c in p.conds])

    def same(p, fm):
        return compare(guard(p), fm)[0]

    def implies(p, fm):
        return compare(f_and(guard(p), f_not(fm)), False)[0]

    checks = []
    p1 = [p for p in paths if p.kind == "return" and is_ctor(p.value, "One")]
    checks.append(("line1-empty-event", len(p1) == 1 and same(p1[0], f_not(t_event)), "the empty event must get probability One, and only it"))
    p2 = [p for p in paths if p.kind == "return" and is_ctor(p.value, "Zero")]
    ok = len(p2) == 2 and any(same(p, f_and(t_event, viol)) for p in p2) and any(same(p, f_and(t_event, f_not(viol), f_not(changed), incons)) for p in p2)
    checks.append(("line2-and-5-zero", ok, "Zero must be returned exactly for an effectiveness violation (line 2) and for an inconsistent counterfactual graph (line 5), in this order"))
    p3 = [p for p in paths if p.kind == "return" and p.value[0] == "recurse" and p.value[1] == f"{IS}.id_star" and len(p.value[2]) == 2 and p.value[2][1] == red]
    checks.append(("line3-tautologies", len(p3) == 1 and same(p3[0], f_and(t_event, f_not(viol), changed)) and p3[0].value[2][0] == g,
                   "tautologies must be removed after the effectiveness test and the recursion must be on the reduced event and the original graph"))
    cfg = ("index", mcg, const(0))
    newe = ("index", mcg, const(1))
    p6 = [p for p in paths if p.kind == "return" and p.value[0] == "call" and str(p.value[1]).endswith("Sum.safe")]
    ok = len(p6) == 1
    if ok:
        kw = kwargs_of(p6[0].value)
        l6 = ("call", f"{IS}.id_star_line_6", (), (("cf_graph", cfg), ("event", newe)))
        prod = kw.get("expression")
        ok = kw.get("ranges") == ("index", l6, const(0)) and prod[0] == "call" and str(prod[1]).endswith("Product.safe")
        if ok:
            c = kwargs_of(prod).get("expressions")
            ok = c[0] == "comp" and len(c[3]) == 1 and c[3][0][1] == ("meth", ("index", l6, const(1)), "values", (), ()) and c[2][0] == "recurse" and c[2][2] == (g, c[3][0][0])
        ok = ok and any(c[0] == "not" and any(s[0] == "meth" and s[2] == "is_connected" for s in subterms(c)) for c in p6[0].conds)
    checks.append(("line6-decomposition", ok, "line 6 must be Σ_{free variables} Π_{districts} ID*(G, event of the district) when the non-self-intervened part of the counterfactual graph is disconnected, recursing on the ORIGINAL graph"))
    p8 = [p for p in paths if p.kind == "raise" and exc_name(p) == "ConflictUnidentifiable"]
    checks.append(("line8-conflict", len(p8) == 1 and any(c[0] == "truth" and c[1][0] == "call" and c[1][1] == f"{IS}.get_conflicts" for c in p8[0].conds),
                   "a conflict between a subscript and the evidence must refuse (Unidentifiable), after the connectivity test"))
    p9 = [p for p in paths if p.kind == "return" and p.value[0] == "call" and p.value[1] == f"{IS}.id_star_line_9"]
    ok = len(p9) == 1 and any(c[0] == "not" and c[1][0] == "truth" and c[1][1][0] == "call" and c[1][1][1] == f"{IS}.get_conflicts" for c in p9[0].conds)
    if ok:
        sub = kwargs_of(p9[0].value).get("cf_graph")
        ok = sub[0] == "meth" and sub[2] == "subgraph" and sub[1] == cfg
    checks.append(("line9-base-case", ok, "the base case must be reached only without conflicts, on the non-self-intervened part of the counterfactual graph"))
    others = [p for p in paths if p.kind == "raise" and exc_name(p) not in ("ConflictUnidentifiable",)]
    dead = all(any(c[0] == "le" and c[1][0] == "len" for c in p.conds) for p in others)
    checks.append(("no-other-failure", dead, "id_star can fail with something other than Unidentifiable: " + ", ".join(exc_name(p) for p in others)))
    for name, ok, why in checks:
        (rep.proven if ok else rep.refuted)("R7.1", construct(f, name), "" if ok else why, loc(f))
    # ---------------------------------------------------------------- R7.2 polarity
    f2 = model.func(f"{IS}.violates_axiom_of_effectiveness")
    ev = _ev(model)
    e2 = typed(ev, "event", EVT)
    r2 = return_paths(ev.run(f2, {"event": e2}))
    f3 = model.func(f"{IS}.is_redundant_counterfactual")
    ev = _ev(model)
    vv, val = typed(ev, "variable", V), typed(ev, "value", ("cls", "y0.dsl.Intervention"))
    r3_all = return_paths(ev.run(f3, {"variable": vv, "value": val}))
    r3 = [r for r in r3_all if r.value[0] in ("any", "all")] or [r for r in r3_all if any(c[0] in ("iter-elem", "forall-not") for c in r.conds)]

    def polarity(t):
        """body of any(...) as (uses same base?, star relation)"""
        if t[0] != "any":
            return None
        body = t[1][2]
        parts = body[1:] if body[0] == "and" else (body,)
        base_eq = [p for p in parts if p[0] == "eq" and all(x[0] == "meth" and x[2] == "get_base" for x in p[1:])]
        star = [p for p in parts if p[0] in ("eq", "ne") and all(x[0] == "attr" and x[2] == "star" for x in p[1:])]
        if len(base_eq) != 1 or len(star) != 1 or len(parts) != 2:
            return None
        return star[0][0]

    from .common import quantifier_of
    from ..symeval import bool_paths
    q2 = r2[0].value if len(r2) == 1 else quantifier_of(bool_paths(r2))
    q3 = r3[0].value if len(r3) == 1 else quantifier_of(bool_paths(r3))
    pol2 = polarity(q2) if q2 is not None else None
    pol3 = polarity(q3) if q3 is not None else None
    (rep.proven if pol2 == "ne" else rep.refuted)("R7.2", construct(f2, "different-value"), "" if pol2 == "ne" else
                                                   "line 2 must fire iff some subscript has the same base variable as the event's value and a DIFFERENT value", loc(f2))
    (rep.proven if pol3 == "eq" else rep.refuted)("R7.2", construct(f3, "equal-value"), "" if pol3 == "eq" else
                                                   "line 3 must remove iff some subscript has the same base variable as the event's value and the SAME value", loc(f3))
    # ---------------------------------------------------------------- R7.3 line 6 pieces
    f = model.func(f"{IS}.get_free_variables")
    ev = _ev(model, prims={f"{CG}.is_not_self_intervened"})
    g6, e6 = typed(ev, "cf_graph", ("cls", NXMG)), typed(ev, "event", EVT)
    r = return_paths(ev.run(f, {"cf_graph": g6, "event": e6}))
    ok = len(r) == 1 and r[0].value[0] == "diff"
    if ok:
        a, b = r[0].value[1], r[0].value[2]
        ok = a[0] == "comp" and a[2][0] == "meth" and a[2][2] == "get_base" and any(s[0] == "call" and s[1] == f"{CG}.is_not_self_intervened" for s in subterms(a)) and b[0] == "comp" and b[2][0] == "meth" and b[2][2] == "get_base" and b[3][0][1] == e6
    (rep.proven if ok else rep.refuted)("R7.3", construct(f, "summation-set"), "" if ok else "summed variables must be the bases of the non-self-intervened nodes minus the bases of the event", loc(f))
    f = model.func(f"{IS}.get_events_of_each_district")
    ev = _ev(model, prims={f"{CG}.is_not_self_intervened", f"{IS}.get_events_of_district"})
    g6, e6 = typed(ev, "graph", ("cls", NXMG)), typed(ev, "event", EVT)
    r = return_paths(ev.run(f, {"graph": g6, "event": e6}))
    ok = len(r) == 1 and r[0].value[0] == "comp" and r[0].value[1] == "dict"
    if ok:
        c = r[0].value
        it = c[3][0][1]
        ok = it[0] == "meth" and it[2] == "districts" and it[1][0] == "meth" and it[1][2] == "subgraph" and it[1][1] == g6 and kwargs_of(c[2][2]).get("graph") == g6 and kwargs_of(c[2][2]).get("district") == c[3][0][0]
    (rep.proven if ok else rep.refuted)("R7.3", construct(f, "per-district"), "" if ok else "one sub-event per district of the non-self-intervened sub-graph, each computed against the FULL counterfactual graph", loc(f))
    f = model.func(f"{IS}.get_events_of_district")
    ev = _ev(model, prims={f"{IS}._get_node_event"})
    g6, d6, e6 = typed(ev, "graph", ("cls", NXMG)), typed(ev, "district", ("set", V)), typed(ev, "event", EVT)
    r = return_paths(ev.run(f, {"graph": g6, "district": d6, "event": e6}))
    pillow = ("meth", g6, "get_markov_pillow", (), (("nodes", d6),))
    withp = [x for x in r if any(c == ("truth", pillow) for c in x.conds)]
    ok = len(withp) == 1
    iv = None
    if ok:
        c = withp[0].value
        key = c[2][1]
        ok = c[0] == "comp" and key[0] == "meth" and key[2] == "intervene" and key[1][0] == "meth" and key[1][2] == "get_base"
        iv = kwargs_of(key).get("variables") if ok else None
        ok = ok and any(s == pillow for s in subterms(iv))
    (rep.proven if ok else rep.refuted)("R7.3", construct(f, "pillow-subscripts"), "" if ok else "each district variable must be subscripted by the Markov pillow of its district", loc(f))
    # ---------------------------------------------------------------- R7.4 values of the event in the subscripts
    cons = construct(f, "subscripts-carry-values")
    if iv is None:
        rep.unknown("R7.4", cons, "intervention set not found", loc(f))
    elif any(s == e6 for s in subterms(iv)):
        rep.proven("R7.4", cons, loc=loc(f))
    else:
        rep.refuted("R7.4", cons, "the subscripts of a district's variables are built from the graph alone (the Markov pillow's bare variables, which become `-x` subscripts): for pillow "
                    "variables the event assigns, the assigned value is lost, so {Y:-y, X:+x} and {Y:-y, X:-x} on X -> Y get the same sub-events and the same estimand P(X)·P[X](Y)", loc(f))
    # ---------------------------------------------------------------- R7.5
    f = model.func(f"{IS}.get_conflicts")
    ev = _ev(model, prims={f"{IS}.get_cf_interventions", f"{IS}.get_evidence"})
    g6, e6 = typed(ev, "cf_graph", ("cls", NXMG)), typed(ev, "event", EVT)
    r = return_paths(ev.run(f, {"cf_graph": g6, "event": e6}))
    ok = len(r) == 1 and r[0].value[0] == "comp"
    if ok:
        c = r[0].value
        a, b = c[3][0][0][1]
        want = f_and(sa.eq_atom(("attr", a, "name"), ("attr", b, "name")), f_not(sa.eq_atom(("attr", a, "star"), ("attr", b, "star"))))
        got = f_and(*[sa.cond(k) for k in c[3][0][2]])
        it = c[3][0][1]
        ok = compare(got, want)[0] and it[0] == "call" and it[1].endswith("product") and {x[1] for x in it[2] if x[0] == "call"} == {f"{IS}.get_cf_interventions", f"{IS}.get_evidence"}
    (rep.proven if ok else rep.refuted)("R7.5", construct(f, "conflict-test"), "" if ok else "a conflict is a subscript and a piece of evidence with the same name and different values", loc(f))
    # inherited
    c06.r6_4(model, rep)
    # line 6 subscripts every district by its Markov pillow: the pillow's own definition (C14 R14.2) is part of this property's cone
    from . import c14
    sub14 = Report(rep.property_id, rep.tier)
    c14.run(model, sub14, tier)
    for ob in sub14.obligations:
        if ob.rule == "R14.2" and ("get_markov_pillow" in ob.construct or "districts" in ob.construct or "subgraph" in ob.construct):
            rep.obligations.append(ob)
    sub = Report(rep.property_id, rep.tier)
    c18.run(model, sub, tier)
    rep.obligations.extend(sub.obligations)
    rep.errors.extend(sub.errors)
    for k, v in sub.floors.items():
        rep.floors[k] = v
