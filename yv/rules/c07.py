"""C07 -- ID* estimands (partial refinement to Shpitser & Pearl 2008, ID*).

R7.1  line order and constants: empty event -> 1; effectiveness violation -> 0; tautology removal recurses on the reduced event;
      inconsistent counterfactual graph -> 0; disconnected -> line 6; conflict -> Unidentifiable; else line 9.
R7.2  polarity tables: line 2 fires iff same base and DIFFERENT value, line 3 removes iff same base and EQUAL value.
R7.3  line 6 structure: summed variables, one sub-event per district of the non-self-intervened part, subscripts = Markov pillow.
R7.4  subscripts carry the event's values (must-depend of the intervention set on the event).
R7.5  conflicts compare name equal and value different between subscripts of the graph and the evidence; line 9 is R6.4.
Counterfactual-graph rules (C18) are re-run: ID* inherits them.
"""

from __future__ import annotations

from ..model import AnalysisError, Model
from ..report import Report
from ..setalg import SetAlg, compare, f_and, f_not, f_or, show_formula, show_row
from ..symeval import Evaluator
from ..terms import NONE, Term, const, show, subterms, var
from .common import GRAPH_PRIMS, NXMG, VARIABLE, construct, loc, return_paths, short, typed, kwargs_of, exc_name
from .dslcommon import DSL_PRIMS
from . import c06, c18

IS = "y0.algorithm.identify.id_star"
CG = "y0.algorithm.identify.cg"
EVT = ("dict", None, None)


def _ev(model, prims=(), pm=()):
    return Evaluator(model, primitives=set(GRAPH_PRIMS) | set(DSL_PRIMS) | set(prims), prim_methods=set(pm) | {"get_base", "intervene", "__matmul__"})


def is_ctor(t: Term, name: str) -> bool:
    return t[0] in ("rec", "new") and str(t[1]).split(".")[-1] == name


def run(model: Model, rep: Report, tier: str) -> None:
    rep.level = "other"
    rep.explanation = (
        "id_star() is evaluated symbolically with its helpers as primitives; the order of tests and the constant answers are read off the "
        "path list. The two polarity predicates are quantified boolean terms whose bodies are compared as 2x2 tables over (same base, same "
        "value). Line 6 is checked term by term. R7.4 is a must-depend check: the intervention set attached to a district's variables must be "
        "derived from the event for pillow variables the event assigns, otherwise events that differ only in such a value get the same sub-event. "
        "Decides this structure; legitimacy of the counterfactual graph (C18's undecided core) and the value identity are not decided."
    )
    rep.trusted_base = ["Shpitser & Pearl 2008, Theorem (ID* soundness)", "C18 structural rules (re-run)", "C14"]
    rep.floors = {"R7.1": 1, "R7.2": 3, "R7.3": 5, "R7.4": 1, "R7.5": 3, "R6.4": 2}
    V = ("cls", VARIABLE)
    G = ("cls", NXMG)
    IV = ("cls", "y0.dsl.Intervention")
    from ..refcmp import load_reference, run_table
    from .common import graph_rewrite, rewriter

    if "yvref.c07" not in model.modules:
        load_reference(model, "yvref.c07", "c07_ref.py")
    sa = SetAlg(rewriter(graph_rewrite))
    helpers = {f"{IS}.{x}" for x in (
        "violates_axiom_of_effectiveness", "remove_event_tautologies", "is_redundant_counterfactual", "id_star_line_6", "get_free_variables",
        "get_events_of_each_district", "get_events_of_district", "_get_node_event", "get_conflicts", "get_cf_interventions", "get_evidence",
        "id_star_line_9", "ConflictUnidentifiable")} | {f"{CG}.make_counterfactual_graph", f"{CG}.is_not_self_intervened"}

    def mk(model, prims):
        return lambda: _ev(model, prims=prims, pm={"__neg__", "__pos__"})

    def cons(f, role):
        return construct(f, role)

    ge = {"graph": G, "event": EVT}
    cge = {"cf_graph": G, "event": EVT}
    table = [
        ("R7.1", f"{IS}.id_star", "id_star_algorithm", ge, helpers, "figure-3-lines",
         "ID* lines 1-9 in order: empty event -> 1; effectiveness violation -> 0; tautologies removed and recursion on the reduced event; "
         "inconsistent counterfactual graph -> 0; disconnected -> Σ_free Π_districts ID*(G, event of the district) on the ORIGINAL graph; "
         "conflict -> Unidentifiable; else line 9 on the non-self-intervened part"),
        ("R7.2", f"{IS}.violates_axiom_of_effectiveness", "axiom_of_effectiveness_violated", {"event": EVT}, helpers, "different-value",
         "line 2 fires iff some subscript of an event variable has the same base variable as the variable's value and a DIFFERENT value"),
        ("R7.2", f"{IS}.is_redundant_counterfactual", "redundant", {"variable": V, "value": IV}, helpers, "equal-value",
         "line 3 removes iff some subscript has the same base variable as the value and the SAME value"),
        ("R7.2", f"{IS}.remove_event_tautologies", "without_tautologies", {"event": EVT}, helpers, "drops-exactly-the-tautologies",
         "the reduced event keeps exactly the non-redundant entries, values unchanged"),
        ("R7.3", f"{IS}.id_star_line_6", "line_6", cge, helpers, "summand-and-sub-events",
         "line 6 returns the free variables and the events of each district of the same graph and event"),
        ("R7.3", f"{IS}.get_free_variables", "free_variables", cge, helpers, "summation-set",
         "summed variables are the bases of the non-self-intervened nodes minus the bases of the event"),
        ("R7.3", f"{IS}.get_events_of_each_district", "events_of_each_district", ge, helpers, "per-district",
         "one sub-event per district of the non-self-intervened sub-graph, each computed against the FULL counterfactual graph"),
        ("R7.3", f"{IS}.get_events_of_district", "events_of_district", {"graph": G, "district": ("set", V), "event": EVT}, helpers, "pillow-subscripts",
         "each district variable is reduced to its base and subscripted by the Markov pillow of its district; its value is the event's, else the default"),
        ("R7.3", f"{IS}._get_node_event", "node_event", {"node": V, "event": EVT}, helpers, "value-of-node",
         "a node's value is the event's value if it has one, else the non-starred value of its base"),
        ("R7.5", f"{IS}.get_conflicts", "conflicts_of", cge, helpers, "conflict-test",
         "a conflict is a subscript of the graph and a piece of evidence with the same name and different values"),
        ("R7.5", f"{IS}.get_cf_interventions", "cf_interventions", {"nodes": ("iter", V)}, helpers, "all-subscripts",
         "the subscripts of the counterfactual nodes, all of them"),
        ("R7.5", f"{IS}.get_evidence", "evidence", {"event": EVT}, helpers, "values-and-subscripts",
         "evidence = the event's values and the subscripts of its variables"),
    ]
    run_table(model, rep, table, "yvref.c07", mk, sa, construct=cons, loc=loc)
    # ---------------------------------------------------------------- R7.4 values of the event in the subscripts (must-depend)
    f = model.func(f"{IS}.get_events_of_district")
    ev = _ev(model)
    g6, d6, e6 = typed(ev, "graph", G), typed(ev, "district", ("set", V)), typed(ev, "event", EVT)
    r = return_paths(ev.run(f, {"graph": g6, "district": d6, "event": e6}))
    ivs = []
    for x in r:
        for s in subterms(x.value):
            if s[0] == "meth" and s[2] == "intervene":
                a = kwargs_of(s).get("variables") or (s[3][0] if s[3] else None)
                if a is not None:
                    ivs.append(a)
    cons4 = construct(f, "subscripts-carry-values")
    if not ivs:
        rep.unknown("R7.4", cons4, "no subscripting (.intervene) found in the sub-events of a district", loc(f))
    elif all(any(s == e6 for s in subterms(iv)) for iv in ivs):
        rep.proven("R7.4", cons4, loc=loc(f))
    else:
        rep.refuted("R7.4", cons4, "the subscripts of a district's variables are built from the graph alone (the Markov pillow's bare variables, which become `-x` subscripts): for pillow "
                    "variables the event assigns, the assigned value is lost, so {Y:-y, X:+x} and {Y:-y, X:-x} on X -> Y get the same sub-events and the same estimand P(X)·P[X](Y)", loc(f))
    # inherited
    c06.r6_4(model, rep)
    # line 6 subscripts every district by its Markov pillow: the pillow's own definition (C14 R14.2) is part of this property's cone
    from . import c14
    sub14 = Report(rep.property_id, rep.tier)
    c14.run(model, sub14, tier)
    for ob in sub14.obligations:
        if ob.rule == "R14.2" and ("get_markov_pillow" in ob.construct or "districts" in ob.construct or "subgraph" in ob.construct):
            rep.obligations.append(ob)
    sub = Report(rep.property_id, rep.tier)
    c18.run(model, sub, tier)
    rep.obligations.extend(sub.obligations)
    rep.errors.extend(sub.errors)
    for k, v in sub.floors.items():
        rep.floors[k] = v
