"""C18 -- counterfactual-graph construction (structural clauses only).

R18.1  the caller's event is never touched: the merge loop works on a private copy, and the one variable holding the
       current (relabelled) event is the one tested, relabelled and returned.
R18.2  success return is (H[An(E)], E) for the merged graph H and the relabelled event E.
R18.3  'inconsistent' (None) is returned only right after a merge whose two nodes both carry values in the relabelled event and
       the values differ (compared with ==/!=, not by identity).
R18.4  Lemma 24 tests: same function (same base, same self-intervention status); 'attain the same value' truth table;
       ALL differing parent pairs must agree; nodes are visited in topological order of the original graph; parallel-worlds edges
       and stitching families range over all unordered pairs of worlds.
R18.5  merge_pw keeps every node except the eliminated one (and its now-orphaned private parents).
"""

from __future__ import annotations

import ast

from ..effects import Effects
from ..model import AnalysisError, Model
from ..report import Report
from ..setalg import SetAlg, compare, f_and, f_not, f_or, show_formula, show_row
from ..symeval import Evaluator
from ..terms import Term, const, show, subterms, var
from .common import GRAPH_PRIMS, NXMG, VARIABLE, construct, graph_rewrite, graph_var, loc, return_paths, rewriter, short, typed, kwargs_of
from .dslcommon import DSL_PRIMS

CG = "y0.algorithm.identify.cg"
EVT = ("dict", None, None)
CFV = ("y0.dsl.CounterfactualVariable",)


def _ev(model, prims=(), pm=()):
    return Evaluator(model, primitives=set(GRAPH_PRIMS) | set(DSL_PRIMS) | set(prims), prim_methods=set(pm) | {"get_base", "intervene", "__matmul__"})


def run(model: Model, rep: Report, tier: str) -> None:
    rep.level = "other"
    rep.explanation = (
        "Only structural clauses are decided: (i) def-use discipline of the two loop-carried variables of make_counterfactual_graph (the "
        "current graph and the current event: initialised as copies, tested / merged / relabelled / returned through the same variable); "
        "(ii) the predicates of Lemma 24 as boolean formulas compared by satisfiability with the published case table; (iii) the shape of the "
        "success return; (iv) enumeration families (topological order, all unordered pairs of worlds). That merged nodes are the same random "
        "variable in every SCM, acyclicity and probability preservation are the core of C18 and are NOT decided by any static argument here."
    )
    rep.trusted_base = ["Shpitser & Pearl 2008, Lemmas 24/25", "C14 (subgraph, ancestors_inclusive, from_edges)"]
    rep.floors = {"R18.1": 3, "R18.2": 1, "R18.3": 2, "R18.4": 6, "R18.5": 1}
    r18_driver(model, rep)
    r18_predicates(model, rep)
    r18_families(model, rep)
    r18_merge(model, rep)


def r18_driver(model: Model, rep: Report) -> None:
    f = model.func(f"{CG}.make_counterfactual_graph")
    node = f.node
    params = [a.arg for a in node.args.args]
    gparam, eparam = params[0], params[1]
    # variables initialised from the parameters
    ev_var = None
    for st in node.body:
        if isinstance(st, ast.Assign) and isinstance(st.targets[0], ast.Name) and isinstance(st.value, ast.Call):
            src = ast.unparse(st.value)
            if src in (f"dict({eparam})", f"{eparam}.copy()", f"copy({eparam})", f"deepcopy({eparam})"):
                ev_var = st.targets[0].id
    cons = construct(f, "event-copy")
    if ev_var is None:
        rep.refuted("R18.1", cons, "the relabelling does not start from a private copy of the caller's event (update_event mutates its argument)", loc(f))
        return
    rep.proven("R18.1", cons, loc=loc(f), sample={"current-event variable": ev_var})
    eff = Effects(model)
    sm = eff.summary(f)
    if sm.mutates:
        p, es = next(iter(sm.mutates.items()))
        rep.refuted("R18.1", construct(f, "pure"), f"may modify the caller's `{p}`: {es[0].how}", loc(f, es[0].line))
    else:
        rep.proven("R18.1", construct(f, "pure"), loc=loc(f))
    # def-use discipline
    problems = []
    calls = [c for c in ast.walk(node) if isinstance(c, ast.Call) and isinstance(c.func, ast.Name)]
    gvars = set()
    for c in calls:
        nm = c.func.id
        if nm in ("lemma_24_holds", "is_inconsistent", "update_event"):
            pos = {"lemma_24_holds": 1, "is_inconsistent": 0, "update_event": 0}[nm]
            arg = c.args[pos] if len(c.args) > pos else None
            if not (isinstance(arg, ast.Name) and arg.id == ev_var):
                problems.append(f"{nm}() at line {c.lineno} is given `{ast.unparse(arg) if arg is not None else '?'}` instead of the current relabelled event `{ev_var}` "
                                "(a conflict between two already-relabelled copies is missed, or a stale event is relabelled)")
        if nm in ("lemma_24_holds", "merge_pw"):
            arg = c.args[0] if c.args else None
            if isinstance(arg, ast.Name):
                gvars.add(arg.id)
    if len(gvars) != 1:
        problems.append(f"the Lemma-24 test and the merge do not act on one current graph variable: {sorted(gvars)}")
    # update_event results must flow back into ev_var
    for st in ast.walk(node):
        if isinstance(st, ast.Assign) and isinstance(st.value, ast.Call) and getattr(st.value.func, "id", "") == "update_event":
            if not (isinstance(st.targets[0], ast.Name) and st.targets[0].id == ev_var):
                problems.append("the relabelled event is stored in another variable")
    (rep.refuted if problems else rep.proven)("R18.1", construct(f, "current-event-discipline"), "; ".join(sorted(set(problems))), loc(f))
    # R18.3: every `return (.., None)` sits under is_inconsistent(...) under lemma_24_holds(...) after merge_pw
    problems = []
    n_none = 0

    def visit(stmts, ctx):
        nonlocal n_none
        merged = False
        for st in stmts:
            if isinstance(st, ast.Assign) and isinstance(st.value, ast.Call) and getattr(st.value.func, "id", "") == "merge_pw":
                merged = True
            if isinstance(st, ast.Return) and isinstance(st.value, ast.Tuple) and len(st.value.elts) == 2 and isinstance(st.value.elts[1], ast.Constant) and st.value.elts[1].value is None:
                n_none += 1
                if not ("inconsistent" in ctx and "lemma24" in ctx and "merged" in ctx):
                    problems.append(f"'inconsistent' (None) is returned at line {st.lineno} without a preceding merge whose nodes disagree in the event")
            if isinstance(st, ast.If):
                t = ast.unparse(st.test)
                c2 = set(ctx)
                if t.startswith("lemma_24_holds("):
                    c2.add("lemma24")
                if t.startswith("is_inconsistent("):
                    c2.add("inconsistent")
                if merged:
                    c2.add("merged")
                visit(st.body, c2)
                visit(st.orelse, set(ctx) | ({"merged"} if merged else set()))
            elif isinstance(st, (ast.For, ast.While)):
                visit(st.body, set(ctx))
    visit(node.body, set())
    if n_none == 0:
        problems.append("no inconsistent return found")
    (rep.refuted if problems else rep.proven)("R18.3", construct(f, "none-only-after-conflicting-merge"), "; ".join(problems), loc(f), sample={"None returns": n_none})
    # R18.2 success return
    rets = [st for st in node.body if isinstance(st, ast.Return)]
    problems = []
    gvar = next(iter(gvars)) if len(gvars) == 1 else None
    if len(rets) != 1 or not isinstance(rets[0].value, ast.Tuple):
        problems.append("no single success return")
    else:
        g_e, e_e = rets[0].value.elts
        if not (isinstance(e_e, ast.Name) and e_e.id == ev_var):
            problems.append("the returned event is not the relabelled event")
        # resolve g_e through straight-line assignments
        defs = {st.targets[0].id: st.value for st in node.body if isinstance(st, ast.Assign) and isinstance(st.targets[0], ast.Name)}
        ge = ast.unparse(defs.get(g_e.id, g_e)) if isinstance(g_e, ast.Name) else ast.unparse(g_e)
        anc = [k for k, v in defs.items() if ast.unparse(v) == f"{gvar}.ancestors_inclusive({ev_var})"]
        ok = any(ge == f"{gvar}.subgraph({a})" for a in anc) or ge == f"{gvar}.subgraph({gvar}.ancestors_inclusive({ev_var}))"
        if not ok:
            problems.append(f"the returned graph is `{ge}`, not the merged graph restricted to the ancestors of the relabelled event")
    (rep.refuted if problems else rep.proven)("R18.2", construct(f, "ancestral-restriction"), "; ".join(problems), loc(f))
    # topological order of the original graph, all worlds, all unordered pairs of worlds
    problems = []
    loops = [st for st in node.body if isinstance(st, ast.For)]
    if not loops or ast.unparse(loops[0].iter) != f"{gparam}.topological_sort()":
        problems.append(f"nodes are visited as `{ast.unparse(loops[0].iter) if loops else '?'}`, not in topological order of the original graph "
                        "(a child visited before its parents is tested before their copies are merged, so its own copies are not merged)")
    else:
        inner = [st for st in ast.walk(loops[0]) if isinstance(st, ast.For) and st is not loops[0]]
        its = [ast.unparse(x.iter) for x in inner]
        if not any(i == "worlds" for i in its):
            problems.append("not every world's copy is compared with the factual node")
        if not any(i.replace("itertools.", "").replace("itt.", "") == "combinations(worlds, 2)" for i in its):
            problems.append("copies in two different worlds are not compared for every unordered pair of worlds")
    (rep.refuted if problems else rep.proven)("R18.4", construct(f, "visit-order"), "; ".join(problems), loc(f))


def r18_predicates(model: Model, rep: Report) -> None:
    sa = SetAlg()
    V = ("cls", VARIABLE)
    # is_inconsistent
    f = model.func(f"{CG}.is_inconsistent")
    ev = _ev(model)
    e, a, b = typed(ev, "event", EVT), typed(ev, "node", V), typed(ev, "node_at_interventions", V)
    rets = return_paths(ev.run(f, {"event": e, "node": a, "node_at_interventions": b}))
    want = f_and(sa.cond(("in", a, e)), sa.cond(("in", b, e)), f_not(sa.eq_atom(("index", e, a), ("index", e, b))))
    got = f_or(*[f_and(*[sa.cond(c) for c in r.conds], sa.cond(r.value) if r.value[0] != "const" else (r.value[1] is True)) for r in rets])
    eq, row, _ = compare(got, want)
    (rep.proven if eq else rep.refuted)("R18.3", construct(f, "compares-values"), "" if eq else
                                        "two merged nodes are inconsistent iff both carry a value in the event and the values are unequal (==); implementation: " + short(show_formula(got), 200), loc(f))
    # has_same_function
    f = model.func(f"{CG}.has_same_function")
    ev = _ev(model, prims={f"{CG}.is_not_self_intervened"})
    a, b = typed(ev, "node1", V), typed(ev, "node2", V)
    rets = return_paths(ev.run(f, {"node1": a, "node2": b}))
    base = lambda x: ("meth", x, "get_base", (), ())  # noqa: E731
    nsi = lambda x: ("call", f"{CG}.is_not_self_intervened", (), (("node", x),))  # noqa: E731
    want = f_and(sa.eq_atom(base(a), base(b)), sa.eq_atom(nsi(a), nsi(b)))
    got = f_or(*[f_and(*[sa.cond(c) for c in r.conds], sa.cond(r.value) if r.value[0] != "const" else (r.value[1] is True)) for r in rets])
    eq, row, _ = compare(got, want)
    (rep.proven if eq else rep.refuted)("R18.4", construct(f, "same-function"), "" if eq else "merge candidates must have the same base variable and the same self-intervention status", loc(f))
    # nodes_attain_same_value: published case table
    f = model.func(f"{CG}.nodes_attain_same_value")
    ev = _ev(model, prims={f"{CG}.has_same_confounders"})
    g, e, a, b = typed(ev, "graph", ("cls", NXMG)), typed(ev, "event", EVT), typed(ev, "a", V), typed(ev, "b", V)
    rets = return_paths(ev.run(f, {"graph": g, "event": e, "a": a, "b": b}))
    got = f_or(*[f_and(*[sa.cond(c) for c in r.conds]) for r in rets if r.value == const(True)])
    nonbool = [r for r in rets if r.value not in (const(True), const(False))]
    same = sa.eq_atom(a, b)
    conf = sa.cond(("call", f"{CG}.has_same_confounders", (), (("a", a), ("b", b), ("graph", g))))
    sb = sa.eq_atom(base(a), base(b))
    ina, inb = sa.cond(("in", a, e)), sa.cond(("in", b, e))
    va, vb = ("index", e, a), ("index", e, b)
    cfa, cfb = sa.cond(("isinstance", a, CFV)), sa.cond(("isinstance", b, CFV))
    want = f_or(same, f_and(conf, sb, f_or(
        f_and(ina, inb, sa.eq_atom(va, vb)),
        f_and(ina, f_not(inb), cfb, sa.cond(("in", va, ("attr", b, "interventions")))),
        f_and(f_not(ina), inb, cfa, sa.cond(("in", vb, ("attr", a, "interventions")))),
        f_and(f_not(ina), f_not(inb), f_not(cfa), f_not(cfb)))))
    if nonbool:
        rep.unknown("R18.4", construct(f, "same-value-table"), "non-boolean return: " + short(show(nonbool[0].value), 100), loc(f))
    else:
        eq, row, _ = compare(got, want)
        (rep.proven if eq else rep.refuted)("R18.4", construct(f, "same-value-table"), "" if eq else
                                            "two parents 'attain the same value' iff (same node) or (same confounders, same base and: both observed with equal values / one observed "
                                            f"with the value the other is intervened to / neither observed and neither counterfactual); differs when [{short(show_row(row), 300)}]", loc(f))
    # parents_attain_same_values: ALL differing pairs
    f = model.func(f"{CG}.parents_attain_same_values")
    ev = _ev(model, prims={f"{CG}.has_same_confounders", f"{CG}.nodes_attain_same_value"})
    g, e, a, b = typed(ev, "graph", ("cls", NXMG)), typed(ev, "event", EVT), typed(ev, "a", V), typed(ev, "b", V)
    rets = return_paths(ev.run(f, {"graph": g, "event": e, "a": a, "b": b}))
    problems = []
    quant = [r.value for r in rets if r.value[0] in ("all", "any")]
    if len(quant) != 1 or quant[0][0] != "all":
        problems.append("EVERY pair of differing parents must attain the same value (with any(), one agreeing pair wrongly merges two different worlds' copies)")
    else:
        c = quant[0][1]
        it = c[3][0][1]
        if not (it[0] == "call" and it[1] == "zip" and all(x[0] == "call" and x[1] == "sorted" for x in it[2][:2])):
            problems.append("differing parents are not paired up in a common (sorted by base) order")
        call = c[2]
        if not (call[0] == "call" and call[1] == f"{CG}.nodes_attain_same_value" and kwargs_of(call).get("event") == e and kwargs_of(call).get("graph") == g):
            problems.append("pairs are not tested with nodes_attain_same_value on the current graph and event")
    if not any(r.value == const(False) and any(c[0] == "ne" and c[1][0] == "len" for c in r.conds) for r in rets):
        problems.append("different numbers of differing parents must fail")
    (rep.refuted if problems else rep.proven)("R18.4", construct(f, "all-parent-pairs"), "; ".join(problems), loc(f))


def r18_families(model: Model, rep: Report) -> None:
    for fn, pairwise in (("stitch_counterfactual_and_dopplegangers", True), ("stitch_counterfactual_and_doppleganger_neighbors", True),
                         ("stitch_counterfactual_and_neighbors", False), ("stitch_factual_and_dopplegangers", False),
                         ("stitch_factual_and_doppleganger_neighbors", False), ("_get_directed_edges", False)):
        f = model.func(f"{CG}.{fn}")
        comps = [n for n in ast.walk(f.node) if isinstance(n, ast.SetComp)]
        problems = []
        if not comps:
            problems.append("no edge comprehension")
        else:
            c = comps[0]
            its = [ast.unparse(g.iter).replace("itertools.", "").replace("itt.", "") for g in c.generators]
            if pairwise and "combinations(worlds, 2)" not in its:
                problems.append(f"world pairs are enumerated as `{its[0]}`: with three or more worlds some unordered pairs of worlds get no cross-world bidirected edge")
            if not pairwise and "worlds" not in its:
                problems.append("not every world is covered")
            if not any(i in ("graph.nodes()", "graph.directed.edges()") for i in its):
                problems.append("not every node/edge of the graph is covered")
        (rep.refuted if problems else rep.proven)("R18.4", construct(f, "family"), "; ".join(problems), loc(f))


def r18_merge(model: Model, rep: Report) -> None:
    f = model.func(f"{CG}.merge_pw")
    src = ast.unparse(f.node)
    nodes_comp = [n for n in ast.walk(f.node) if isinstance(n, ast.keyword) and n.arg == "nodes"]
    problems = []
    if not nodes_comp:
        problems.append("merged graph is not given an explicit node list")
    else:
        txt = ast.unparse(nodes_comp[0].value)
        if "graph.nodes()" not in txt or "node != node2" not in txt:
            problems.append("the merged graph must keep every node except the eliminated one: " + txt)
    (rep.refuted if problems else rep.proven)("R18.5", construct(f, "keeps-nodes"), "; ".join(problems), loc(f))
