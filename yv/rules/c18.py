"""C18 -- counterfactual-graph construction (structural clauses only).

R18.1  the caller's event is never touched: the merge loop works on a private copy, and the one variable holding the
       current (relabelled) event is the one tested, relabelled and returned.
R18.2  success return is (H[An(E)], E) for the merged graph H and the relabelled event E.
R18.3  'inconsistent' (None) is returned only right after a merge whose two nodes both carry values in the relabelled event and
       the values differ (compared with ==/!=, not by identity).
R18.4  Lemma 24 tests: same function (same base, same self-intervention status); 'attain the same value' truth table;
       ALL differing parent pairs must agree; nodes are visited in topological order of the original graph; parallel-worlds edges
       and stitching families range over all unordered pairs of worlds.
R18.5  merge_pw keeps every node except the eliminated one (and its now-orphaned private parents).
"""

from __future__ import annotations

import ast

from ..effects import Effects
from ..model import AnalysisError, Model
from ..report import Report
from ..setalg import SetAlg, compare, f_and, f_not, f_or, show_formula, show_row
from ..symeval import Evaluator
from ..refcmp import load_reference, run_table
from ..terms import Term, const, show, subterms, var
from .common import GRAPH_PRIMS, NXMG, VARIABLE, construct, graph_rewrite, graph_var, loc, return_paths, rewriter, short, typed, kwargs_of
from .dslcommon import DSL_PRIMS

CG = "y0.algorithm.identify.cg"
EVT = ("dict", None, None)
CFV = ("y0.dsl.CounterfactualVariable",)


def _ev(model, prims=(), pm=()):
    return Evaluator(model, primitives=set(GRAPH_PRIMS) | set(DSL_PRIMS) | set(prims), prim_methods=set(pm) | {"get_base", "intervene", "__matmul__"})


W = ("set", ("cls", f"{CG}.World"))
G = ("cls", NXMG)
VV = ("cls", VARIABLE)
REF = "yvref.c18"
HELPERS = {f"{CG}.{x}" for x in (
    "extract_interventions", "make_parallel_worlds_graph", "lemma_24_holds", "merge_pw", "is_inconsistent", "update_event", "_get_directed_edges",
    "node_not_an_intervention_in_world", "stitch_counterfactual_and_doppleganger_neighbors", "stitch_counterfactual_and_dopplegangers",
    "stitch_counterfactual_and_neighbors", "stitch_factual_and_doppleganger_neighbors", "stitch_factual_and_dopplegangers", "World")}

# the two cross-world stitching families are inlined when the parallel-worlds graph is compared: they range over pairs of worlds, so whether the
# construction guards them with "at least two worlds" or not is the same graph
CROSS_WORLD = {f"{CG}.stitch_counterfactual_and_doppleganger_neighbors", f"{CG}.stitch_counterfactual_and_dopplegangers"}

TABLE = [
    ("R18.1", f"{CG}.make_counterfactual_graph", "counterfactual_graph", {"graph": G, "event": EVT}, HELPERS, "make-cg",
     "private copy of the event; nodes of G in topological order; node vs its copy in every world, then copies of every unordered pair of worlds; each test, merge, "
     "conflict check and relabelling acts on the CURRENT graph and the CURRENT relabelled event; None right after a conflicting merge; result (H[An(E)], E)"),
    ("R18.4", f"{CG}.make_parallel_worlds_graph", "parallel_worlds_graph", {"graph": G, "worlds": W}, HELPERS - CROSS_WORLD, "parallel-worlds",
     "G plus one copy per world; directed copies except into intervened nodes; the five stitching families; cross-world families only with ≥2 worlds"),
    ("R18.4", f"{CG}.extract_interventions", "worlds_of", {"variables": ("iter", VV)}, HELPERS, "worlds", "one world per distinct subscript set of the event"),
    ("R18.4", f"{CG}._get_directed_edges", "directed_copies", {"graph": G, "worlds": W}, HELPERS, "family:directed-copies", "u_w -> v_w for every edge u -> v unless v is intervened in w"),
    ("R18.4", f"{CG}.stitch_factual_and_dopplegangers", "factual_and_dopplegangers", {"graph": G, "worlds": W}, HELPERS, "family:factual-doppleganger", "u <-> u_w for every world"),
    ("R18.4", f"{CG}.stitch_factual_and_doppleganger_neighbors", "factual_and_doppleganger_neighbors", {"graph": G, "worlds": W}, HELPERS,
     "family:factual-doppleganger-neighbours", "u <-> v_w for every bidirected neighbour v of u, every world"),
    ("R18.4", f"{CG}.stitch_counterfactual_and_dopplegangers", "counterfactual_and_dopplegangers", {"graph": G, "worlds": W}, HELPERS,
     "family:counterfactual-doppleganger", "u_w1 <-> u_w2 for EVERY unordered pair of worlds"),
    ("R18.4", f"{CG}.stitch_counterfactual_and_doppleganger_neighbors", "counterfactual_and_doppleganger_neighbors", {"graph": G, "worlds": W}, HELPERS,
     "family:counterfactual-doppleganger-neighbours", "u_w1 <-> v_w2 for every bidirected neighbour, EVERY unordered pair of worlds"),
    ("R18.4", f"{CG}.stitch_counterfactual_and_neighbors", "counterfactual_and_neighbors", {"graph": G, "worlds": W}, HELPERS,
     "family:counterfactual-neighbours", "u_w <-> v_w inside every world"),
    ("R18.4", f"{CG}.node_not_an_intervention_in_world", "not_intervened_in", {"world": ("cls", f"{CG}.World"), "node": VV}, (), "not-intervened", "neither +v nor -v is in the world"),
    ("R18.1", f"{CG}.update_event", "relabel", {"event": EVT, "preferred_node": VV, "eliminated_node": VV}, (), "relabel",
     "the eliminated node's value moves to the preferred node, only if the eliminated node carries a value (hence idempotent)"),
    ("R18.5", f"{CG}.merge_pw", "merged", {"graph": G, "node1": VV, "node2": VV}, {"y0.dsl._variable_sort_key", f"{CG}._variable_sort_key"}, "lemma-25",
     "node2 merged into node1 (factual / lower name kept): node1 keeps its parents and inherits node2's children and bidirected neighbours; node2 and its unshared parents are dropped, every other node stays"),
]


def _mk(model: Model, prims=()):
    def make():
        ev = Evaluator(model, primitives=set(GRAPH_PRIMS) | set(DSL_PRIMS) | set(prims), prim_methods={"get_base", "intervene", "__matmul__", "__pos__", "__neg__"})
        ev.loop_once = True
        return ev
    return make


def c18_rewrite(t: Term):
    """Identities used when comparing make-cg with its definition; each has its premise checked by an obligation of this module:
    (a) from_edges(V(g), Ed(g), Eu(g)) = g (C14);  (b) is_inconsistent is symmetric and merge_pw returns its two nodes (R18.3, R18.5#returns-its-nodes);
    (c) relabelling twice with the same pair = once (R18.1#relabel)."""
    h = t[0]
    if h == "call" and str(t[1]).endswith("from_edges"):
        kw = dict(t[3])
        n, d, u = kw.get("nodes"), kw.get("directed"), kw.get("undirected")
        if n is not None and d is not None and u is not None and n[0] == "V" and d[0] == "Ed" and u[0] == "Eu" and n[1] == d[1] == u[1]:
            return n[1]
    if h == "call" and str(t[1]).endswith(".is_inconsistent"):
        kw = dict(t[3])
        a, b = kw.get("node"), kw.get("node_at_interventions")
        if a is not None and b is not None:
            if a[0] == "index" and b[0] == "index" and a[1] == b[1] and a[1][0] == "call" and str(a[1][1]).endswith(".merge_pw") and {a[2], b[2]} == {("const", 1), ("const", 2)}:
                mk_ = dict(a[1][3])
                a, b = mk_.get("node1"), mk_.get("node2")
            x, y = sorted([a, b], key=repr)
            return ("call", t[1], t[2], tuple(sorted({**kw, "node": x, "node_at_interventions": y}.items())))
    if h == "call" and str(t[1]).endswith(".update_event"):
        kw = dict(t[3])
        inner = kw.get("event")
        if inner is not None and inner[0] == "call" and inner[1] == t[1]:
            k2 = dict(inner[3])
            if k2.get("preferred_node") == kw.get("preferred_node") and k2.get("eliminated_node") == kw.get("eliminated_node"):
                return inner
    return None


def run(model: Model, rep: Report, tier: str) -> None:
    rep.level = "other"
    rep.explanation = (
        "Only structural clauses are decided. make_counterfactual_graph, the parallel-worlds construction, its edge families, the relabelling and "
        "Lemma 25's merge are compared with the published construction written as Python (yv/refs/c18_ref.py): both sides are evaluated by the same "
        "evaluator, loops through the 'state after one generic iteration' abstraction, and outcomes must agree wherever the guards overlap (alpha-"
        "renaming, set algebra, boolean restructuring, copy-of-graph and order of tests do not matter). The Lemma-24 predicates are boolean formulas "
        "compared by satisfiability with the published case table. The caller's event is shown untouched by the effects analysis. That merged nodes "
        "are the same random variable in every SCM, acyclicity and probability preservation are the core of C18 and are NOT decided by any static argument here."
    )
    rep.trusted_base = ["Shpitser & Pearl 2008, Lemmas 24/25", "C14 (subgraph, ancestors_inclusive, from_edges)"]
    rep.floors = {"R18.1": 3, "R18.3": 1, "R18.4": 12, "R18.5": 2, "R18.6": 1}
    r18_renaming_follows_merge(model, rep)
    load_reference(model, REF, "c18_ref.py")
    sa = SetAlg(rewriter(graph_rewrite, c18_rewrite))
    from .. import nxden
    run_table(model, rep, TABLE, REF, _mk, sa, construct=construct, loc=loc, post=nxden.post)
    # the caller's event and graph are untouched
    f = model.func(f"{CG}.make_counterfactual_graph")
    eff = Effects(model)
    sm = eff.summary(f)
    if sm.mutates:
        p, es = next(iter(sm.mutates.items()))
        rep.refuted("R18.1", construct(f, "pure"), f"may modify the caller's `{p}`: {es[0].how}", loc(f, es[0].line))
    else:
        rep.proven("R18.1", construct(f, "pure"), loc=loc(f))
    # premise (b): merge_pw returns (graph, x, y) with {x, y} = {node1, node2}
    fm = model.func(f"{CG}.merge_pw")
    ev = _mk(model, {"y0.dsl._variable_sort_key", f"{CG}._variable_sort_key"})()
    n1, n2 = typed(ev, "node1", VV), typed(ev, "node2", VV)
    problems = []
    for p in return_paths(ev.run(fm, {"graph": graph_var(ev, "graph"), "node1": n1, "node2": n2})):
        v = p.value
        if not (v[0] == "tuplelit" and len(v[1]) == 3):
            problems.append("does not return (graph, kept, dropped)")
            continue
        x, y = v[1][1], v[1][2]
        srt = ("call", "sorted", (("listlit", (n1, n2)),), None)
        def is_ix(t, i):
            return t[0] == "index" and t[2] == ("const", i) and t[1][0] == "call" and t[1][1] == "sorted"
        both_ways = (x[0] == "ite" and y[0] == "ite" and x[1] == y[1] and {x[2], y[2]} == {n1, n2} and {x[3], y[3]} == {n1, n2})
        if not ({x, y} == {n1, n2} or (is_ix(x, 0) and is_ix(y, 1) and x[1] == y[1]) or both_ways):
            problems.append("the kept / dropped nodes it reports are not the two nodes it was given")
    (rep.refuted if problems else rep.proven)("R18.5", construct(fm, "returns-its-nodes"), "; ".join(sorted(set(problems))), loc(fm))
    r18_predicates(model, rep)


def r18_renaming_follows_merge(model: Model, rep: Report) -> None:
    """R18.6: the pair handed to the event renaming is the pair the merge returned.

    Def-use over every routine of the module that calls the renamer: the names passed as (kept, dropped) must be bound, at every
    binding in that routine, by unpacking positions 1 and 2 of a call of the merge routine.  The merge removes `dropped` from the
    graph; renaming any other pair leaves the event speaking of a node the graph no longer has (or moves the value the wrong way).
    REFUTED only when no binding of the name comes from the merge; anything the def-use cannot classify is left UNKNOWN.
    """
    merge = model.func(f"{CG}.merge_pw")
    renamer = model.func(f"{CG}.update_event")
    rparams = renamer.params
    sites = 0
    for f in model.funcs_in_module(CG):
        calls = [n for n in ast.walk(f.node) if isinstance(n, ast.Call) and isinstance(n.func, ast.Name)
                 and model.resolve_name(f.module, n.func.id) is renamer]
        if not calls:
            continue
        # bindings of plain names in f: name -> list of ("merge", position) | ("other", line)
        binds: dict[str, list[tuple[str, int]]] = {}
        for p in f.params:
            binds.setdefault(p, []).append(("param", f.node.lineno))
        for n in ast.walk(f.node):
            tgts, val = [], None
            if isinstance(n, ast.Assign):
                tgts, val = n.targets, n.value
            elif isinstance(n, (ast.AnnAssign, ast.AugAssign)) and n.value is not None:
                tgts, val = [n.target], n.value
            elif isinstance(n, (ast.For, ast.comprehension)):
                tgts, val = [n.target], None
            elif isinstance(n, ast.NamedExpr):
                tgts, val = [n.target], n.value
            is_merge = (isinstance(val, ast.Call) and isinstance(val.func, ast.Name) and model.resolve_name(f.module, val.func.id) is merge)
            for t in tgts:
                if isinstance(t, (ast.Tuple, ast.List)):
                    for i, e in enumerate(t.elts):
                        for nm in ast.walk(e):
                            if isinstance(nm, ast.Name):
                                binds.setdefault(nm.id, []).append(("merge", i) if is_merge and isinstance(e, ast.Name) else ("other", n.lineno if hasattr(n, "lineno") else f.node.lineno))
                else:
                    for nm in ast.walk(t):
                        if isinstance(nm, ast.Name):
                            binds.setdefault(nm.id, []).append(("other", getattr(n, "lineno", f.node.lineno)))
        for c in calls:
            sites += 1
            args: dict[str, ast.expr] = {}
            for i, a in enumerate(c.args):
                if i < len(rparams):
                    args[rparams[i]] = a
            for k in c.keywords:
                if k.arg:
                    args[k.arg] = k.value
            role = f"renames-merged-pair@{sites}"
            verdict, why = "proven", ""
            for pos, pname in ((1, rparams[1]), (2, rparams[2])) if len(rparams) >= 3 else ():
                a = args.get(pname)
                if not isinstance(a, ast.Name):
                    verdict, why = "unknown", f"argument `{pname}` is not a plain name"
                    break
                bs = binds.get(a.id, [])
                kinds = {b for b in bs if b[0] == "merge"}
                if bs and all(b == ("merge", pos) for b in bs):
                    continue
                if not kinds:
                    if any(b[0] == "param" for b in bs):
                        verdict, why = "unknown", f"`{a.id}` is a parameter of the routine"
                    else:
                        verdict, why = "refuted", (f"the event is renamed with `{a.id}` as its {'kept' if pos == 1 else 'dropped'} node, which is never bound to what "
                                                   f"{merge.name} returned (bound at line {bs[0][1] if bs else '?'}); {merge.name} decides which of the two nodes "
                                                   "survives in the graph, and the event must follow that choice")
                    break
                if any(b[0] == "merge" and b[1] != pos for b in bs):
                    verdict, why = "refuted", f"`{a.id}` is position {sorted(b[1] for b in kinds)} of {merge.name}'s result but is used as the {'kept' if pos == 1 else 'dropped'} node"
                    break
                verdict, why = "unknown", f"`{a.id}` is bound both from {merge.name} and otherwise"
                break
            getattr(rep, verdict)("R18.6", construct(f, role), why, loc(f, c.lineno))
    if not sites:
        raise AnalysisError(f"R18.6: no call of {renamer.qname} found in {CG}")


def r18_predicates(model: Model, rep: Report) -> None:
    sa = SetAlg()
    V = ("cls", VARIABLE)
    # is_inconsistent
    f = model.func(f"{CG}.is_inconsistent")
    ev = _ev(model)
    e, a, b = typed(ev, "event", EVT), typed(ev, "node", V), typed(ev, "node_at_interventions", V)
    rets = return_paths(ev.run(f, {"event": e, "node": a, "node_at_interventions": b}))
    want = f_and(sa.cond(("in", a, e)), sa.cond(("in", b, e)), f_not(sa.eq_atom(("index", e, a), ("index", e, b))))
    got = f_or(*[f_and(*[sa.cond(c) for c in r.conds], sa.cond(r.value) if r.value[0] != "const" else (r.value[1] is True)) for r in rets])
    eq, row, _ = compare(got, want)
    (rep.proven if eq else rep.refuted)("R18.3", construct(f, "compares-values"), "" if eq else
                                        "two merged nodes are inconsistent iff both carry a value in the event and the values are unequal (==); implementation: " + short(show_formula(got), 200), loc(f))
    # has_same_function
    f = model.func(f"{CG}.has_same_function")
    ev = _ev(model, prims={f"{CG}.is_not_self_intervened"})
    a, b = typed(ev, "node1", V), typed(ev, "node2", V)
    rets = return_paths(ev.run(f, {"node1": a, "node2": b}))
    base = lambda x: ("meth", x, "get_base", (), ())  # noqa: E731
    nsi = lambda x: ("call", f"{CG}.is_not_self_intervened", (), (("node", x),))  # noqa: E731
    want = f_and(sa.eq_atom(base(a), base(b)), sa.eq_atom(nsi(a), nsi(b)))
    got = f_or(*[f_and(*[sa.cond(c) for c in r.conds], sa.cond(r.value) if r.value[0] != "const" else (r.value[1] is True)) for r in rets])
    eq, row, _ = compare(got, want)
    (rep.proven if eq else rep.refuted)("R18.4", construct(f, "same-function"), "" if eq else "merge candidates must have the same base variable and the same self-intervention status", loc(f))
    # nodes_attain_same_value: published case table
    f = model.func(f"{CG}.nodes_attain_same_value")
    ev = _ev(model, prims={f"{CG}.has_same_confounders"})
    g, e, a, b = typed(ev, "graph", ("cls", NXMG)), typed(ev, "event", EVT), typed(ev, "a", V), typed(ev, "b", V)
    from ..symeval import bool_paths
    rets = bool_paths(return_paths(ev.run(f, {"graph": g, "event": e, "a": a, "b": b})))
    got = f_or(*[f_and(*[sa.cond(c) for c in r.conds]) for r in rets if r.value == const(True)])
    nonbool = [r for r in rets if r.value not in (const(True), const(False))]
    same = sa.eq_atom(a, b)
    conf = sa.cond(("call", f"{CG}.has_same_confounders", (), (("a", a), ("b", b), ("graph", g))))
    sb = sa.eq_atom(base(a), base(b))
    ina, inb = sa.cond(("in", a, e)), sa.cond(("in", b, e))
    va, vb = ("index", e, a), ("index", e, b)
    cfa, cfb = sa.cond(("isinstance", a, CFV)), sa.cond(("isinstance", b, CFV))
    want = f_or(same, f_and(conf, sb, f_or(
        f_and(ina, inb, sa.eq_atom(va, vb)),
        f_and(ina, f_not(inb), cfb, sa.cond(("in", va, ("attr", b, "interventions")))),
        f_and(f_not(ina), inb, cfa, sa.cond(("in", vb, ("attr", a, "interventions")))),
        f_and(f_not(ina), f_not(inb), f_not(cfa), f_not(cfb)))))
    if nonbool:
        rep.unknown("R18.4", construct(f, "same-value-table"), "non-boolean return: " + short(show(nonbool[0].value), 100), loc(f))
    else:
        eq, row, _ = compare(got, want)
        (rep.proven if eq else rep.refuted)("R18.4", construct(f, "same-value-table"), "" if eq else
                                            "two parents 'attain the same value' iff (same node) or (same confounders, same base and: both observed with equal values / one observed "
                                            f"with the value the other is intervened to / neither observed and neither counterfactual); differs when [{short(show_row(row), 300)}]", loc(f))
    # parents_attain_same_values: ALL differing pairs (reference comparison)
    run_table(model, rep, [
        ("R18.4", f"{CG}.parents_attain_same_values", "parents_match", {"graph": ("cls", NXMG), "event": EVT, "a": V, "b": V},
         {f"{CG}.has_same_confounders", f"{CG}.nodes_attain_same_value"}, "all-parent-pairs",
         "same confounders, equally many differing parents, and EVERY pair of them (in base-name order) attains the same value"),
        ("R18.4", f"{CG}.lemma_24_holds", "lemma_24", {"cf_graph": ("cls", NXMG), "event": EVT, "node": V, "node_at_interventions": V},
         {f"{CG}.is_pw_equivalent"}, "lemma-24", "both nodes are in the graph and they are equivalent under the parallel-worlds assumption -- nothing else decides a merge"),
        ("R18.4", f"{CG}.is_pw_equivalent", "pw_equivalent", {"graph": ("cls", NXMG), "event": EVT, "node1": V, "node2": V},
         {f"{CG}.has_same_function", f"{CG}.parents_attain_same_values", f"{CG}.nodes_have_same_domain_of_values"}, "three-conditions",
         "same mechanism AND parents attaining the same values AND the same domain of values; a node outside the graph is refused"),
        ("R18.4", f"{CG}.nodes_have_same_domain_of_values", "same_domain", {"graph": ("cls", NXMG), "event": EVT, "a": V, "b": V},
         {f"{CG}.has_same_confounders", f"{CG}.is_not_self_intervened", f"{CG}.value_of_self_intervention"}, "same-domain",
         "same confounders and base variable, and either neither node is fixed by an intervention on itself or both are fixed to the same value"),
        ("R18.4", f"{CG}.value_of_self_intervention", "own_value", {"a": V}, (), "own-value",
         "the +base / -base among a counterfactual variable's own subscripts, else nothing"),
        ("R18.5", "y0.dsl._variable_sort_key", "lower_of_two_key", {"variable": V}, ("y0.dsl._sort_interventions",), "lower-of-two",
         "merge_pw keeps 'the lower' of two copies by this key: name first, then the sorted subscripts written one after the other (the copy with "
         "fewer subscripts first); ID* line 9 subscripts the whole district with the subscripts of the names that were kept"),
    ], REF, _mk, SetAlg(rewriter(graph_rewrite, c18_rewrite)), construct=construct, loc=loc)


