"""C16 -- LV-DAG conversion round-trips; Evans simplification keeps the observed model.

R16.1  node set survives both conversions (ADMG -> LV-DAG adds every node of the graph; LV-DAG -> ADMG adds every
       non-latent node, unconditionally).
R16.2  edge roles of the round trip: latent -> bidirected edge between each pair of its children; observed -> directed edges.
R16.3  only latents are removed by the four rules.
R16.4  rule guards (widow / unidirectional / middle / redundant), the middle-latent transformation, and the rule order.
R16.5  evans_simplify works on a fresh LV-DAG, never on the caller's graph, and only ever *adds* latent tags.
"""

from __future__ import annotations

import ast

from ..effects import Effects
from ..model import AnalysisError, Model
from ..report import Report
from ..setalg import SetAlg, atoms_of, compare, f_and, f_not, f_or, show_formula, show_row
from ..symeval import Evaluator
from ..terms import NONE, Term, const, mapterm, show, subterms, var
from .common import NXMG, VARIABLE, construct, graph_rewrite, graph_var, loc, return_paths, rewriter, short, typed, kwargs_of

SL = "y0.algorithm.simplify_latent"
BUILDERS = {"add_node", "add_directed_edge", "add_undirected_edge"}


def _effects(t: Term):
    """Flatten a built value into (base, [(effect, gens)])."""
    effs = []
    while t[0] in ("accum", "mut"):
        if t[0] == "accum":
            effs.append((t[3], tuple(t[4])))
            t = t[2]
        else:
            for e in reversed(t[2]):
                effs.append((e, ()))
            t = t[1]
    return t, list(reversed(effs))


def _norm_len(c: Term) -> Term:
    """len(X) == 0 / 0 == len(X) / len(X) != 0  ->  (not) truth(X)."""
    def f(s):
        if s[0] in ("eq", "ne"):
            a, b = s[1], s[2]
            if a == const(0) and b[0] == "len":
                a, b = b, a
            if b == const(0) and a[0] == "len":
                t = ("truth", a[1])
                return ("not", t) if s[0] == "eq" else t
        return None
    return mapterm(c, f)


def run(model: Model, rep: Report, tier: str) -> None:
    rep.level = "other"
    rep.explanation = (
        "The two conversions are evaluated symbolically into a fresh graph plus builder effects; the node clause is a "
        "must-contain check on those effects (an isolated node has no edge to bring it along). Each Evans rule's generator "
        "is evaluated to `[x for x in iter_latents(g) if guard]`; the guard is compared by truth table with the published guard, "
        "and membership of every removed set is shown to imply membership in iter_latents. The middle-latent transformation is "
        "checked effect by effect. Decides node preservation, 'only latents are removed', the guards and their order. Does not "
        "decide idempotence of the pipeline, equality with the latent projection, or invariance of separation/identifiability."
    )
    rep.trusted_base = ["networkx DiGraph add/remove, successors/predecessors, out_degree, topological_sort", "itertools.combinations/product"]
    rep.floors = {"R16.1": 2, "R16.2": 2, "R16.3": 4, "R16.4": 6, "R16.5": 2}
    sa = SetAlg(rewrite=rewriter(graph_rewrite))
    x = var("%x")
    # ------------------------------------------------------------------ R16.1a  ADMG -> LV-DAG
    f = model.func(f"{NXMG}.to_latent_variable_dag")
    ev = Evaluator(model, prim_methods=set(BUILDERS))
    G = graph_var(ev, "self")
    rets = return_paths(ev.run(f, {}, self_term=G))
    cons = construct(f, "node-set")
    if len(rets) != 1:
        rep.unknown("R16.1", cons, f"{len(rets)} return paths", loc(f))
    else:
        base, effs = _effects(rets[0].value)
        node_sources = [sa.strip(e[2][0]) for e, g in effs if e[0] == "call" and e[1] == "add_nodes_from" and e[2] and not g]
        edge_sources = [sa.strip(e[2][0]) for e, g in effs if e[0] == "call" and e[1] == "add_edges_from" and e[2] and not g]
        if ("V", G) in node_sources:
            rep.proven("R16.1", cons, loc=loc(f), sample={"nodes added from": [short(show(n), 80) for n in node_sources]})
        else:
            rep.refuted("R16.1", cons, "the latent-variable DAG is built from the two edge lists only: a node without any edge is lost, so the conversion "
                        "does not round-trip a graph with an isolated node (nodes come from: " + ", ".join(short(show(n), 60) for n in node_sources) + ")", loc(f))
        # R16.2 forward roles: directed edges copied, one latent per bidirected edge with edges to both ends
        problems = []
        if ("Ed", G) not in edge_sources:
            problems.append("directed edges are not copied")
        lat_targets = set()
        lat_terms = set()
        for e, g in effs:
            if e[0] == "call" and e[1] == "add_edge" and g:
                src = g[-1][1]
                core = src
                while core[0] == "call" and core[2]:
                    core = core[2][0]
                if sa.strip(core) == ("Eu", G) or sa.strip(core)[0] == "Eu":
                    pat = g[-1][0]
                    uv = [s for s in subterms(pat) if s[0] == "var"]
                    lat_terms.add(e[2][0])
                    lat_targets.add(e[2][1])
                    if any(c for c in g[-1][2] if not _benign_name_guard(c)):
                        problems.append("some bidirected edges get no latent node")
        if len(lat_targets) != 2 or len(lat_terms) != 1:
            problems.append("each bidirected edge must get exactly one latent node with edges to both endpoints")
        tagged = [e for e, g in effs if e[0] == "call" and e[1] == "add_node" and g and any(k == "hidden" or True for k, _ in e[3])]
        (rep.refuted if problems else rep.proven)("R16.2", construct(f, "roles"), "; ".join(sorted(set(problems))), loc(f))
    # ------------------------------------------------------------------ R16.1b  LV-DAG -> ADMG
    f = model.func(f"{NXMG}.from_latent_variable_dag")
    ev = Evaluator(model, prim_methods=set(BUILDERS))
    D = typed(ev, "graph", "nx.DiGraph")
    rets = return_paths(ev.run(f, {"graph": D, "tag": const("hidden")}, self_term=("ref", NXMG)))
    cons = construct(f, "node-set")
    if len(rets) != 1:
        rep.unknown("R16.1", cons, f"{len(rets)} return paths", loc(f))
    else:
        base, effs = _effects(rets[0].value)
        if not (base[0] == "rec" and base[1] == NXMG):
            rep.unknown("R16.1", cons, "result is not a fresh mixed graph: " + short(show(base), 100), loc(f))
        else:
            adds = [(e, g) for e, g in effs if e[0] == "call" and e[1] == "add_node"]
            ok = False
            detail = "no add_node for non-latent nodes: an observed node without children and without an observed parent is lost"
            lat_cond = None
            for e, g in adds:
                (pat, it, conds) = g[0]
                node = pat[1][0] if pat[0] == "tuplelit" else pat
                data = pat[1][1] if pat[0] == "tuplelit" else None
                n = dict(e[3]).get("n", e[2][0] if e[2] else None)
                if n != node or len(g) != 1:
                    continue
                fm = f_and(*[sa.cond(c) for c in conds])
                tagged = sa.cond(("truth", ("index", data, const("hidden")))) if data is not None else None
                if tagged is None:
                    continue
                eq, row, _ = compare(fm, f_not(tagged))
                if eq:
                    ok = True
                else:
                    extra = [a for a in atoms_of(fm) if a not in atoms_of(tagged)]
                    detail = ("a non-latent node is added only under an extra condition (" + ", ".join(short(show(a), 80) for a in extra)
                              + "): observed nodes failing it vanish in the round trip (e.g. an isolated node, or a sink whose parents are removed latents)")
            (rep.proven if ok else rep.refuted)("R16.1", cons, "" if ok else detail, loc(f))
            # R16.2 backward roles
            problems = []
            und = [(e, g) for e, g in effs if e[0] == "call" and e[1] == "add_undirected_edge"]
            dr = [(e, g) for e, g in effs if e[0] == "call" and e[1] == "add_directed_edge"]
            if not und or not dr:
                problems.append("latent nodes must give bidirected edges and observed nodes directed edges")
            for e, g in und:
                inner = g[-1]
                if not (inner[1][0] == "call" and inner[1][1].endswith("combinations") and inner[1][2][1] == const(2) and inner[1][2][0][0] == "meth" and inner[1][2][0][2] == "successors"):
                    problems.append("bidirected edges are not all pairs of a latent's children")
                if not any(c == ("truth", ("index", g[0][0][1][1], const("hidden"))) or c == ("index", g[0][0][1][1], const("hidden")) for c in g[0][2]):
                    problems.append("bidirected edges are created for non-latent nodes")
            for e, g in dr:
                inner = g[-1]
                node = g[0][0][1][0]
                kw = dict(e[3])
                if not (inner[1][0] == "meth" and inner[1][2] == "successors" and kw.get("u") == node and kw.get("v") == inner[0]):
                    problems.append("directed edges are not (node, child) for each child")
            (rep.refuted if problems else rep.proven)("R16.2", construct(f, "roles"), "; ".join(sorted(set(problems))), loc(f))
    # ------------------------------------------------------------------ R16.3 / R16.4 rules
    lat = ("call", f"{SL}.iter_latents", (), (("graph", None), ("tag", const("hidden"))))

    def gen_of(fn_name):
        f = model.func(f"{SL}.{fn_name}")
        ev = Evaluator(model, primitives={f"{SL}.iter_latents"})
        D = typed(ev, "graph", "nx.DiGraph")
        rets = return_paths(ev.run(f, {"graph": D, "tag": const("hidden")}))
        return f, ev, D, rets

    def latent_source(it, D):
        return it[0] == "call" and it[1] == f"{SL}.iter_latents" and kwargs_of(it).get("graph") == D

    guards = {
        "iter_widow_latents": ("widow", lambda D, n: f_not(sa.cond(("truth", ("meth", D, "successors", (n,), ())))), "a latent with no children"),
        "iter_unidirectional_latents": ("unidirectional", lambda D, n: ("atom", ("eq", sa.canon(const(1)), sa.canon(("meth", D, "out_degree", (n,), ())))), "a latent with exactly one child"),
    }
    for fn, (role, want_f, words) in guards.items():
        f, ev, D, rets = gen_of(fn)
        cons = construct(f, f"guard:{role}")
        if len(rets) != 1:
            rep.unknown("R16.4", cons, f"{len(rets)} paths", loc(f))
            continue
        t = rets[0].value
        while t[0] == "call" and t[1] == "iter":
            t = t[2][0]
        if not (t[0] == "accum" and t[2] == ("listlit", ()) and len(t[4]) == 1 and t[3] == ("listlit", (t[4][0][0],))):
            rep.unknown("R16.4", cons, "generator is not a filter of iter_latents: " + short(show(t), 160), loc(f))
            continue
        pat, it, conds = t[4][0]
        problems = []
        if not latent_source(it, D):
            problems.append("candidates are not drawn from iter_latents(graph) (an observed node could be removed)")
        got = f_and(*[sa.cond(_norm_degree(_norm_len(c), D)) for c in conds])
        want = want_f(D, pat) if role != "widow" else f_not(sa.cond(("truth", ("OUT", D, pat))))
        if role == "unidirectional":
            want = sa.eq_atom(const(1), ("OUTDEG", D, pat))
            got = f_and(*[sa.cond(_norm_degree(_norm_len(c), D)) for c in conds])
        eq, row, _ = compare(got, want)
        if not eq:
            problems.append(f"the rule must select {words}; its guard is {short(show_formula(got), 160)}")
        (rep.refuted if problems else rep.proven)("R16.4", cons, "; ".join(problems), loc(f), sample={"guard": show_formula(got)})
        rep.proven("R16.3", construct(f, "latents-only"), loc=loc(f)) if latent_source(it, D) else rep.refuted("R16.3", construct(f, "latents-only"), "not drawn from iter_latents", loc(f))
    # middle latents
    f, ev, D, rets = gen_of("iter_middle_latents")
    cons = construct(f, "guard:middle")
    if len(rets) == 1:
        t = rets[0].value
        while t[0] == "call" and t[1] == "iter":
            t = t[2][0]
        ok_shape = t[0] == "accum" and t[2] == ("listlit", ()) and len(t[4]) == 1
        if not ok_shape:
            rep.unknown("R16.4", cons, "generator shape not understood: " + short(show(t), 160), loc(f))
        else:
            pat, it, conds = t[4][0]
            problems = []
            if not latent_source(it, D):
                problems.append("candidates are not drawn from iter_latents(graph)")
            P = ("setof", ("meth", D, "predecessors", (pat,), ()))
            Cn = ("setof", ("meth", D, "successors", (pat,), ()))
            got = f_and(*[sa.cond(_norm_len(c)) for c in conds])
            want = f_and(sa.cond(("truth", P)), sa.cond(("truth", Cn)))
            eq, row, _ = compare(got, want)
            if not eq:
                problems.append("a middle latent is a latent with at least one parent and at least one child (whatever its parents are); the guard is "
                                + short(show_formula(got), 200))
            y = t[3][1][0] if t[3][0] == "listlit" else None
            if not (y and y[0] == "tuplelit" and y[1][0] == pat and sa.canon_top(y[1][1]) == sa.canon_top(P) and sa.canon_top(y[1][2]) == sa.canon_top(Cn)):
                problems.append("must yield (latent, its parents, its children)")
            (rep.refuted if problems else rep.proven)("R16.4", cons, "; ".join(problems), loc(f), sample={"guard": show_formula(got)})
    else:
        rep.unknown("R16.4", cons, f"{len(rets)} paths", loc(f))
    # redundant latents
    f, ev, D, rets = gen_of("_iter_redundant_latents")
    cons = construct(f, "guard:redundant")
    if len(rets) == 1:
        t = rets[0].value
        while t[0] == "call" and t[1] == "iter":
            t = t[2][0]
        pieces = []
        while t[0] == "accum":
            pieces.append((t[3], t[4]))
            t = t[2]
        problems = []
        total = False
        L = Lc = Rr = Rc = None
        for payload, gens in pieces:
            (pat, it, conds), = gens
            try:
                (L, Lc), (Rr, Rc) = pat[1][0][1], pat[1][1][1]
            except Exception:  # noqa: BLE001
                problems.append("pairs of (latent, children) not recognised")
                continue
            if payload != ("listlit", (L,)):
                problems.append("the rule must yield the left latent of the pair")
            def as_sets(cnd, Lc=Lc, Rc=Rc):
                return mapterm(cnd, lambda s: ("psubset", s[1], s[2]) if s[0] == "lt" and {s[1], s[2]} == {Lc, Rc} else (
                    ("subset", s[1], s[2]) if s[0] == "le" and {s[1], s[2]} == {Lc, Rc} else None))
            total = f_or(total, f_and(*[sa.cond(as_sets(c)) for c in conds]))
            dc = [s for s in subterms(it) if s[0] == "comp" and s[1] == "dict"]
            if not (dc and len(dc[0][3]) == 1 and dc[0][3][0][1][0] == "call" and dc[0][3][0][1][1] == f"{SL}.iter_latents" and dc[0][2][1] == dc[0][3][0][0]):
                problems.append("pairs are not drawn from a map keyed by iter_latents(graph)")
            elif not (dc[0][2][2][0] in ("setof",) and dc[0][2][2][1][0] == "meth" and dc[0][2][2][1][2] == "successors" and dc[0][2][2][1][3] == (dc[0][3][0][0],)):
                problems.append("the map does not send a latent to its set of children")
        if L is not None:
            eqc = sa.cond(("eq", Lc, Rc))
            ps = f_and(sa.cond(("subset", Lc, Rc)), f_not(eqc))
            total = _expand_psubset(total, sa)
            gt = sa.cond(("lt", Rr, L))
            want = f_or(f_and(eqc, gt), ps)
            eq, row, _ = compare(total, want)
            if not eq:
                problems.append("a latent is redundant iff its children are a proper subset of another latent's, or equal with a deterministic tie-break "
                                "(otherwise two latents with equal children remove each other): guard is " + short(show_formula(total), 200))
        (rep.refuted if problems else rep.proven)("R16.4", cons, "; ".join(sorted(set(problems))), loc(f))
    else:
        rep.unknown("R16.4", cons, f"{len(rets)} paths", loc(f))
    # removals: every removed set ⊆ iter_latents
    for fn in ("remove_widow_latents", "remove_unidirectional_latents", "remove_redundant_latents"):
        f = model.func(f"{SL}.{fn}")
        ev = Evaluator(model, primitives={f"{SL}.iter_latents", f"{SL}._assert_variable_nodes", f"{SL}._iter_redundant_latents"})
        D = typed(ev, "graph", "nx.DiGraph")
        rets = return_paths(ev.run(f, {"graph": D, "tag": const("hidden")}))
        cons = construct(f, "latents-only")
        problems = []
        n_rm = 0
        for r in rets:
            g = r.value[1][0] if r.value[0] == "tuplelit" else r.value
            base, effs = _effects(g)
            for e, gens in effs:
                if e[0] == "call" and e[1] in ("remove_nodes_from", "remove_node"):
                    n_rm += 1
                    arg = e[2][0]
                    fm = sa.member(x, arg) if e[1] == "remove_nodes_from" else sa.eq_atom(x, arg)
                    latf = ("atom", ("in", x, "LATENTS"))
                    core = sa.strip(arg)
                    if core[0] == "call" and core[1] == f"{SL}._iter_redundant_latents" and kwargs_of(core).get("graph") == D:
                        continue  # its elements are latents by the rule on _iter_redundant_latents (guard:redundant)
                    fm2 = _abstract_latents(fm, D)
                    eq, row, _ = compare(f_and(fm2, f_not(latf)), False)
                    if not eq:
                        problems.append("a node that is not drawn from iter_latents(graph) can be removed: " + short(show_formula(fm), 200))
        if n_rm == 0:
            problems.append("no removal found")
        (rep.refuted if problems else rep.proven)("R16.3", cons, "; ".join(problems), loc(f))
    # transformation of middle latents
    f = model.func(f"{SL}.transform_latents_with_parents")
    ev = Evaluator(model, primitives={f"{SL}.iter_latents"})
    D = typed(ev, "graph", "nx.DiGraph")
    rets = return_paths(ev.run(f, {"graph": D, "tag": const("hidden")}))
    cons = construct(f, "middle-transformation")
    problems = []
    seen = set()
    for r in rets:
        base, effs = _effects(r.value)
        for e, gens in effs:
            if e[0] != "call" or not gens:
                continue
            node = gens[0][0]
            src_ok = gens[0][1][0] == "call" and gens[0][1][1] == f"{SL}.iter_latents"
            P = ("setof", ("meth", D, "predecessors", (node,), ()))
            Cn = ("setof", ("meth", D, "successors", (node,), ()))
            if e[1] == "remove_node":
                if e[2][0] != node or not src_ok:
                    problems.append("removes something other than the middle latent")
                seen.add("remove")
            elif e[1] == "add_edges_from":
                a = e[2][0]
                if a[0] == "call" and a[1].endswith("product") and sa.canon_top(a[2][0]) == sa.canon_top(P) and sa.canon_top(a[2][1]) == sa.canon_top(Cn):
                    seen.add("parents×children")
                else:
                    problems.append("edges added are not parents × children of the latent: " + short(show(a), 120))
            elif e[1] == "add_node":
                kw = dict(e[3])
                if any(v == const(True) for _, v in e[3]) or kw:
                    seen.add("new-latent")
            elif e[1] == "add_edge":
                if len(gens) == 2 and sa.canon_top(("setof", gens[1][1])) == sa.canon_top(Cn) and e[2][1] == gens[1][0]:
                    seen.add("new-latent->children")
                else:
                    problems.append("the exogenous copy does not point to exactly the children of the latent")
    for need in ("remove", "parents×children", "new-latent", "new-latent->children"):
        if need not in seen:
            problems.append(f"missing step: {need}")
    (rep.refuted if problems else rep.proven)("R16.4", cons, "; ".join(sorted(set(problems))), loc(f))
    # rule order
    f = model.func(f"{SL}.simplify_latent_dag")
    order = [n.func.id for n in ast.walk(f.node) if isinstance(n, ast.Call) and isinstance(n.func, ast.Name) and n.func.id in (
        "transform_latents_with_parents", "remove_widow_latents", "remove_unidirectional_latents", "remove_redundant_latents")]
    calls = sorted([(n.lineno, n.func.id) for n in ast.walk(f.node) if isinstance(n, ast.Call) and isinstance(n.func, ast.Name) and n.func.id in (
        "transform_latents_with_parents", "remove_widow_latents", "remove_unidirectional_latents", "remove_redundant_latents")])
    want = ["transform_latents_with_parents", "remove_widow_latents", "remove_unidirectional_latents", "remove_redundant_latents"]
    got = [c for _, c in calls]
    (rep.proven if got == want else rep.refuted)("R16.4", construct(f, "rule-order"), "" if got == want else f"rules run as {got}, published order is {want}", loc(f))
    # ------------------------------------------------------------------ R16.5
    f = model.func(f"{SL}.evans_simplify")
    eff = Effects(model)
    sm = eff.summary(f)
    if "graph" in sm.mutates:
        es = sm.mutates["graph"][0]
        rep.refuted("R16.5", construct(f, "fresh-lv-dag"), f"may modify the caller's graph: {es.how}", loc(f, es.line))
    else:
        rep.proven("R16.5", construct(f, "fresh-lv-dag"), loc=loc(f))
    # tagging is monotone: between building the LV-DAG and simplifying it, node tags are only ever set to True
    problems = _non_monotone_tagging(model, f)
    (rep.refuted if problems else rep.proven)("R16.5", construct(f, "tags-only-added"), "; ".join(problems), loc(f))


def _benign_name_guard(c: Term) -> bool:
    s = show(c)
    return "isinstance(" in s or "setlit(('P', 'Q', 'PP'))" in s


def _norm_degree(c: Term, D: Term) -> Term:
    def f(s):
        if s[0] == "meth" and s[1] == D and s[2] in ("out_edges", "successors") and len(s[3]) == 1 and not s[4]:
            return ("OUT", D, s[3][0])
        if s[0] == "meth" and s[1] == D and s[2] == "out_degree" and len(s[3]) == 1:
            return ("OUTDEG", D, s[3][0])
        if s[0] == "len" and s[1][0] == "OUT":
            return ("OUTDEG", s[1][1], s[1][2])
        return None
    c = mapterm(c, f)

    def g(s):
        if s[0] == "eq" and {s[1][0], s[2][0]} == {"const", "OUTDEG"}:
            k, d = (s[1], s[2]) if s[1][0] == "const" else (s[2], s[1])
            if k == const(0):
                return ("not", ("truth", ("OUT", d[1], d[2])))
            return ("eq", k, d)
        return None
    return mapterm(c, g)


def _abstract_latents(fm, D):
    """Replace membership atoms in iter_latents(graph) by one atom."""
    if fm is True or fm is False:
        return fm
    if fm[0] == "atom":
        a = fm[1]
        if a[0] == "in" and a[2][0] == "call" and str(a[2][1]).endswith("iter_latents"):
            return ("atom", ("in", a[1], "LATENTS"))
        return fm
    return (fm[0],) + tuple(_abstract_latents(g, D) for g in fm[1:])


def _non_monotone_tagging(model: Model, f) -> list[str]:
    """Stores into node-data of the LV-DAG reachable from evans_simplify before simplification must assign True."""
    problems = []
    seen = set()

    def scan(fn, depth=0):
        if fn.qname in seen or depth > 3:
            return
        seen.add(fn.qname)
        for n in ast.walk(fn.node):
            if isinstance(n, ast.Assign):
                for t in n.targets:
                    if isinstance(t, ast.Subscript) and isinstance(t.value, ast.Name) and t.value.id in ("data",):
                        if not (isinstance(n.value, ast.Constant) and n.value.value is True):
                            problems.append(f"{fn.qname} assigns `{ast.unparse(n.value)}` to a node's latent tag: nodes that were latent (e.g. the u_i of bidirected edges) "
                                            f"can be reset to observed ({fn.module.relpath}:{n.lineno})")
            if isinstance(n, ast.Call) and isinstance(n.func, ast.Name):
                r = model.resolve_name(fn.module, n.func.id)
                from ..model import Func
                if isinstance(r, Func) and r.name not in ("simplify_latent_dag", "_ensure_set") and r.module.name in ("y0.graph", SL) and r.cls is None:
                    if any(isinstance(a, ast.Name) and a.id == "lv_dag" for a in n.args):
                        scan(r, depth + 1)

    scan(f)
    return problems


def _expand_psubset(fm, sa):
    """psubset(A, B) atoms -> subset(A, B) ∧ ¬eq(A, B), so that tables over {eq, subset} compare."""
    if fm is True or fm is False:
        return fm
    if fm[0] == "atom":
        a = fm[1]
        if a[0] == "psubset":
            return f_and(sa.cond(("subset", a[1], a[2])), f_not(sa.cond(("eq", a[1], a[2]))))
        return fm
    return (fm[0],) + tuple(_expand_psubset(g, sa) for g in fm[1:])
