"""C16 -- LV-DAG conversion round-trips; Evans simplification keeps the observed model.

R16.1  node set survives both conversions (ADMG -> LV-DAG adds every node of the graph; LV-DAG -> ADMG adds every
       non-latent node, unconditionally).
R16.2  edge roles of the round trip: latent -> bidirected edge between each pair of its children; observed -> directed edges.
R16.3  only latents are removed by the four rules.
R16.4  rule guards (widow / unidirectional / middle / redundant), the middle-latent transformation, and the rule order.
R16.5  evans_simplify works on a fresh LV-DAG, never on the caller's graph, and only ever *adds* latent tags.
"""

from __future__ import annotations

import ast

from ..effects import Effects
from ..model import AnalysisError, Model
from ..report import Report
from ..setalg import SetAlg, atoms_of, compare, f_and, f_not, f_or, show_formula, show_row
from ..symeval import Evaluator
from ..terms import NONE, Term, const, is_term, mapterm, show, subterms, var
from .common import NXMG, VARIABLE, construct, graph_rewrite, graph_var, loc, return_paths, rewriter, short, typed, kwargs_of

SL = "y0.algorithm.simplify_latent"
BUILDERS = {"add_node", "add_directed_edge", "add_undirected_edge"}


def _effects(t: Term):
    """Flatten a built value into (base, [(effect, gens)])."""
    effs = []
    while t[0] in ("accum", "mut"):
        if t[0] == "accum":
            effs.append((t[3], tuple(t[4])))
            t = t[2]
        else:
            for e in reversed(t[2]):
                effs.append((e, ()))
            t = t[1]
    return t, list(reversed(effs))


def _norm_len(c: Term) -> Term:
    """len(X) == 0 / 0 == len(X) / len(X) != 0  ->  (not) truth(X)."""
    def f(s):
        if s[0] in ("eq", "ne"):
            a, b = s[1], s[2]
            if a == const(0) and b[0] == "len":
                a, b = b, a
            if b == const(0) and a[0] == "len":
                t = ("truth", a[1])
                return ("not", t) if s[0] == "eq" else t
        return None
    return mapterm(c, f)


def run(model: Model, rep: Report, tier: str) -> None:
    rep.level = "other"
    rep.explanation = (
        "The two conversions are evaluated symbolically into a fresh graph plus builder effects; the node clause is a "
        "must-contain check on those effects (an isolated node has no edge to bring it along). Each Evans rule's generator "
        "is evaluated to `[x for x in iter_latents(g) if guard]`; the guard is compared by truth table with the published guard, "
        "and membership of every removed set is shown to imply membership in iter_latents. The middle-latent transformation is "
        "checked effect by effect. Decides node preservation, 'only latents are removed', the guards and their order. Does not "
        "decide idempotence of the pipeline, equality with the latent projection, or invariance of separation/identifiability."
    )
    rep.trusted_base = ["networkx DiGraph add/remove, successors/predecessors, out_degree, topological_sort", "itertools.combinations/product"]
    rep.floors = {"R16.1": 2, "R16.2": 2, "R16.3": 3, "R16.4": 9, "R16.5": 2, "R16.6": 1, "R16.7": 10}
    from .. import nxden
    from ..refcmp import compare_with_reference, load_reference, private_callees, run_table
    from .common import nx_rewrite

    load_reference(model, "yvref.c16", "c16_ref.py")
    sa = SetAlg(rewrite=rewriter(graph_rewrite, nx_rewrite))
    x = var("%x")
    G = ("cls", NXMG)
    D = "nx.DiGraph"
    OPT = ("union", ("str", "none"))
    PUB = {f"{SL}.{n}" for n in ("iter_latents", "iter_middle_latents", "iter_unidirectional_latents", "iter_widow_latents", "remove_redundant_latents",
                                 "remove_unidirectional_latents", "remove_widow_latents", "simplify_latent_dag", "transform_latents_with_parents", "evans_simplify")}

    def mk(model_, prims):
        return lambda: Evaluator(model_, primitives=set(prims), prim_methods=set(BUILDERS))

    T = {"graph": D, "tag": OPT}
    table = [
        ("R16.1", f"{NXMG}.to_latent_variable_dag", "lv_dag_of", {"self": G, "prefix": OPT, "tag": OPT}, (), "node-set",
         "ADMG -> LV-DAG: every node of the graph (also one without edges), every directed edge, and one tagged latent parent of both endpoints per bidirected edge",
         {"impl_self_type": G}),
        ("R16.1", f"{NXMG}.from_latent_variable_dag", "admg_of", T, (), "node-set",
         "LV-DAG -> ADMG: every untagged node is kept unconditionally, with a directed edge to each child; every two children of a tagged node get a bidirected edge",
         {"impl_self_term": ("ref", NXMG)}),
        ("R16.4", f"{SL}.iter_latents", "latents", T, (), "latents", "the nodes whose tag is set, in topological order"),
        ("R16.4", f"{SL}.iter_widow_latents", "widows", T, PUB, "guard:widow", "a latent with no children"),
        ("R16.4", f"{SL}.iter_unidirectional_latents", "unidirectional", T, PUB, "guard:unidirectional", "a latent with exactly one child"),
        ("R16.4", f"{SL}.iter_middle_latents", "middle", T, PUB, "guard:middle",
         "a latent with at least one parent and at least one child (whatever its parents are), yielded with its parents and its children"),
        ("R16.4", f"{SL}.remove_widow_latents", "without_widows", T, PUB, "removes:widows", "exactly the widow latents are removed (in place) and reported"),
        ("R16.4", f"{SL}.remove_unidirectional_latents", "without_unidirectional", T, PUB, "removes:unidirectional", "exactly the single-child latents are removed (in place) and reported"),
        ("R16.4", f"{SL}.transform_latents_with_parents", "exogenised", dict(T, suffix=OPT), PUB, "middle-transformation",
         "each latent with parents is removed; its parents point to its children; a new tagged exogenous latent points to exactly its children"),
        ("R16.4", f"{SL}.simplify_latent_dag", "simplified", T, PUB, "rule-order",
         "exogenise, drop widows, drop single-child latents, drop redundant latents -- in this order, each on the result of the previous rule"),
    ]
    run_table(model, rep, table, "yvref.c16", mk, sa, construct=construct, loc=loc, post=nxden.post)
    # R16.2 (edge roles) is decided by the same two comparisons as R16.1: restated so that the rule keeps its instances
    for q, role in ((f"{NXMG}.to_latent_variable_dag", "node-set"), (f"{NXMG}.from_latent_variable_dag", "node-set")):
        fq = model.func(q)
        ob = next((o for o in rep.obligations if o.rule == "R16.1" and o.construct == construct(fq, role)), None)
        cons2 = construct(fq, "roles")
        if ob is None or ob.verdict == "UNKNOWN":
            rep.unknown("R16.2", cons2, "decided together with R16.1 (not decided)", loc(fq))
        elif ob.verdict == "PROVEN":
            rep.proven("R16.2", cons2, loc=loc(fq))
        else:
            rep.refuted("R16.2", cons2, ob.detail, loc(fq))
    # the redundancy rule lives in a private generator: found as the routine remove_redundant_latents draws its nodes from
    fr = model.func(f"{SL}.remove_redundant_latents")
    helpers = [h for h in private_callees(model, fr, PUB) if model.func(h).is_generator]
    cons_r = construct(fr, "guard:redundant")
    if len(helpers) == 1:
        _, v, dt, smp = compare_with_reference(model, helpers[0], "yvref.c16.redundant", T, mk(model, PUB), sa, post=nxden.post)
        words = ("a latent is redundant iff its children are a proper subset of another latent's, or equal with a deterministic tie-break "
                 "(otherwise two latents with equal children remove each other)")
        if v == "PROVEN":
            rep.proven("R16.4", cons_r, loc=loc(model.func(helpers[0])), sample=smp)
        elif v == "REFUTED":
            rep.refuted("R16.4", cons_r, f"deviates from the definition ({words}): {short(dt, 800)}", loc(model.func(helpers[0])), sample=smp)
        else:
            rep.unknown("R16.4", cons_r, dt, loc(model.func(helpers[0])))
    else:
        rep.unknown("R16.4", cons_r, "the generator of redundant latents is not a single private helper of remove_redundant_latents", loc(fr))
    # removals: every removed set ⊆ iter_latents
    for fn in ("remove_widow_latents", "remove_unidirectional_latents", "remove_redundant_latents"):
        f = model.func(f"{SL}.{fn}")
        red_helper = helpers[0] if len(helpers) == 1 else f"{SL}._iter_redundant_latents"
        ev = Evaluator(model, primitives={f"{SL}.iter_latents", f"{SL}._assert_variable_nodes", red_helper})
        D = typed(ev, "graph", "nx.DiGraph")
        rets = return_paths(ev.run(f, {"graph": D, "tag": const("hidden")}))
        cons = construct(f, "latents-only")
        problems = []
        n_rm = 0
        for r in rets:
            g = r.value[1][0] if r.value[0] == "tuplelit" else r.value
            base, effs = _effects(g)
            for e, gens in effs:
                if e[0] == "call" and e[1] in ("remove_nodes_from", "remove_node"):
                    n_rm += 1
                    arg = e[2][0]
                    fm = sa.member(x, arg) if e[1] == "remove_nodes_from" else sa.eq_atom(x, arg)
                    latf = ("atom", ("in", x, "LATENTS"))
                    core = sa.strip(arg)
                    if core[0] == "call" and core[1] == red_helper and D in (list(core[2]) + list(kwargs_of(core).values())):
                        continue  # its elements are latents by the rule on _iter_redundant_latents (guard:redundant)
                    fm2 = _abstract_latents(fm, D)
                    eq, row, _ = compare(f_and(fm2, f_not(latf)), False)
                    if not eq:
                        problems.append("a node that is not drawn from iter_latents(graph) can be removed: " + short(show_formula(fm), 200))
        if n_rm == 0:
            problems.append("no removal found")
        (rep.refuted if problems else rep.proven)("R16.3", cons, "; ".join(problems), loc(f))
    # ------------------------------------------------------------------ R16.6  every answer of evans_simplify goes through the whole pipeline
    # (a must-pass-through rule over the return paths): LV-DAG of the caller's graph -> the caller's extra latents tagged -> Evans' rules ->
    # the mixed graph read off the result.  A return that by-passes it on a condition that never looks at `latents` (a "nothing to simplify"
    # short-cut on the graph alone) ignores the latents the caller named: the answer is then not the latent projection.
    f = model.func(f"{SL}.evans_simplify")
    cons6 = construct(f, "pipeline")
    try:
        ev6 = Evaluator(model, primitives={f"{SL}.simplify_latent_dag", f"{NXMG}.to_latent_variable_dag", f"{NXMG}.from_latent_variable_dag", f"{SL}._ensure_set",
                                           "y0.graph._ensure_set"})
        ev6.max_steps = 40000
        rets6 = return_paths(ev6.run(f, {"graph": var("graph"), "latents": var("latents"), "tag": var("tag")}))
    except Exception as e6:  # noqa: BLE001
        rets6 = None
        rep.unknown("R16.6", cons6, f"evans_simplify could not be evaluated: {type(e6).__name__}", loc(f))
    if rets6 is not None:
        probs6, undecided6 = [], []
        for r6 in rets6:
            v6 = r6.value
            inner = None
            if v6[0] == "call" and str(v6[1]).endswith("from_latent_variable_dag"):
                g6 = kwargs_of(v6).get("graph", v6[2][0] if v6[2] else None)
                if g6 is not None and g6[0] in ("attr", "index") and is_term(g6[1]) and g6[1][0] == "call" and str(g6[1][1]).endswith("simplify_latent_dag"):
                    inner = kwargs_of(g6[1]).get("graph", g6[1][2][0] if g6[1][2] else None)
            mentions_latents = any(sx == var("latents") for c6 in r6.conds for sx in subterms(c6))
            if inner is None:
                (undecided6 if mentions_latents else probs6).append(
                    f"line {r6.line}: a return path hands back {short(show(v6), 80)} without exogenising, simplifying and projecting" +
                    ("" if mentions_latents else " -- on a condition that never looks at `latents`, so latents the caller names are ignored there"))
                continue
            # (a private helper that is handed the LV-DAG together with the latents does the tagging: its stores are R16.5's business)
            helper_tags = any(isinstance(n6, ast.Call) and not ast.unparse(n6.func).endswith(("simplify_latent_dag", "to_latent_variable_dag", "from_latent_variable_dag"))
                              and {"latents"} <= {x6.id for a6 in list(n6.args) + [k6.value for k6 in n6.keywords] for x6 in ast.walk(a6) if isinstance(x6, ast.Name)}
                              and len(n6.args) + len(n6.keywords) >= 2
                              for n6 in ast.walk(f.node))
            if helper_tags:
                continue
            latents_given = any(c6 == ("not", ("isnone", var("latents"))) or (c6[0] == "truth" and c6[1] == var("latents")) for c6 in r6.conds)
            if latents_given and inner[0] == "call" and str(inner[1]).endswith("to_latent_variable_dag"):
                probs6.append(f"line {r6.line}: with latents given, the LV-DAG is simplified as built -- the caller's latents are never tagged")
        if probs6:
            rep.refuted("R16.6", cons6, "; ".join(probs6[:3]), loc(f))
        elif undecided6:
            rep.unknown("R16.6", cons6, "; ".join(undecided6[:2]), loc(f))
        else:
            rep.proven("R16.6", cons6, loc=loc(f), sample={"return paths": len(rets6)}, nontrivial=len(rets6) > 0)
    # ------------------------------------------------------------------ R16.7  the latent tag is threaded through
    # Which node-data key marks a latent is an option (`tag`) of every LV-DAG routine.  A routine that takes it and calls another routine that takes
    # it must hand it on: dropping the keyword makes the callee fall back to the default key, so with a non-default tag one half of the pipeline
    # writes "hidden" and the other reads the caller's key -- the latents are silently treated as observed.  (option-threading rule; call sites are
    # resolved by name for plain calls and by method name for attribute calls on the repository's graph class)
    takers = {q: fn for q, fn in model.functions.items() if not fn.module.path.startswith("<") and "tag" in Model.param_names(fn)}
    by_leaf: dict = {}
    for q, fn in takers.items():
        by_leaf.setdefault(fn.node.name, []).append(fn)
    n_sites = 0
    for q, fn in sorted(takers.items()):
        if not (q.startswith(SL) or q.startswith("y0.algorithm.taheri_design") or q.startswith(NXMG)):
            continue
        dropped = []
        own_nested = {id(x) for d_ in ast.walk(fn.node) if isinstance(d_, (ast.FunctionDef, ast.Lambda)) and d_ is not fn.node for x in ast.walk(d_)}
        for c_ in ast.walk(fn.node):
            if not isinstance(c_, ast.Call) or id(c_) in own_nested:
                continue
            callee = None
            if isinstance(c_.func, ast.Name):
                r_ = model.resolve_name(fn.module, c_.func.id)
                callee = r_ if getattr(r_, "qname", None) in takers else None
            elif isinstance(c_.func, ast.Attribute) and len(by_leaf.get(c_.func.attr, [])) == 1 and by_leaf[c_.func.attr][0].cls is not None:
                callee = by_leaf[c_.func.attr][0]
            if callee is None or callee is fn and False:
                continue
            n_sites += 1
            names_ = Model.param_names(callee)
            if callee.cls is not None and not callee.is_staticmethod and names_ and not isinstance(c_.func, ast.Name):
                names_ = names_[1:]
            passed = any(k_.arg == "tag" for k_ in c_.keywords) or any(k_.arg is None for k_ in c_.keywords)
            if not passed and "tag" in names_:
                a_ = callee.node.args
                posn = [x.arg for x in a_.posonlyargs + a_.args]
                if callee.cls is not None and not callee.is_staticmethod and not isinstance(c_.func, ast.Name):
                    posn = posn[1:]
                passed = "tag" in posn and len(c_.args) > posn.index("tag")
            if not passed:
                dropped.append(f"line {c_.lineno}: {ast.unparse(c_.func)}(...) is called without `tag`")
        cons7 = construct(fn, "tag-threaded")
        if dropped:
            rep.refuted("R16.7", cons7, "; ".join(dropped[:3]) + " -- the callee falls back to the default key while this routine works with the caller's", loc(fn))
        else:
            rep.proven("R16.7", cons7, loc=loc(fn), nontrivial=False)
    rep.stats["tag_call_sites"] = n_sites
    # ------------------------------------------------------------------ R16.5
    f = model.func(f"{SL}.evans_simplify")
    eff = Effects(model)
    sm = eff.summary(f)
    if "graph" in sm.mutates:
        es = sm.mutates["graph"][0]
        rep.refuted("R16.5", construct(f, "fresh-lv-dag"), f"may modify the caller's graph: {es.how}", loc(f, es.line))
    else:
        rep.proven("R16.5", construct(f, "fresh-lv-dag"), loc=loc(f))
    # tagging is monotone: between building the LV-DAG and simplifying it, node tags are only ever set to True
    problems = _non_monotone_tagging(model, f)
    (rep.refuted if problems else rep.proven)("R16.5", construct(f, "tags-only-added"), "; ".join(problems), loc(f))


def _benign_name_guard(c: Term) -> bool:
    s = show(c)
    return "isinstance(" in s or "setlit(('P', 'Q', 'PP'))" in s


def _norm_degree(c: Term, D: Term) -> Term:
    def f(s):
        if s[0] == "meth" and s[1] == D and s[2] in ("out_edges", "successors") and len(s[3]) == 1 and not s[4]:
            return ("OUT", D, s[3][0])
        if s[0] == "meth" and s[1] == D and s[2] == "out_degree" and len(s[3]) == 1:
            return ("OUTDEG", D, s[3][0])
        if s[0] == "len" and s[1][0] == "OUT":
            return ("OUTDEG", s[1][1], s[1][2])
        return None
    c = mapterm(c, f)

    def g(s):
        if s[0] == "eq" and {s[1][0], s[2][0]} == {"const", "OUTDEG"}:
            k, d = (s[1], s[2]) if s[1][0] == "const" else (s[2], s[1])
            if k == const(0):
                return ("not", ("truth", ("OUT", d[1], d[2])))
            return ("eq", k, d)
        return None
    return mapterm(c, g)


def _abstract_latents(fm, D):
    """Replace membership atoms in iter_latents(graph) by one atom."""
    if fm is True or fm is False:
        return fm
    if fm[0] == "atom":
        a = fm[1]
        if a[0] == "in" and a[2][0] == "call" and str(a[2][1]).endswith("iter_latents"):
            return ("atom", ("in", a[1], "LATENTS"))
        return fm
    return (fm[0],) + tuple(_abstract_latents(g, D) for g in fm[1:])


def _non_monotone_tagging(model: Model, f) -> list[str]:
    """Stores into node-data of the LV-DAG reachable from evans_simplify before simplification must assign True."""
    problems = []
    seen = set()

    def scan(fn, depth=0):
        if fn.qname in seen or depth > 3:
            return
        seen.add(fn.qname)
        for n in ast.walk(fn.node):
            if isinstance(n, ast.Assign):
                for t in n.targets:
                    if isinstance(t, ast.Subscript) and isinstance(t.value, ast.Name) and t.value.id in ("data",):
                        if not (isinstance(n.value, ast.Constant) and n.value.value is True):
                            problems.append(f"{fn.qname} assigns `{ast.unparse(n.value)}` to a node's latent tag: nodes that were latent (e.g. the u_i of bidirected edges) "
                                            f"can be reset to observed ({fn.module.relpath}:{n.lineno})")
            if isinstance(n, ast.Call) and isinstance(n.func, ast.Name):
                r = model.resolve_name(fn.module, n.func.id)
                from ..model import Func
                if isinstance(r, Func) and r.name not in ("simplify_latent_dag", "_ensure_set") and r.module.name in ("y0.graph", SL) and r.cls is None:
                    if any(isinstance(a, ast.Name) and a.id == "lv_dag" for a in n.args):
                        scan(r, depth + 1)

    scan(f)
    return problems


def _expand_psubset(fm, sa):
    """psubset(A, B) atoms -> subset(A, B) ∧ ¬eq(A, B), so that tables over {eq, subset} compare."""
    if fm is True or fm is False:
        return fm
    if fm[0] == "atom":
        a = fm[1]
        if a[0] == "psubset":
            return f_and(sa.cond(("subset", a[1], a[2])), f_not(sa.cond(("eq", a[1], a[2]))))
        return fm
    return (fm[0],) + tuple(_expand_psubset(g, sa) for g in fm[1:])
