"""C04 -- d-separation verdicts equal true m-separation in the mixed graph.

R4.1  pipeline: ancestral sub-graph of {a,b} ∪ C -> moralise -> (undirected) -> delete C -> reachability, in this order.
R4.2  the moralisation sees every bidirected edge as a latent common parent (no edge of the ancestral graph is skipped).
R4.3  symmetric reachability test and canonical, hash-order-free judgement record.
R4.4  validation raises only TypeError/KeyError on malformed arguments.
R4.5  no state: the test neither mutates the graph nor reads a cache (effects analysis over the cone).
"""

from __future__ import annotations

from ..effects import Effects
from ..hashord import leaks
from ..model import AnalysisError, Model
from ..report import Report
from ..setalg import SetAlg, compare, f_and, f_not, f_or, show_row
from ..symeval import Evaluator
from ..terms import Term, const, show, subterms, var
from .common import GRAPH_PRIMS, NXMG, VARIABLE, construct, exc_name, graph_rewrite, graph_var, loc, return_paths, rewriter, short, typed, kwargs_of

CI = "y0.algorithm.conditional_independencies"


def analyse_are_d_separated(model: Model, rep: Report, rule_prefix: str = "R4") -> None:
    """are_d_separated() and the judgement record against the moralisation criterion written out in yv/refs/c04_ref.py (validation and its
    exception classes, ancestral sub-graph, one latent parent per bidirected edge, moral graph, deletion of the conditions, reachability;
    the record in name order).  networkx graphs are compared by what they contain (node set, edge set), whatever calls built them."""
    from .. import nxden
    from ..refcmp import load_reference, run_table

    if "yvref.c04" not in model.modules:
        load_reference(model, "yvref.c04", "c04_ref.py")
    V = ("cls", VARIABLE)
    G = ("cls", NXMG)
    OPT = ("union", (("iter", V), "none"))
    R1, R3 = f"{rule_prefix}.1", f"{rule_prefix}.3"
    table = [
        (R1, f"{CI}.are_d_separated", "d_separated", {"graph": G, "a": V, "b": V, "conditions": OPT}, (), "pipeline",
         "ancestral graph of {a, b} ∪ C, every bidirected edge a latent common parent, moralised, C deleted, a and b disconnected; TypeError / "
         "KeyError for malformed arguments only"),
        (R3, "y0.struct.DSeparationJudgement.create", "canonical_judgement", {"left": V, "right": V, "conditions": OPT, "separated": "bool"}, (), "canonical",
         "the pair in name order, the conditions a name-ordered tuple without repetition (no hash order, no argument order)",
         {"impl_self_term": ("ref", "y0.struct.DSeparationJudgement")}),
    ]
    run_table(model, rep, table, "yvref.c04", lambda m_, prims: (lambda: Evaluator(m_, primitives=set(GRAPH_PRIMS) | set(prims))),
              SetAlg(rewrite=rewriter(graph_rewrite)), construct=construct, loc=loc, post=nxden.post)


def run(model: Model, rep: Report, tier: str) -> None:
    rep.level = "other"
    rep.explanation = (
        "are_d_separated is evaluated symbolically to a single term; the rule reads off the four stages (ancestral restriction "
        "to An({a,b} ∪ C) by set-membership truth table, moralisation of a DAG in which EVERY bidirected edge of the ancestral "
        "graph has its own latent parent with edges to both endpoints, deletion of C, reachability on the undirected moral graph) "
        "and their order. Judgement records are built by create(), which sorts both endpoints and the conditions (hash-order "
        "detector). The effects analysis shows the test neither mutates its graph nor keeps a cache. Decides the necessary "
        "structure of a correct moralisation-based m-separation test; equivalence with path-based d-separation on all graphs is "
        "Lauritzen's theorem (trusted)."
    )
    rep.trusted_base = ["networkx moral_graph / has_path / Graph.subgraph", "Lauritzen et al.: separation in the moral ancestral graph", "C14 for subgraph/ancestors_inclusive"]
    rep.floors = {"R4.1": 1, "R4.3": 1, "R4.5": 3}
    analyse_are_d_separated(model, rep)
    eff = Effects(model)
    for q in (f"{CI}.are_d_separated", f"{NXMG}.ancestors_inclusive", f"{NXMG}.subgraph"):
        f = model.func(q)
        sm = eff.summary(f)
        if sm.mutates:
            p, es = next(iter(sm.mutates.items()))
            rep.refuted("R4.5", construct(f, "stateless"), f"modifies `{p}` ({es[0].how}): the verdict can depend on earlier calls / insertion history", loc(f, es[0].line))
        else:
            rep.proven("R4.5", construct(f, "stateless"), loc=loc(f))
    rep.stats.update({"functions_analysed": len(eff.summaries)})
