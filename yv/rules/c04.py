"""C04 -- d-separation verdicts equal true m-separation in the mixed graph.

R4.1  pipeline: ancestral sub-graph of {a,b} ∪ C -> moralise -> (undirected) -> delete C -> reachability, in this order.
R4.2  the moralisation sees every bidirected edge as a latent common parent (no edge of the ancestral graph is skipped).
R4.3  symmetric reachability test and canonical, hash-order-free judgement record.
R4.4  validation raises only TypeError/KeyError on malformed arguments.
R4.5  no state: the test neither mutates the graph nor reads a cache (effects analysis over the cone).
"""

from __future__ import annotations

from ..effects import Effects
from ..hashord import leaks
from ..model import AnalysisError, Model
from ..report import Report
from ..setalg import SetAlg, compare, f_and, f_not, f_or, show_row
from ..symeval import Evaluator
from ..terms import Term, const, show, subterms, var
from .common import GRAPH_PRIMS, NXMG, VARIABLE, construct, exc_name, graph_rewrite, graph_var, loc, return_paths, rewriter, short, typed, kwargs_of

CI = "y0.algorithm.conditional_independencies"


def analyse_are_d_separated(model: Model, rep: Report, rule_prefix: str = "R4") -> None:
    f = model.func(f"{CI}.are_d_separated")
    ev = Evaluator(model, primitives=set(GRAPH_PRIMS) | {"y0.struct.DSeparationJudgement.create"})
    G = graph_var(ev, "graph")
    a = typed(ev, "a", ("cls", VARIABLE))
    b = typed(ev, "b", ("cls", VARIABLE))
    C = typed(ev, "conditions", ("iter", ("cls", VARIABLE)))
    paths = ev.run(f, {"graph": G, "a": a, "b": b, "conditions": C})
    sa = SetAlg(rewrite=rewriter(graph_rewrite))
    rets = return_paths(paths)
    R1, R2, R3, R4 = (f"{rule_prefix}.{i}" for i in (1, 2, 3, 4))
    # ---- R4.4 validation
    bad = [p for p in paths if p.kind == "raise" and exc_name(p) not in ("TypeError", "KeyError")]
    if bad:
        rep.refuted(R4, construct(f, "validation"), f"raises {exc_name(bad[0])} (only TypeError/KeyError on malformed arguments are part of the contract)", loc(f, bad[0].line))
    else:
        rep.proven(R4, construct(f, "validation"), loc=loc(f), sample={"raise paths": len(paths) - len(rets)})
    if len(rets) != 1:
        rep.unknown(R1, construct(f, "pipeline"), f"{len(rets)} return paths", loc(f))
        return
    v = rets[0].value
    kw = kwargs_of(v)
    if not (v[0] == "call" and str(v[1]).endswith("DSeparationJudgement.create")):
        rep.refuted(R3, construct(f, "record"), "the verdict is not wrapped by DSeparationJudgement.create (canonical record)", loc(f))
        return
    x = var("%x")
    okrec = kw.get("left") in (a, b) and kw.get("right") in (a, b) and kw.get("left") != kw.get("right") and compare(sa.member(x, kw.get("conditions")), sa.member(x, C))[0]
    (rep.proven if okrec else rep.refuted)(R3, construct(f, "record"), "" if okrec else "the judgement does not record (a, b, conditions)", loc(f))
    sep = kw.get("separated")
    # separated = not has_path(E, a, b)
    core = sep
    neg = 0
    while core is not None and core[0] in ("not", "truth"):
        if core[0] == "not":
            neg += 1
        core = core[1]
    if not (core is not None and core[0] == "call" and core[1].endswith("has_path") and neg == 1):
        rep.refuted(R1, construct(f, "pipeline"), "verdict is not `no path between a and b in the evidence graph`: " + short(show(sep), 160), loc(f))
        return
    E, pa, pb = core[2][0], core[2][1], core[2][2]
    problems1 = []
    if {pa, pb} != {a, b}:
        problems1.append("reachability is not tested between a and b")
    # E = M.subgraph(nodes(M) ∖ C)
    if not (E[0] == "meth" and E[2] == "subgraph"):
        problems1.append("the conditioning set is not deleted from the moral graph before the reachability test")
        M = E
    else:
        M = E[1]
        keep = (list(E[3]) + [t for _, t in E[4]])[0]
        mnodes = [s for s in subterms(keep) if s[0] in ("attr", "meth") and (s[2] if s[0] == "attr" else s[2]) == "nodes" and s[1] == M]
        nodesM = ("attr", M, "nodes")
        want = f_and(sa.member(x, nodesM), f_not(sa.member(x, C)))
        got = sa.member(x, keep)
        got2 = sa.member(x, subst_nodes(keep, M))
        if not compare(got2, f_and(sa.member(x, ("NODES", M)), f_not(sa.member(x, C))))[0]:
            problems1.append("the node set kept after moralisation is not nodes(moral graph) ∖ conditions")
    # M = nx.moral_graph(L)
    if not (M[0] == "call" and M[1].endswith("moral_graph")):
        # pre-fix form: graph.subgraph(keep).moralize().disorient()
        if M[0] == "meth" and M[2] == "disorient" and M[1][0] == "meth" and M[1][2] == "moralize":
            rep.refuted(R2, construct(f, "moral-bidirected"),
                        "moralisation marries only co-parents along directed edges (NxMixedGraph.moralize) and then keeps bidirected edges as plain links: "
                        "in A <-> C <-> B (or A -> C <-> B) the collider C, when conditioned on, does not join A and B", loc(f))
            anc = M[1][1]
        else:
            rep.unknown(R2, construct(f, "moral-bidirected"), "moralisation stage not recognised: " + short(show(M), 160), loc(f))
            anc = None
    else:
        L = M[2][0]
        anc = _check_latent_expansion(rep, f, R2, L, sa)
    # anc = G.subgraph(G.ancestors_inclusive({a,b} ∪ C))
    if anc is not None:
        if not (anc[0] == "meth" and anc[2] == "subgraph" and anc[1] == G):
            problems1.append("the graph is not restricted to an ancestral sub-graph before moralising")
        else:
            k = kwargs_of(anc).get("vertices")
            if not (k and k[0] == "meth" and k[2] == "ancestors_inclusive" and k[1] == G):
                problems1.append("the restriction is not to the ancestors (in the whole graph) of the named nodes: " + short(show(k), 100))
            else:
                named = kwargs_of(k).get("sources")
                want = f_or(sa.eq_atom(x, a), sa.eq_atom(x, b), sa.member(x, C))
                eq, row, _ = compare(sa.member(x, named), want)
                if not eq:
                    problems1.append(f"the ancestral set is not An({{a, b}} ∪ C): differs for a node with [{show_row(row)}]")
    (rep.refuted if problems1 else rep.proven)(R1, construct(f, "pipeline"), "; ".join(problems1), loc(f), sample={"evidence graph": short(show(E), 400)})
    # hash order must not reach the record
    crt = model.func("y0.struct.DSeparationJudgement.create")
    ev2 = Evaluator(model)
    l = typed(ev2, "left", ("cls", VARIABLE))
    r = typed(ev2, "right", ("cls", VARIABLE))
    cs = typed(ev2, "conditions", ("iter", ("cls", VARIABLE)))
    rets2 = return_paths(ev2.run(crt, {"left": l, "right": r, "conditions": cs}, self_term=("ref", "y0.struct.DSeparationJudgement")))
    problems = []

    def mentions_both(t):
        subs = list(subterms(t))
        return any(s_ == l for s_ in subs) and any(s_ == r for s_ in subs)

    ordered = False
    for rr in rets2:
        problems += leaks(ev2, rr.value, rr.conds)
        if rr.value[0] == "rec":
            fl = dict(rr.value[2])
            # the canonical pair must be decided by an ORDER comparison of the two endpoints (sorted / min / max / a < b swap), so that
            # create(a, b) and create(b, a) are the same record; and the conditions must be put in a sorted order
            pair_terms = (fl.get("left"), fl.get("right"))
            by_call = all(any(s_[0] == "call" and s_[1] in ("sorted", "min", "max") and mentions_both(s_) for s_ in subterms(t)) for t in pair_terms)
            by_cmp = any(s_[0] in ("lt", "le") and mentions_both(s_) for c in rr.conds for s_ in subterms(c)) and all(t in (l, r) for t in pair_terms) and pair_terms[0] != pair_terms[1]
            if by_call or by_cmp:
                ordered = True
            else:
                problems.append("the endpoints are stored as given: create(a, b) and create(b, a) are different records (they must be ordered by a comparison of the two)")
            cond_t = fl.get("conditions")
            if not any(s_[0] == "call" and s_[1] == "sorted" for s_ in subterms(cond_t)):
                problems.append("conditions are not sorted")
    if not rets2:
        problems.append("create has no return path")
    (rep.refuted if problems else rep.proven)(R3, construct(crt, "canonical"), "; ".join(sorted(set(problems))), loc(crt))


def subst_nodes(t: Term, M: Term) -> Term:
    from ..terms import mapterm

    def f(s):
        if s[0] in ("attr", "meth") and s[1] == M and s[2] == "nodes":
            return ("NODES", M)
        return None

    return mapterm(t, f)


def _check_latent_expansion(rep: Report, f, rule: str, L: Term, sa: SetAlg):
    """L must be a fresh DiGraph with the ancestral graph's nodes and directed edges plus, for EVERY bidirected edge
    (u, v), a fresh node with edges to u and to v.  Returns the ancestral graph term.  The builder may use any mix of add_node(s_from) /
    add_edge(s_from), loops, generators, chains or `for w in (u, v)` (normalised by nx_builder_parts)."""
    from .common import nx_builder_parts
    cons = construct(f, "moral-bidirected")
    parts = nx_builder_parts(L, sa)
    if parts is None:
        if any(s[0] in ("meth", "call") and "latent_variable_dag" in str(s[2] if s[0] == "meth" else s[1]) for s in subterms(L)):
            rep.proven(rule, cons, loc=loc(f), sample={"idiom": "to_latent_variable_dag"})
            return None
        rep.unknown(rule, cons, "latent expansion not recognised: " + short(show(L), 160), loc(f))
        return None
    _, nodes, edges = parts
    anc = None
    node_ok = edge_ok = False
    lat: dict = {}
    problems = []
    for el, gens in nodes:
        if el[0] == "ALL" and not gens and el[1][0] == "V":
            node_ok = True
            anc = el[1][1]
    for el, gens in edges:
        if el[0] == "ALL" and not gens and el[1][0] == "Ed":
            edge_ok = True
            anc = anc or el[1][1]
            continue
        if el[0] == "tuplelit" and len(el[1]) == 2 and gens:
            pat, it, conds = gens[-1] if len(gens) == 1 else gens[0]
            src = sa.strip(it)
            if src[0] == "Eu" and pat[0] == "tuplelit" and len(pat[1]) == 2:
                u, v = pat[1]
                latent, tgt = el[1]
                allconds = [c for _, _, cs in gens for c in cs]
                if allconds:
                    problems.append("some bidirected edges of the ancestral graph get no latent parent (the loop over bidirected edges is filtered by `"
                                    + short(show(allconds[0]), 100) + "`): a conditioned collider reached through such an edge does not open the path")
                if not (any(s == u for s in subterms(latent)) and any(s == v for s in subterms(latent))):
                    problems.append("the latent node does not identify its edge (two bidirected edges could share one latent)")
                lat.setdefault(src[1], set()).add("u" if tgt == u else "v" if tgt == v else "?")
    if not node_ok:
        problems.append("the nodes of the ancestral graph are not added (isolated ancestors disappear)")
    if not edge_ok:
        problems.append("the directed edges of the ancestral graph are not added")
    if not lat:
        problems.append("no latent common parent is added for bidirected edges: the moral graph ignores them")
    else:
        for g, ends in lat.items():
            if ends != {"u", "v"}:
                problems.append("a latent parent must point to both endpoints of its bidirected edge")
            if anc is not None and g != anc:
                problems.append("bidirected edges are taken from a different graph than the directed ones")
    (rep.refuted if problems else rep.proven)(rule, cons, "; ".join(sorted(set(problems))), loc(f), sample={"latent DAG": short(show(L), 400)})
    return anc


def run(model: Model, rep: Report, tier: str) -> None:
    rep.level = "other"
    rep.explanation = (
        "are_d_separated is evaluated symbolically to a single term; the rule reads off the four stages (ancestral restriction "
        "to An({a,b} ∪ C) by set-membership truth table, moralisation of a DAG in which EVERY bidirected edge of the ancestral "
        "graph has its own latent parent with edges to both endpoints, deletion of C, reachability on the undirected moral graph) "
        "and their order. Judgement records are built by create(), which sorts both endpoints and the conditions (hash-order "
        "detector). The effects analysis shows the test neither mutates its graph nor keeps a cache. Decides the necessary "
        "structure of a correct moralisation-based m-separation test; equivalence with path-based d-separation on all graphs is "
        "Lauritzen's theorem (trusted)."
    )
    rep.trusted_base = ["networkx moral_graph / has_path / Graph.subgraph", "Lauritzen et al.: separation in the moral ancestral graph", "C14 for subgraph/ancestors_inclusive"]
    rep.floors = {"R4.1": 1, "R4.2": 1, "R4.3": 2, "R4.4": 1, "R4.5": 3}
    analyse_are_d_separated(model, rep)
    eff = Effects(model)
    for q in (f"{CI}.are_d_separated", f"{NXMG}.ancestors_inclusive", f"{NXMG}.subgraph"):
        f = model.func(q)
        sm = eff.summary(f)
        if sm.mutates:
            p, es = next(iter(sm.mutates.items()))
            rep.refuted("R4.5", construct(f, "stateless"), f"modifies `{p}` ({es[0].how}): the verdict can depend on earlier calls / insertion history", loc(f, es[0].line))
        else:
            rep.proven("R4.5", construct(f, "stateless"), loc=loc(f))
    rep.stats.update({"functions_analysed": len(eff.summaries)})
