"""C12 -- printing and parsing are inverse and printing is unambiguous.

R12.1  name-table agreement: every head identifier a printer emits is a key of the parser's LOCALS, bound to the
       same y0.dsl object.
R12.2  precedence soundness: no printer slot that is the right operand of `/` can be filled by a text whose own
       top level is an unparenthesised `*` or `/`.
R12.3  printing is a function of the value: no hash-ordered iteration reaches printed text.
R12.4  sign convention of hoisted intervention subscripts agrees between printer and parser default.
R12.7  y0 printers stay in the y0 notation: a slot of a to_y0 text filled by to_text()/to_latex() is accepted only where both notations coincide
       for every class the receiver may have.
R12.6  products built by `*` are flat: parsing "a * b * c" multiplies from the left and yields ONE flat, sorted Product, so an object
       built by the operators can equal its own re-parse only if no `__mul__` branch hands Product.safe an operand that may itself be
       a Product without spreading its factors.
"""

from __future__ import annotations

import ast
import itertools
import re
import string as _string

from ..hashord import leaks
from ..model import AnalysisError, Cls, Model
from ..report import Report
from ..symeval import Evaluator
from ..terms import Term, const, show, subterms, var
from .common import construct, loc, return_paths, short, typed
from .dslcommon import DSL, EXPR, classes_consistent, concrete_expression_classes

PRINTED = ("Variable", "Intervention", "CounterfactualVariable", "Distribution", "Probability", "PopulationProbability",
           "Product", "Sum", "Fraction", "One", "Zero", "QFactor")


class Tmpl:
    def __init__(self, cls, conds, skeleton, slots, line, raw):
        self.cls, self.conds, self.skeleton, self.slots, self.line, self.raw = cls, conds, skeleton, slots, line, raw


class Printers:
    def __init__(self, model: Model) -> None:
        self.model = model
        self.cache: dict = {}
        self.evs: dict = {}

    def templates(self, K: Cls, kwargs: tuple = (), method: str = "to_y0") -> list[Tmpl]:
        key = (K.qname, kwargs) if method == "to_y0" else (K.qname, kwargs, method)
        if key in self.cache:
            return self.cache[key]
        f = K.find_method(method)
        if f is None:
            raise AnalysisError(f"{K.name} has no {method}")
        ev = Evaluator(self.model, prim_methods={"to_y0"} | ({method} if method != "to_y0" else set()), primitives={f"{DSL}._sort_interventions"})
        slf = typed(ev, "self", ("cls", K.qname))
        args = {k: v for k, v in kwargs}
        out = []
        for p in return_paths(ev.run(f, args, self_term=slf)):
            sk, slots = self.render(p.value, slf)
            out.append(Tmpl(K, p.conds, sk, slots, p.line, p.value))
        self.cache[key] = out
        self.evs[key] = (ev, slf, f)
        return out

    def render(self, t: Term, slf: Term):
        slots: list[dict] = []

        def ph(info: dict) -> str:
            info["id"] = f"__s{len(slots)}__"
            slots.append(info)
            return info["id"]

        def go(t: Term) -> str:
            h = t[0]
            if h == "const":
                return str(t[1]) if t[1] is not None else ""
            if h == "fstr":
                return "".join(go(x) for x in t[1])
            if h == "fmt":
                return go(t[1])
            if h == "meth" and t[2] == "to_y0":
                return ph({"kind": "expr", "src": t[1], "kwargs": t[4]})
            if h == "op" and t[1] == "+" and len(t) == 4:
                return go(t[2]) + go(t[3])  # text + text
            if h == "meth" and t[2] == "join" and t[1][0] == "const" and t[3]:
                sep = t[1][1]
                arg = t[3][0]
                elt = arg[2] if arg[0] == "comp" else None
                it = arg[3][0][1] if arg[0] == "comp" and len(arg[3]) == 1 else arg
                pat = arg[3][0][0] if arg[0] == "comp" and len(arg[3]) == 1 else None
                if sep.strip() in ("*", "/", "+", "-"):
                    a = ph({"kind": "elem", "src": it, "elt": elt, "pat": pat, "sep": sep})
                    b = ph({"kind": "elem", "src": it, "elt": elt, "pat": pat, "sep": sep})
                    return f"{a}{sep}{b}"
                return ph({"kind": "list", "src": it, "elt": elt, "pat": pat, "sep": sep})
            if h == "attr" and t[2] == "name":
                return ph({"kind": "name", "src": t[1]})
            if h == "ite":
                return ph({"kind": "choice", "src": t})
            return ph({"kind": "other", "src": t})

        return go(t), slots


def _exposed_op(skeleton: str):
    """Top-level binary operator of a text, if it is not wrapped in parentheses."""
    s = skeleton.strip()
    try:
        node = ast.parse(s, mode="eval").body
    except SyntaxError:
        return "unparsable"
    if not isinstance(node, ast.BinOp):
        return None
    if s.startswith("("):
        depth = 0
        for i, ch in enumerate(s):
            if ch == "(":
                depth += 1
            elif ch == ")":
                depth -= 1
                if depth == 0:
                    if i == len(s) - 1:
                        return None  # fully wrapped
                    break
    return type(node.op).__name__


def _fold_locals(model: Model):
    """Constant-fold parser/internal.py: keys of LOCALS and the expression each key is bound to."""
    m = model.modules.get("y0.parser.internal")
    if m is None:
        raise AnalysisError("anchor module vanished: y0.parser.internal")
    table: dict[str, str] = {}
    bound_values: dict = {}
    gen_funcs: dict = {}
    found = False

    def ev_iter(e, env):
        if isinstance(e, ast.Call):
            q = ast.unparse(e.func)
            if q.endswith("chain"):
                out = []
                for a in e.args:
                    out.extend(ev_iter(a, env))
                return out
            if q == "range":
                return list(range(*[ev_val(a, env) for a in e.args]))
            if isinstance(e.func, ast.Name) and e.func.id in gen_funcs and not e.args and not e.keywords:
                # a module-level generator without parameters: its yields, in order
                env2 = {"__yield__": []}
                run(gen_funcs[e.func.id].body, env2)
                return list(env2["__yield__"])
        if isinstance(e, (ast.GeneratorExp, ast.ListComp)) and len(e.generators) == 1 and isinstance(e.generators[0].target, ast.Name):
            g = e.generators[0]
            out_ = []
            for it in ev_iter(g.iter, env):
                env3 = dict(env)
                env3[g.target.id] = it
                if all(ev_cond(c, env3) for c in g.ifs):
                    out_.append(ev_val(e.elt, env3))
            return out_
        v = ev_val(e, env)
        return list(v)

    def ev_val(e, env):
        if isinstance(e, ast.Constant):
            return e.value
        if isinstance(e, ast.Name):
            if e.id in env:
                return env[e.id]
            raise KeyError(e.id)
        if isinstance(e, ast.Attribute):
            q = ast.unparse(e)
            if q.startswith("string."):
                return getattr(_string, e.attr)
            raise KeyError(q)
        if isinstance(e, (ast.List, ast.Tuple, ast.Set)):
            out_ = []
            for x in e.elts:
                if isinstance(x, ast.Starred):
                    out_.extend(ev_iter(x.value, env))
                else:
                    out_.append(ev_val(x, env))
            return out_
        if isinstance(e, ast.IfExp):
            return ev_val(e.body if ev_cond(e.test, env) else e.orelse, env)
        if isinstance(e, ast.BinOp) and isinstance(e.op, ast.Add):
            return ev_val(e.left, env) + ev_val(e.right, env)
        if isinstance(e, ast.Call) and isinstance(e.func, ast.Name) and e.func.id == "str" and len(e.args) == 1 and not e.keywords:
            return str(ev_val(e.args[0], env))
        if isinstance(e, ast.JoinedStr):
            return "".join(str(ev_val(v.value, env)) if isinstance(v, ast.FormattedValue) else v.value for v in e.values)
        if isinstance(e, ast.Call) and isinstance(e.func, ast.Name) and e.func.id == "Variable" and len(e.args) == 1 and not e.keywords:
            return ("Variable", ev_val(e.args[0], env))
        if isinstance(e, ast.Call) and isinstance(e.func, ast.Name) and e.func.id == "Variable" and not e.args and len(e.keywords) == 1 and e.keywords[0].arg == "name":
            return ("Variable", ev_val(e.keywords[0].value, env))
        raise KeyError(ast.unparse(e))

    class Cont(Exception):
        pass

    def run(stmts, env):
        nonlocal found
        for st in stmts:
            if isinstance(st, ast.AnnAssign) and st.value is not None and isinstance(st.target, ast.Name):
                st = ast.copy_location(ast.Assign(targets=[st.target], value=st.value), st)  # NAME: T = value  is  NAME = value
            if isinstance(st, ast.Assign) and len(st.targets) == 1:
                tg = st.targets[0]
                if isinstance(tg, ast.Name) and tg.id == "LOCALS" and isinstance(st.value, ast.Dict):
                    found = True
                    for k, v in zip(st.value.keys, st.value.values):
                        if isinstance(k, ast.Constant):
                            table[k.value] = ast.unparse(v)
                elif isinstance(tg, ast.Subscript) and isinstance(tg.value, ast.Name) and tg.value.id == "LOCALS":
                    try:
                        key = ev_val(tg.slice, env)
                        table[key] = ast.unparse(st.value)
                        try:
                            bound_values[key] = ev_val(st.value, env)
                        except KeyError:
                            pass
                    except KeyError:
                        pass
                elif isinstance(tg, ast.Name):
                    try:
                        env[tg.id] = ev_val(st.value, env)
                    except KeyError:
                        pass
            elif isinstance(st, ast.For) and isinstance(st.target, ast.Name):
                try:
                    items = ev_iter(st.iter, env)
                except KeyError:
                    continue
                for it in items:
                    env[st.target.id] = it
                    try:
                        run(st.body, env)
                    except Cont:
                        continue
            elif isinstance(st, ast.If):
                try:
                    c = ev_cond(st.test, env)
                except KeyError:
                    continue
                run(st.body if c else st.orelse, env)
            elif isinstance(st, ast.Continue):
                raise Cont()
            elif isinstance(st, ast.Expr) and isinstance(st.value, ast.Yield) and "__yield__" in env and st.value.value is not None:
                try:
                    env["__yield__"].append(ev_val(st.value.value, env))
                except KeyError:
                    pass
            elif isinstance(st, ast.Expr) and isinstance(st.value, ast.YieldFrom) and "__yield__" in env:
                try:
                    env["__yield__"].extend(ev_iter(st.value.value, env))
                except KeyError:
                    pass
            elif isinstance(st, ast.Expr) and isinstance(st.value, ast.Call) and ast.unparse(st.value.func) == "LOCALS.update" and len(st.value.args) == 1 \
                    and isinstance(st.value.args[0], (ast.GeneratorExp, ast.ListComp)) and isinstance(st.value.args[0].elt, ast.Tuple) and len(st.value.args[0].elt.elts) == 2:
                c_ = st.value.args[0]
                if len(c_.generators) == 1 and isinstance(c_.generators[0].target, ast.Name):
                    g_ = c_.generators[0]
                    try:
                        items_ = ev_iter(g_.iter, env)
                    except KeyError:
                        items_ = []
                    for it in items_:
                        env3 = dict(env)
                        env3[g_.target.id] = it
                        try:
                            if not all(ev_cond(cc, env3) for cc in g_.ifs):
                                continue
                            key = ev_val(c_.elt.elts[0], env3)
                            table[key] = ast.unparse(c_.elt.elts[1])
                            bound_values[key] = ev_val(c_.elt.elts[1], env3)
                        except KeyError:
                            pass
            elif isinstance(st, ast.Expr) and isinstance(st.value, ast.Call) and ast.unparse(st.value.func) == "LOCALS.update" and st.value.args and isinstance(st.value.args[0], ast.Dict):
                for k, v in zip(st.value.args[0].keys, st.value.args[0].values):
                    if isinstance(k, ast.Constant):
                        table[k.value] = ast.unparse(v)

    def ev_cond(e, env):
        if isinstance(e, ast.Compare) and len(e.ops) == 1 and isinstance(e.ops[0], (ast.In, ast.NotIn)):
            r = ev_val(e.left, env) in ev_val(e.comparators[0], env)
            return r if isinstance(e.ops[0], ast.In) else not r
        if isinstance(e, ast.Compare) and len(e.ops) == 1 and isinstance(e.ops[0], (ast.Is, ast.IsNot, ast.Eq, ast.NotEq)):
            a_, b_ = ev_val(e.left, env), ev_val(e.comparators[0], env)
            r = (a_ is b_) if isinstance(e.ops[0], (ast.Is, ast.IsNot)) and (a_ is None or b_ is None) else (a_ == b_)
            return r if isinstance(e.ops[0], (ast.Is, ast.Eq)) else not r
        if isinstance(e, ast.UnaryOp) and isinstance(e.op, ast.Not):
            return not ev_cond(e.operand, env)
        if isinstance(e, ast.BoolOp):
            vals = [ev_cond(x, env) for x in e.values]
            return all(vals) if isinstance(e.op, ast.And) else any(vals)
        if isinstance(e, (ast.Name, ast.Constant)):
            return bool(ev_val(e, env))  # truthiness of a folded value (`if index:` is False for 0 AND for None)
        raise KeyError("cond")

    gen_funcs.update({n.name: n for n in m.tree.body if isinstance(n, ast.FunctionDef) and not n.args.args and not n.args.kwonlyargs
                      and any(isinstance(x, (ast.Yield, ast.YieldFrom)) for x in ast.walk(n))})
    run(m.tree.body, {})
    if not found:
        raise AnalysisError("anchor vanished: LOCALS dict in y0.parser.internal")
    _fold_locals.bound_values = bound_values
    return m, table


def run(model: Model, rep: Report, tier: str) -> None:
    rep.level = "other"
    rep.explanation = (
        "Every to_y0 printer is evaluated symbolically into its set of text templates (literal pieces + slots, one template "
        "per path); each template's skeleton is parsed with Python's own grammar (ast.parse), which is the oracle for "
        "precedence and for the head identifiers the text mentions. The parser's name table is constant-folded from "
        "parser/internal.py. R12.1 compares the two tables; R12.2 enumerates every (slot that is the right operand of /) x "
        "(class that may fill it on that path) x (template of that class, with the keyword arguments of that call site) and "
        "rejects exposed * or /; R12.3 is the hash-order detector on every printer's value; R12.4 is a two-row table "
        "(star True/False) of the printed subscript against the parser's default. Decides: parsing a printed form cannot hit a "
        "missing name, the text groups as the object does, the text is deterministic. Does not decide object equality of the "
        "round trip beyond these necessary conditions."
    )
    rep.trusted_base = ["Python operator precedence as implemented by ast.parse", "eval() of the printed text against LOCALS"]
    rep.floors = {"R12.1": 7, "R12.2": 10, "R12.3": 20, "R12.4": 3, "R12.5": 1, "R12.6": 4, "R12.7": 8, "R12.10": 1, "R12.11": 1}
    # ------------------------------------------------------------------ R12.5 hoisting of subscripts
    from ..refcmp import load_reference, run_table
    from ..setalg import SetAlg
    load_reference(model, "yvref.c12", "c12_ref.py")
    PT = ("cls", f"{DSL}.Probability")
    run_table(model, rep, [("R12.5", f"{DSL}.Probability.to_y0", "probability_text", {"self": PT}, (), "hoisted-subscripts",
                            "subscripts are written once in front (P[x](Y, Z)) only when every variable of the distribution carries exactly the same "
                            "subscripts -- same variables AND same values -- and the hoisted text is that common set", {"impl_self_type": PT})],
              "yvref.c12", lambda m_, prims: (lambda: Evaluator(m_, primitives={f"{DSL}._sort_interventions"} | set(prims), prim_methods={"to_y0"})),
              SetAlg(), construct=construct, loc=loc)
    pr = Printers(model)
    dsl = model.modules["y0.dsl"]
    classes = {n: model.cls(f"{DSL}.{n}") for n in PRINTED}
    exprs = concrete_expression_classes(model)
    _products_flat(model, rep, exprs)
    _printer_family(model, rep, pr, classes)
    _reader_is_transparent(model, rep)
    _order_free_fields(model, rep)
    # ------------------------------------------------------------------ R12.1
    pm, table = _fold_locals(model)
    heads: dict[str, list] = {}
    for n, K in classes.items():
        for kw in ((), (("parens", const(False)),)) if n == "Fraction" else ((),):
            for t in pr.templates(K, kw):
                try:
                    node = ast.parse(t.skeleton.strip() or "None", mode="eval")
                except SyntaxError:
                    rep.refuted("R12.1", construct(K.find_method("to_y0"), f"parsable:{n}"), f"printed skeleton is not a Python expression: {t.skeleton!r}", loc(K.find_method("to_y0"), t.line))
                    continue
                for x in ast.walk(node):
                    if isinstance(x, ast.Name) and not x.id.startswith("__s"):
                        heads.setdefault(x.id, []).append((K, t))
    for h, users in sorted(heads.items()):
        K, t = users[0]
        f = K.find_method("to_y0")
        cons = f"y0.parser.internal:LOCALS#head:{h}"
        if h not in table:
            rep.refuted("R12.1", cons, f"{K.name}.to_y0 prints `{t.skeleton}` but the parser's name table has no `{h}`: parse_y0 of any expression containing it raises NameError",
                        f"{pm.relpath}:1")
            continue
        bound = table[h]
        target = model.resolve_name(pm, bound) if bound.isidentifier() else None
        mine = model.resolve_name(dsl, h)
        same = target is not None and (target is mine or (isinstance(target, tuple) and isinstance(mine, tuple) and target[1:] == mine[1:]))
        if not same:
            rep.refuted("R12.1", cons, f"`{h}` is printed by {K.name}.to_y0 but the parser binds it to `{bound}`, not to y0.dsl.{h}", f"{pm.relpath}:1")
        else:
            rep.proven("R12.1", cons, loc=f"{pm.relpath}:1", sample={"printed by": sorted({k.name for k, _ in users}), "bound to": bound})
    # every variable name of the parser's alphabet is bound to the variable OF THAT NAME (X_1 must not read back as X1)
    bv = getattr(_fold_locals, "bound_values", {})
    wrong = sorted(k for k, v in bv.items() if isinstance(v, tuple) and v and v[0] == "Variable" and v[1] != k)
    n_var = sum(1 for v in bv.values() if isinstance(v, tuple) and v and v[0] == "Variable")
    if wrong:
        rep.refuted("R12.1", "y0.parser.internal:LOCALS#names-bind-themselves",
                    f"the name table binds {wrong[:4]}{'…' if len(wrong) > 4 else ''} to variables with a different name: a variable printed under that name parses back as another variable",
                    f"{pm.relpath}:1")
    else:
        rep.proven("R12.1", "y0.parser.internal:LOCALS#names-bind-themselves", loc=f"{pm.relpath}:1", sample={"variable entries evaluated": n_var}, nontrivial=n_var > 0)
    # ... and the alphabet is CLOSED under the documented naming scheme: for every letter the table knows, the ten indexed names L0..L9 and the ten
    # underscored names L_0..L_9 (the docstring of parse_y0, the variables y0.dsl exports and the example graphs all use them; index 0 included)
    var_keys = {k for k, v in bv.items() if isinstance(v, tuple) and v and v[0] == "Variable"}
    letters = sorted(k for k in var_keys if not any(ch.isdigit() for ch in k) and "_" not in k)
    missing = [f"{L}{sep}{d}" for L in letters for sep in ("", "_") for d in range(10) if f"{L}{sep}{d}" not in var_keys]
    cons_a = "y0.parser.internal:LOCALS#alphabet-closed"
    if not letters:
        rep.unknown("R12.1", cons_a, "no variable entries could be evaluated in the name table", f"{pm.relpath}:1")
    elif missing:
        rep.refuted("R12.1", cons_a, f"{len(missing)} names of the documented scheme (letter + digit, letter + _ + digit, digits 0-9) are not bound, e.g. {missing[:6]}: "
                    f"an expression over such a variable prints, and the printed text does not parse (NameError)", f"{pm.relpath}:1")
    else:
        rep.proven("R12.1", cons_a, loc=f"{pm.relpath}:1", sample={"letters": len(letters), "indexed names": 20 * len(letters)})
    rep.stats["locals_keys"] = len(table)
    rep.stats["printer_templates"] = sum(len(v) for v in pr.cache.values())
    # ------------------------------------------------------------------ R12.2
    checked = 0
    for n, K in classes.items():
        variants = [()]
        if n == "Fraction":
            variants.append((("parens", const(False)),))
        for kw in variants:
            for ti, t in enumerate(pr.templates(K, kw)):
                f = K.find_method("to_y0")
                try:
                    node = ast.parse(t.skeleton.strip() or "None", mode="eval").body
                except SyntaxError:
                    continue
                for bo in [x for x in ast.walk(node) if isinstance(x, ast.BinOp) and isinstance(x.op, (ast.Div, ast.Mult))]:
                    for side, operand in (("left", bo.left), ("right", bo.right)):
                        if not (isinstance(operand, ast.Name) and operand.id.startswith("__s")):
                            continue
                        slot = next(s for s in t.slots if s["id"] == operand.id)
                        if f"({operand.id})" in t.skeleton.replace(" ", ""):
                            rep.proven("R12.2", construct(f, f"{n}{'(parens=False)' if kw else ''}:{type(bo.op).__name__}.{side}:parenthesised"), loc=loc(f, t.line),
                                       sample={"outer": t.skeleton})
                            continue
                        fillers = _fillers(model, exprs, slot, t)
                        if fillers is None:
                            continue
                        for F, fkw in fillers:
                            for ft in pr.templates(F, fkw):
                                checked += 1
                                op = _exposed_op(ft.skeleton)
                                role = f"{n}{'(parens=False)' if kw else ''}:{type(bo.op).__name__}.{side}<-{F.name}"
                                cons = construct(f, role)
                                bad = side == "right" and isinstance(bo.op, ast.Div) and op in ("Mult", "Div")
                                if op == "unparsable":
                                    rep.unknown("R12.2", cons, f"filler text {ft.skeleton!r} not parsable", loc(f, t.line), required=False)
                                elif bad:
                                    rep.refuted("R12.2", cons,
                                                f"{n}.to_y0 prints `{t.skeleton}`; when the slot after `/` is a {F.name} printed as `{ft.skeleton}` the text regroups: "
                                                f"a / b {'*' if op == 'Mult' else '/'} c reads as (a / b) {'*' if op == 'Mult' else '/'} c, a different quantity", loc(f, t.line),
                                                sample={"outer": t.skeleton, "filler": ft.skeleton})
                                else:
                                    rep.proven("R12.2", cons, loc=loc(f, t.line), sample={"outer": t.skeleton, "filler": ft.skeleton, "exposed": op})
    rep.stats["slot_filler_template_triples"] = checked
    # ------------------------------------------------------------------ R12.3
    for n, K in classes.items():
        for meth in ("to_y0", "to_latex", "to_text"):
            f = K.find_method(meth)
            if f is None:
                continue
            ev = Evaluator(model, prim_methods={"to_y0", "to_latex", "to_text"} - {meth} | {"to_y0", "to_latex", "to_text"})
            slf = typed(ev, "self", ("cls", K.qname))
            try:
                rets = return_paths(ev.run(f, {}, self_term=slf))
            except Exception as ex:  # noqa: BLE001
                rep.unknown("R12.3", construct(f, f"hash-order:{n}"), f"evaluator failed: {ex}", loc(f), required=False)
                continue
            ls = []
            for r in rets:
                ls += leaks(ev, r.value, r.conds)
            cons = construct(f, f"hash-order:{n}")
            if ls:
                rep.refuted("R12.3", cons, "the printed text depends on PYTHONHASHSEED / insertion history: " + "; ".join(sorted(set(ls))[:2]), loc(f))
            else:
                rep.proven("R12.3", cons, loc=loc(f), nontrivial=any(s[0] == "comp" for r in rets for s in subterms(r.value)))
    # ------------------------------------------------------------------ R12.4
    default_star = _parser_default_star(model)
    for n in ("Probability", "PopulationProbability"):
        K = classes[n]
        f = K.find_method("to_y0")
        found = 0
        for t in pr.templates(K):
            for s in t.slots:
                if s["kind"] == "list" and s.get("elt") is not None and "[" in t.skeleton and _is_interventions(s):
                    found += 1
                    texts = {}
                    for star in (True, False):
                        texts[star] = _render_subscript(s["elt"], s["pat"], star)
                    parsed = {star: _parse_star(txt, default_star) for star, txt in texts.items()}
                    cons = construct(f, f"subscript-sign:{n}")
                    if None in texts.values():
                        rep.unknown("R12.4", cons, "subscript rendering not understood: " + short(show(s["elt"]), 120), loc(f, t.line))
                    elif parsed[True] is True and parsed[False] is False:
                        rep.proven("R12.4", cons, loc=loc(f, t.line), sample={"star=True": texts[True], "star=False": texts[False], "parser default for a bare name": default_star})
                    else:
                        rep.refuted("R12.4", cons, f"an intervention with star=True is printed `{texts[True]}` and with star=False `{texts[False]}`; "
                                    f"the parser reads them back as star={parsed[True]} / star={parsed[False]} (bare names default to star={default_star})", loc(f, t.line))
        if not found:
            rep.error(f"R12.4: no hoisted-subscript template found for {n}")
    # structural printers print exactly their OWN fields: Sum[<self.ranges>](<self.expression>), the factors of self.expressions,
    # self.numerator / self.denominator -- a printer that looks through its operand (e.g. merges a nested Sum's ranges into its own) prints
    # a text that parses back to a different object (and, for overlapping ranges, to a different quantity)
    slf0 = var("self")
    for n in ("Sum", "Product", "Fraction"):
        K = classes.get(n)
        if K is None:
            continue
        f = K.find_method("to_y0")
        own = set(K.all_fields())
        bad_src = []
        seen_fields = set()
        variants = [()] + ([(("parens", const(False)),)] if n == "Fraction" else [])
        for kw in variants:
            for t in pr.templates(K, kw):
                for sl in t.slots:
                    src = sl["src"]
                    while src[0] == "call" and src[2] and (str(src[1]) in ("sorted", "list", "tuple") or str(src[1]).split(".")[-1].startswith("_sort")):
                        src = src[2][0]
                    while src[0] == "meth" and src[2].startswith("_get_sorted") and src[1] == slf0:
                        src = ("attr", slf0, "ranges")
                    if src[0] == "attr" and src[1] == slf0 and src[2] in own:
                        seen_fields.add(src[2])
                    elif src[0] == "ite":
                        continue
                    else:
                        bad_src.append(short(show(src), 100))
        cons = construct(f, f"prints-own-fields:{n}")
        if bad_src:
            rep.refuted("R12.4", cons, f"{n}.to_y0 prints something other than its own fields: {bad_src[0]}", loc(f))
        elif not seen_fields:
            rep.unknown("R12.4", cons, "no field slots recognised in the printer's templates", loc(f), required=False)
        else:
            rep.proven("R12.4", cons, loc=loc(f), sample={"fields printed": sorted(seen_fields)})
    f = model.func(f"{DSL}._to_interventions")
    (rep.proven if default_star is False else rep.refuted)("R12.4", construct(f, "bare-name-default"),
                                                           "" if default_star is False else f"bare subscript names default to star={default_star}", loc(f))


FOREIGN_PRINTERS = ("to_text", "to_latex", "_repr_latex_")


def _printer_family(model: Model, rep: Report, pr: "Printers", classes) -> None:
    """R12.7: a to_y0 printer fills its slots with to_y0 texts.  A slot filled by another notation's printer (to_text, to_latex) is accepted only if,
    for every class the receiver may have, that printer and to_y0 have the same templates (co-inductively through their own slots)."""
    from ..terms import alpha_normalise, mapterm

    def concrete(recv, ev, sl=None):
        typ = ev.typeof(recv)
        if typ is None and sl is not None and sl.get("pat") == recv and sl.get("src") is not None:
            typ = ev.elem_type(sl["src"])  # the element of the list this slot prints
        if not (isinstance(typ, tuple) and typ and typ[0] == "cls"):
            return None
        c = model.classes.get(typ[1])
        if c is None:
            return None
        return [k for k in [c] + list(c.all_subclasses()) if k.find_method("to_y0") is not None and not getattr(k, "is_abstract", False)]

    def norm_slot(s_, foreign):
        def f(t):
            if t[0] == "meth" and t[2] == foreign:
                return ("meth", t[1], "to_y0") + tuple(t[3:])
            return None
        out = {k: (alpha_normalise(mapterm(v, f)) if isinstance(v, tuple) and v and isinstance(v[0], str) else v) for k, v in s_.items() if k != "id"}
        return out

    memo: dict = {}

    def equiv(D: Cls, foreign: str) -> str | None:
        """None if D.<foreign>() and D.to_y0() print the same text for every value, else a description of the first difference"""
        key = (D.qname, foreign)
        if key in memo:
            return memo[key]
        memo[key] = None  # co-inductive hypothesis
        if D.find_method(foreign) is None:
            memo[key] = f"{D.name} has no {foreign}"
            return memo[key]
        try:
            a, b = pr.templates(D), pr.templates(D, (), foreign)
        except Exception as e:  # noqa: BLE001
            memo[key] = f"{D.name}.{foreign} could not be read ({type(e).__name__})"
            return memo[key]
        why = None
        if len(a) != len(b):
            why = f"{D.name}.to_y0 has {len(a)} forms, {D.name}.{foreign} has {len(b)}"
        else:
            for ta, tb in zip(a, b):
                if ta.skeleton != tb.skeleton:
                    why = f"{D.name}.to_y0 prints `{ta.skeleton}` where {D.name}.{foreign} prints `{tb.skeleton}`"
                    break
                if [norm_slot(x, foreign) for x in ta.slots] != [norm_slot(x, foreign) for x in tb.slots]:
                    why = f"{D.name}.to_y0 and {D.name}.{foreign} fill `{ta.skeleton}` differently"
                    break
                evb = pr.evs[(D.qname, (), foreign)][0]
                for sl in tb.slots:
                    for q in subterms((sl.get("src"), sl.get("elt"))):
                        if q[0] == "meth" and q[2] == foreign:
                            for D2 in concrete(q[1], evb, sl) or []:
                                w2 = equiv(D2, foreign)
                                if w2:
                                    why = w2
                                    break
                        if why:
                            break
                    if why:
                        break
                if why:
                    break
        memo[key] = why
        return why

    for n, K in classes.items():
        f = K.find_method("to_y0")
        if f is None or f.cls is not K:
            continue
        for kw in ((), (("parens", const(False)),)) if n == "Fraction" else ((),):
            try:
                ts = pr.templates(K, kw)
            except Exception:  # noqa: BLE001
                continue
            ev = pr.evs[(K.qname, kw)][0]
            problems, n_slots = [], 0
            for t in ts:
                for sl in t.slots:
                    n_slots += 1
                    for q in subterms((sl.get("src"), sl.get("elt"))):
                        if q[0] == "meth" and q[2] in FOREIGN_PRINTERS:
                            poss = concrete(q[1], ev, sl)
                            if poss is None:
                                problems.append(f"`{t.skeleton}`: a slot is filled by {short(show(q), 60)}, another notation's printer, on a receiver of unknown class")
                                continue
                            for D in poss:
                                w = equiv(D, q[2])
                                if w:
                                    problems.append(f"`{t.skeleton}`: a slot is filled by {short(show(q), 60)} -- the {q[2]} notation, not y0's: {w}; parse_y0 of the printed text "
                                                    f"fails or reads something else")
                                    break
            cons = construct(f, f"y0-family:{n}" + (":noparens" if kw else ""))
            if problems:
                rep.refuted("R12.7", cons, "; ".join(sorted(set(problems))[:2]), loc(f))
            else:
                rep.proven("R12.7", cons, loc=loc(f), sample={"slots read": n_slots}, nontrivial=n_slots > 0)


def _reader_is_transparent(model: Model, rep: Report) -> None:
    """R12.10: parse_y0 hands back what the text evaluates to -- nothing is simplified, reordered or re-wrapped on the way out (otherwise
    parse_y0(str(e)) is some other object than e for the expressions that step changes)."""
    q = "y0.parser.internal.parse_y0"
    if q not in model.functions:
        rep.unknown("R12.10", "y0.parser.internal:parse_y0#transparent", "parse_y0 not found", "")
        return
    f = model.functions[q]
    ev = Evaluator(model)
    paths = ev.run(f, {f.params[0]: typed(ev, f.params[0], "str")})
    rets = return_paths(paths)
    problems = []
    n_eval = 0
    for p in rets:
        v = p.value
        while v[0] == "call" and isinstance(v[1], str) and v[1].split(".")[-1] == "cast" and len(v[2]) == 2:
            v = v[2][1]
        if v[0] == "call" and v[1] == "eval":
            n_eval += 1
            continue
        if any(s_[0] == "call" and s_[1] == "eval" for s_ in subterms(v)):
            problems.append(f"line {p.line}: the evaluated text is post-processed before it is returned ({short(show(v), 100)}): for the expressions this step changes, "
                            f"parse_y0(str(e)) is not e")
        else:
            problems.append(f"line {p.line}: returns {short(show(v), 80)}, not the evaluated text")
    cons = construct(f, "transparent")
    if problems:
        rep.refuted("R12.10", cons, "; ".join(sorted(set(problems))[:2]), loc(f))
    elif n_eval:
        rep.proven("R12.10", cons, loc=loc(f), sample={"return paths": len(rets)})
    else:
        rep.unknown("R12.10", cons, "no return path evaluates the text", loc(f))


def _order_free_fields(model: Model, rep: Report) -> None:
    """R12.11: a field declared `frozenset[...]` holds a set in every object the DSL's own builders make: an ordered container there makes two objects
    that print the same text unequal (Q[A](Y, X) vs Q[A](X, Y)), so the printed form cannot be parsed back to the object."""
    from ..keys import _kind
    dsl = model.modules.get("y0.dsl")
    n = 0
    for K in [c for c in model.classes.values() if c.module is dsl and c.is_dataclass]:
        set_fields = []
        for fld, ann in K.all_fields().items():
            a_ = ann
            if isinstance(a_, ast.Subscript) and isinstance(a_.value, ast.Name) and a_.value.id in ("frozenset", "set", "FrozenSet", "Set", "AbstractSet"):
                set_fields.append(fld)
        if not set_fields:
            continue
        for mname, m in sorted(K.methods.items()):
            if not (m.is_classmethod or m.is_staticmethod) or mname.startswith("__"):
                continue
            ev = Evaluator(model, primitives={f"{DSL}._upgrade_ordering", f"{DSL}._upgrade_variables", f"{DSL}._sorted_variables", f"{DSL}.Variable.norm"})
            try:
                paths = return_paths(ev.run(m, {p_: var(p_) for p_ in m.params if p_ not in ("cls",)}, self_term=("ref", K.qname)) if m.is_classmethod
                                     else ev.run(m, {p_: var(p_) for p_ in m.params}))
            except Exception:  # noqa: BLE001
                continue
            problems, built = [], 0
            for p in paths:
                for s_ in subterms(p.value):
                    if s_[0] in ("rec", "new") and s_[1] == K.qname:
                        fl = dict(s_[2]) if s_[0] == "rec" else dict(s_[3])
                        for fld in set_fields:
                            if fld in fl:
                                built += 1
                                k_ = _kind(fl[fld], ev)
                                if k_ is not None and k_ != "set":
                                    problems.append(f"{K.name}.{fld} is declared a frozenset but {mname}() builds it as {short(show(fl[fld]), 80)} (an ordered "
                                                    f"{k_[0] if isinstance(k_, tuple) else k_}): objects that differ only in the order the variables were given "
                                                    f"print the same text and are unequal")
            if built:
                n += 1
                cons = construct(m, f"order-free:{K.name}")
                (rep.refuted if problems else rep.proven)("R12.11", cons, "; ".join(sorted(set(problems))[:2]), loc(m), sample={"constructions read": built})
    if n == 0:
        rep.unknown("R12.11", "y0.dsl:#order-free", "no builder of a class with frozenset fields was read", "", required=False)


def _products_flat(model: Model, rep: Report, exprs) -> None:
    from .dslcommon import DSL_PRIMS
    from ..symeval import dnf_paths
    done = set()
    for K in exprs:
        for opname in ("__mul__", "__rmul__"):
            f = K.find_method(opname)
            if f is None or f.cls is None or len(f.params) < 2:
                continue
            ev = Evaluator(model, primitives=set(DSL_PRIMS), prim_methods={"__mul__", "__truediv__", "__rmul__"})
            slf = typed(ev, "self", ("cls", K.qname))
            oth = typed(ev, f.params[1], ("cls", EXPR))
            try:
                paths = return_paths(dnf_paths(ev.run(f, {f.params[1]: oth}, self_term=slf)))
            except Exception:  # noqa: BLE001
                continue  # the operator table itself is C13's obligation
            cons = construct(f, f"flat:{K.name}")
            if cons in done:
                continue
            done.add(cons)
            problems, n_built = [], 0
            for p in paths:
                if ev.infeasible(p.conds):
                    continue
                v = p.value
                if not (v[0] == "call" and str(v[1]).endswith("Product.safe")):
                    continue
                seq = dict(v[3]).get("expressions", v[2][0] if v[2] else None)
                while seq is not None and seq[0] == "call" and seq[1] in ("tuple", "list") and len(seq[2]) == 1:
                    seq = seq[2][0]
                if seq is None or seq[0] not in ("tuplelit", "listlit"):
                    continue
                n_built += 1
                for x in seq[1]:
                    if x[0] == "star":
                        continue
                    if x == slf:
                        poss = [K]
                    elif x == oth:
                        poss = classes_consistent(model, exprs, p.conds, oth)
                    else:
                        continue
                    if any(k.is_subclass_of("Product") for k in poss):
                        which = "the left operand" if x == slf else "the right operand"
                        problems.append(f"line {p.line}: {which} may be a Product and is passed to Product.safe as ONE factor (Product.safe removes ones and sorts, it does not "
                                        f"flatten): {K.name} * (b * c) is stored as a product inside a product, prints as `a * b * c`, and that text parses to the flat "
                                        f"product -- parse_y0(str(e)) != e for a division-free e")
            if problems:
                rep.refuted("R12.6", cons, "; ".join(sorted(set(problems))[:2]), loc(f))
            elif n_built:
                rep.proven("R12.6", cons, loc=loc(f), sample={"Product.safe calls read": n_built})


def _is_interventions(slot) -> bool:
    return any(s[0] == "attr" and s[2] == "interventions" for s in subterms(slot["src"])) or "intervention" in show(slot["src"])


def _fillers(model, exprs, slot, t: Tmpl):
    src = slot["src"]
    if slot["kind"] == "expr":
        kw = tuple(slot.get("kwargs") or ())
        if src[0] == "attr":
            poss = classes_consistent(model, exprs, t.conds, src)
            # field type must be an Expression for this rule
            return [(c, kw) for c in poss]
        return None
    if slot["kind"] == "elem":
        core = src
        if core[0] == "attr" and core[2] == "expressions":
            return [(c, ()) for c in exprs]
    return None


def _parser_default_star(model: Model):
    f = model.func(f"{DSL}._to_interventions")
    ev = Evaluator(model)
    vs = typed(ev, "variables", ("tuple", ("cls", f"{DSL}.Variable")))
    rets = return_paths(ev.run(f, {"variables": vs}))
    for r in rets:
        for s in subterms(r.value):
            if s[0] == "rec" and s[1].endswith(".Intervention"):
                st = dict(s[2]).get("star")
                if st and st[0] == "const":
                    return st[1]
    return None


def _render_subscript(elt: Term, pat: Term, star: bool):
    def go(t):
        h = t[0]
        if h == "const":
            return str(t[1])
        if h == "fstr":
            parts = [go(x) for x in t[1]]
            return None if None in parts else "".join(parts)
        if h == "fmt":
            return go(t[1])
        if h == "attr" and t[1] == pat and t[2] == "name":
            return "N"
        if h == "ite" and t[2][0] == "bottom":
            return go(t[3])
        if h == "ite" and t[3][0] == "bottom":
            return go(t[2])
        if h == "ite":
            c = t[1]
            neg = False
            while c[0] == "not":
                neg = not neg
                c = c[1]
            if c in (("truth", ("attr", pat, "star")), ("attr", pat, "star")):
                val = star != neg
                return go(t[2] if val else t[3])
            return None
        if h == "meth" and t[2] == "to_y0":
            if t[1] == pat:
                return ("+" if star else "-") + "N"
            if t[1][0] == "meth" and t[1][2] == "get_base" and t[1][1] == pat:
                return "N"
            if t[1][0] == "rec" and dict(t[1][2]).get("name") == ("attr", pat, "name"):
                st = dict(t[1][2]).get("star")
                if st == ("attr", pat, "star"):
                    return ("+" if star else "-") + "N"
                if st is not None and st[0] == "const":
                    return {None: "", True: "+", False: "-"}[st[1]] + "N"
            return None
        return None

    return go(elt)


def _parse_star(txt, default_star):
    if txt is None:
        return None
    txt = txt.strip()
    if txt.startswith("+"):
        return True
    if txt.startswith("-"):
        return False
    if txt.startswith("~"):
        return None
    return default_star
