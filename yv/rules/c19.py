"""C19 -- counterfactual event simplification, ancestors, ancestral components, ctf-factorisation.

Every routine is compared, as a term, with the published definition written as plain Python in yv/refs/c19_ref.py
(Correa, Lee & Bareinboim 2022).  The comparison is semantic (see yv/refcmp.py): path guards by satisfiability, values by
canonical form modulo set algebra / renaming / wrappers / boolean restructuring / helper inlining.

R19.1  well-formedness and totality: wherever the definition returns, the implementation returns (no constructor precondition
       -- empty subscript set, empty range, fewer than two factors -- can fire); the only exceptions are the documented
       input-validation TypeErrors / ValueErrors of the definitions themselves.
R19.2  minimisation ||Y_x|| = Y_t, T = X ∩ An(Y) in G with the edges into X removed; name and star kept; the event is minimised
       element-wise, values untouched.
R19.3  no phantom default: a defaultdict that is populated from one collection and read at keys from another must be read under a
       membership guard (a bare read manufactures an empty default that then acts as data -- the hub that merged unrelated components).
R19.4  Definition 2.1 (ancestors of Y_x), Definition 4.2 (X*(W_t), ancestral sets, merge relations, composition of the two merges on the
       original graph, connected-component closure), ctf-factor form, ctf-factors (grouping by district), factorisation (Eq. 11-15).
R19.5  SIMPLIFY: minimise first; 'impossible' (None) only on an inconsistency verdict; the inconsistency predicate, the reflexive split,
       duplicate removal and the reflexive reduction as published; the result keeps both parts of the event.
"""

from __future__ import annotations

import ast
import copy
import os

from ..model import AnalysisError, Func, Model
from ..refcmp import compare_with_reference, evaluate, load_reference, run_table
from ..report import Report
from ..setalg import SetAlg
from ..symeval import Evaluator, Path
from ..terms import subterms
from .common import GRAPH_PRIMS, NXMG, VARIABLE, construct, graph_rewrite, loc, rewriter, short
from .dslcommon import DSL_PRIMS

AU = "y0.algorithm.counterfactual_transport.ancestor_utils"
API = "y0.algorithm.counterfactual_transport.api"
REF = "yvref.c19"
V = ("cls", VARIABLE)
G = ("cls", NXMG)
EVT = ("list", ("tuple", V, None))
VSET = ("set", V)
SETS = ("set", ("frozenset", V))
DICT = ("dict", None, None)


def bad_name(p: Path) -> bool:
    """Class invariant of Variable: an existing variable's name is a str and is not one of P, Q, PP -- re-wrapping it cannot fail."""
    for c in p.conds:
        for s in subterms(c):
            if s[0] == "in" and s[1][0] == "attr" and s[1][2] == "name" and s[2][0] == "setlit":
                if c[0] != "not":
                    return True
            if s[0] == "isinstance" and s[1][0] == "attr" and s[1][2] == "name" and c[0] == "not":
                return True
    return False


def mk(model: Model, prims=()):
    def make():
        return Evaluator(model, primitives=set(GRAPH_PRIMS) | set(DSL_PRIMS) | {"y0.dsl.P"} | set(prims),
                         prim_methods={"get_base", "intervene", "__matmul__"})
    return make


HELPERS = {
    f"{AU}.minimize_counterfactual", f"{AU}.get_ancestors_of_counterfactual", f"{AU}._get_conditioned_variables_in_ancestral_set",
    f"{AU}._get_ancestral_set_after_intervening_on_conditioned_variables", f"{AU}._merge_frozen_sets_with_common_vertices",
    f"{AU}._merge_frozen_sets_linked_by_bidirectional_edges", f"{API}.convert_to_counterfactual_factor_form",
    f"{API}.get_counterfactual_factors", f"{API}.is_counterfactual_factor_form", f"{API}.minimize_event",
    f"{API}._split_event_by_reflexivity", f"{API}._remove_repeated_variables_and_values", f"{API}._any_variables_with_inconsistent_values",
    f"{API}._reduce_reflexive_counterfactual_variables_to_interventions",
}

# (rule, implementation, reference, parameter types, helpers kept as primitives, role, what the definition says)
TABLE = [
    ("R19.2", f"{AU}.minimize_counterfactual", "minimize", {"variable": V, "graph": G}, (), "definition",
     "||Y_x|| = Y_t with t = the subscripts whose base is an ancestor of Y once the edges into X are removed; a plain variable if none"),
    ("R19.2", f"{API}.minimize_event", "minimize_event", {"event": EVT, "graph": G}, HELPERS, "elementwise",
     "every variable of the event is minimised, its value is kept"),
    ("R19.2", f"{API}.minimize_event", "minimize_event_inlined", {"event": EVT, "graph": G}, (), "elementwise-inlined",
     "every variable of the event is minimised (definition inlined), its value is kept"),
    ("R19.4", f"{AU}.get_ancestors_of_counterfactual", "ancestors", {"event": V, "graph": G}, (), "definition-2.1",
     "W_z ∈ An(Y_x) iff W ∈ An(Y) with edges out of X removed, z = x ∩ An(W) with edges into X removed"),
    ("R19.4", f"{AU}._get_conditioned_variables_in_ancestral_set", "conditioned_in_ancestral_set",
     {"conditioned_variables": VSET, "ancestral_set_root_variable": V, "graph": G}, HELPERS, "X*(W_t)", "X*(W_t) = V(||X*|| ∩ An(W_t))"),
    ("R19.4", f"{AU}._get_ancestral_set_after_intervening_on_conditioned_variables", "ancestral_set",
     {"conditioned_variables": VSET, "ancestral_set_root_variable": V, "graph": G}, HELPERS, "ancestral-set",
     "An(W_t) in G with the edges out of X*(W_t) removed"),
    ("R19.4", f"{AU}.get_ancestral_components", "ancestral_components", {"conditioned_variables": VSET, "root_variables": VSET, "graph": G}, HELPERS,
     "definition-4.2", "one ancestral set per root variable, merged by common vertices and then by bidirected edges of the ORIGINAL graph"),
    ("R19.4", f"{API}.convert_to_counterfactual_factor_form", "factor_form", {"event": EVT, "graph": G}, (), "ctf-factor-form",
     "W_{pa_w}: subscript = the parents, with the event's own value for parents already subscripted; value kept"),
    ("R19.4", f"{API}.is_counterfactual_factor_form", "is_factor_form", {"event": VSET, "graph": G}, (), "ctf-factor-form-test",
     "every variable is subscripted by all of its parents and not by itself"),
    ("R19.4", f"{API}.get_counterfactual_factors", "factors", {"event": VSET, "graph": G}, HELPERS, "ctf-factors",
     "the event grouped by the district of each variable's base"),
    ("R19.4", f"{API}.get_counterfactual_factors_retaining_variable_values", "factors_with_values", {"event": ("set", ("tuple", V, None)), "graph": G}, HELPERS,
     "ctf-factors-with-values", "the valued event grouped by the district of each variable's base"),
    ("R19.4", f"{API}.same_district", "same_district", {"event": VSET, "graph": G}, (), "same-district", "all bases lie in one district"),
    ("R19.4", f"{API}.do_counterfactual_factor_factorization", "factorization", {"variables": EVT, "graph": G}, HELPERS, "factorisation",
     "Σ over An(Y*) bases minus outcome bases of Π_j P(C_j), C_j the ctf-factors of the districts of G[bases of An(Y*)]"),
    ("R19.5", f"{API}._split_event_by_reflexivity", "split_by_reflexivity", {"event": EVT}, (), "reflexive-split",
     "reflexive part = plain variables and Y_{..y..}; the rest is the non-reflexive part"),
    ("R19.5", f"{API}._remove_repeated_variables_and_values", "values_per_variable", {"event": EVT}, (), "values-per-variable",
     "values collected per variable; a missing value is dropped when a value is present"),
    ("R19.5", f"{API}._any_variables_with_inconsistent_values", "inconsistent",
     {"nonreflexive_variable_to_value_mappings": DICT, "reflexive_variable_to_value_mappings": DICT}, (), "inconsistency-predicate",
     "inconsistent iff some variable has two different values, or a reflexive Y_y is given a value other than y"),
    ("R19.5", f"{API}._reduce_reflexive_counterfactual_variables_to_interventions", "reduce_reflexive", {"variables": DICT}, (), "reflexive-reduction",
     "Y_y = v becomes Y = v (values merged with those of the plain Y)"),
    ("R19.5", f"{API}.simplify", "simplify", {"event": EVT, "graph": G}, HELPERS, "algorithm-1",
     "minimise; split; inconsistent -> impossible; reduce reflexive; inconsistent -> impossible; else both parts with their single values"),
]


def run(model: Model, rep: Report, tier: str) -> None:
    rep.level = "other"
    rep.explanation = (
        "Each routine of the C19 cone is evaluated symbolically and compared with the published definition written as Python in "
        "yv/refs/c19_ref.py, evaluated by the same evaluator: for every pair of (implementation path, definition path) with jointly satisfiable "
        "guards the outcomes must be equal (canonical forms modulo set algebra, alpha-renaming, wrappers, boolean restructuring, helper "
        "inlining). Constructor preconditions of the DSL (non-empty subscript set / range, ≥2 factors) are inlined from dsl.py on this run, so a "
        "constructor that can fail where the definition returns shows up as 'raises where the definition returns'. The connected-component "
        "closure of the two merge routines is recognised structurally (DFS over the adjacency relation; every input set is its own neighbour). "
        "R19.3 is a def-use rule on defaultdicts. Decides: refinement of each routine to its published definition and well-formedness/totality. "
        "Does NOT decide: that the published definitions preserve probability in every SCM (the paper's Lemmas/Theorem 1 are the trusted base)."
    )
    rep.trusted_base = ["Correa, Lee & Bareinboim 2022: Def. 2.1, Def. 4.2, Alg. 1, Thm. 1", "C14 (graph primitives)", "C13 (Sum.safe / Product.safe / P)"]
    rep.floors = {"R19.1": 6, "R19.2": 3, "R19.3": 4, "R19.4": 12, "R19.5": 5}
    load_reference(model, REF, "c19_ref.py")
    sa = SetAlg(rewriter(graph_rewrite))
    run_table(model, rep, TABLE, REF, mk, sa, infeasible=bad_name, construct=construct, loc=loc, ignore_raises_for={f"{API}.simplify"})
    r19_1(model, rep)
    r19_merges(model, rep, sa)
    r19_3(model, rep)


# ------------------------------------------------------------------------------------------------------------------------------ R19.1
TOTAL = [
    (f"{AU}.minimize_counterfactual", {"variable": V, "graph": G}, set()),
    (f"{API}.minimize_event", {"event": EVT, "graph": G}, set()),
    (f"{AU}.get_ancestors_of_counterfactual", {"event": V, "graph": G}, set()),
    (f"{API}.convert_to_counterfactual_factor_form", {"event": EVT, "graph": G}, set()),
    (f"{AU}._get_ancestral_set_after_intervening_on_conditioned_variables", {"conditioned_variables": VSET, "ancestral_set_root_variable": V, "graph": G}, set()),
    (f"{API}.do_counterfactual_factor_factorization", {"variables": EVT, "graph": G}, {"TypeError"}),
    (f"{API}.simplify", {"event": EVT, "graph": G}, {"TypeError"}),
]


def r19_1(model: Model, rep: Report) -> None:
    """Fully inlined (down to graph / DSL primitives): which exceptions can escape on well-typed input?"""
    keep = {f"{AU}._merge_frozen_sets_with_common_vertices", f"{AU}._merge_frozen_sets_linked_by_bidirectional_edges", f"{API}.get_counterfactual_factors",
            f"{API}._any_variables_with_inconsistent_values", f"{API}._reduce_reflexive_counterfactual_variables_to_interventions",
            f"{API}._remove_repeated_variables_and_values"}
    for q, types, allowed in TOTAL:
        f, ev, paths = evaluate(model, q, mk(model, keep), types)
        live = []
        for p in paths:
            if p.kind != "raise" or bad_name(p) or ev.infeasible(p.conds):
                continue
            from ..refcmp import exc_class
            name = exc_class(p)
            if name in allowed and _validation_only(p, set(types)):
                continue
            live.append((name, p))
        cons = construct(f, "total")
        if live:
            name, p = live[0]
            from ..terms import show
            rep.refuted("R19.1", cons, f"can fail with {name} on well-formed input (a constructor or helper precondition is not guarded) when "
                        + short("; ".join(show(c) for c in p.conds), 500), loc(f, p.line))
        else:
            rep.proven("R19.1", cons, loc=loc(f), sample={"paths": len(paths), "raise paths that are input validation": sum(1 for p in paths if p.kind == "raise")})


def _validation_only(p: Path, params: set[str]) -> bool:
    """The path's conditions talk about the shape of the arguments only (isinstance / len / emptiness / star tests on parameters or their
    elements), not about graph relations."""
    for c in p.conds:
        for s in subterms(c):
            if s[0] == "meth" and s[2] in ("ancestors_inclusive", "remove_in_edges", "remove_out_edges", "get_district", "subgraph", "predecessors"):
                return False
    return True


# ------------------------------------------------------------------------------------------------------------------------------ merges
def _slice_adjacency(f: Func, model: Model | None = None):
    """The function up to (not including) the traversal, returning the adjacency map that the nested traversal reads."""
    node = copy.deepcopy(f.node)
    nested = [s for s in node.body if isinstance(s, ast.FunctionDef)]
    if not nested and model is not None and node.body and isinstance(node.body[-1], ast.Return) and isinstance(node.body[-1].value, ast.Call) \
            and isinstance(node.body[-1].value.func, ast.Name) and len(node.body[-1].value.args) == 1 and isinstance(node.body[-1].value.args[0], ast.Name) \
            and not node.body[-1].value.keywords:
        # the traversal lives in a helper that receives the adjacency map:  return helper(adj)
        call = node.body[-1].value
        h = model.resolve_name(f.module, call.func.id)
        if isinstance(h, Func) and len(h.node.args.args) == 1:
            hn = copy.deepcopy(h.node)
            hnested = [s for s in hn.body if isinstance(s, ast.FunctionDef)]
            if len(hnested) == 1 and len(hnested[0].args.args) == 2:
                dft = hnested[0]
                adj_h = hn.args.args[0].arg
                reads = any(isinstance(n, ast.For) and isinstance(n.iter, ast.Subscript) and isinstance(n.iter.value, ast.Name) and n.iter.value.id == adj_h
                            for n in ast.walk(dft))
                if reads:
                    rest = []
                    hit = False
                    for st in hn.body:
                        if st is dft:
                            continue
                        if not hit and isinstance(st, ast.For) and any(isinstance(c, ast.Call) and isinstance(c.func, ast.Name) and c.func.id == dft.name for c in ast.walk(st)):
                            hit = True
                        if hit:
                            rest.append(st)
                    if hit:
                        node.body = node.body[:-1] + [ast.Return(value=ast.Name(id=call.args[0].id, ctx=ast.Load()))]
                        ast.fix_missing_locations(node)
                        return Func(f.qname + "#adjacency", f.module, node, None, ()), (dft, adj_h, rest)
    if len(nested) != 1 or len(nested[0].args.args) != 2:
        return None, None
    dft = nested[0]
    p0 = dft.args.args[0].arg
    adj = None
    for n in ast.walk(dft):
        if isinstance(n, ast.For) and isinstance(n.iter, ast.Subscript) and isinstance(n.iter.value, ast.Name) and isinstance(n.iter.slice, ast.Name) and n.iter.slice.id == p0:
            adj = n.iter.value.id
    if adj is None:
        return None, None
    body = []
    rest = []
    hit = False
    for st in node.body:
        if st is dft:
            continue
        if not hit and isinstance(st, ast.For) and any(isinstance(c, ast.Call) and isinstance(c.func, ast.Name) and c.func.id == dft.name for c in ast.walk(st)):
            hit = True
        (rest if hit else body).append(st)
    if not hit:
        return None, None
    body.append(ast.Return(value=ast.Name(id=adj, ctx=ast.Load())))
    node.body = body
    ast.fix_missing_locations(node)
    return Func(f.qname + "#adjacency", f.module, node, None, ()), (dft, adj, rest)


def _closure_problems(dft: ast.FunctionDef, adj: str, rest: list[ast.stmt]) -> list[str]:
    """Connected-component closure: DFS(node, key) marks node visited, files it under key, recurses into unvisited neighbours with the SAME key;
    the driver starts DFS(n, n) from every unvisited key of the adjacency map; the result is the union of every component."""
    problems = []
    node_p, key_p = dft.args.args[0].arg, dft.args.args[1].arg
    visited = comp = None
    for st in dft.body:
        if isinstance(st, ast.Expr) and isinstance(st.value, ast.Call) and isinstance(st.value.func, ast.Attribute):
            c = st.value
            if c.func.attr == "add" and isinstance(c.func.value, ast.Name) and len(c.args) == 1 and isinstance(c.args[0], ast.Name) and c.args[0].id == node_p:
                visited = c.func.value.id
            if c.func.attr == "append" and isinstance(c.func.value, ast.Subscript) and isinstance(c.func.value.value, ast.Name) and isinstance(c.func.value.slice, ast.Name) \
                    and c.func.value.slice.id == key_p and len(c.args) == 1 and isinstance(c.args[0], ast.Name) and c.args[0].id == node_p:
                comp = c.func.value.value.id
    if visited is None:
        problems.append("the traversal does not mark the visited set (it would not terminate on the self-links)")
    if comp is None:
        problems.append("the traversal does not file the visited set under its component key")
    rec_ok = False
    for n in ast.walk(dft):
        if isinstance(n, ast.For) and isinstance(n.iter, ast.Subscript) and isinstance(n.iter.value, ast.Name) and n.iter.value.id == adj and isinstance(n.target, ast.Name):
            nb = n.target.id
            for c in ast.walk(n):
                if isinstance(c, ast.Call) and isinstance(c.func, ast.Name) and c.func.id == dft.name and len(c.args) == 2:
                    a0, a1 = c.args
                    if isinstance(a0, ast.Name) and a0.id == nb and isinstance(a1, ast.Name) and a1.id == key_p:
                        rec_ok = True
                    elif isinstance(a0, ast.Name) and a0.id == nb:
                        problems.append("the traversal recurses with a different component key: neighbours end up in separate components")
            # recursion must be guarded by 'not visited'
            guards = [i for i in ast.walk(n) if isinstance(i, ast.If) and isinstance(i.test, ast.Compare) and len(i.test.ops) == 1 and isinstance(i.test.ops[0], ast.NotIn)
                      and isinstance(i.test.comparators[0], ast.Name) and i.test.comparators[0].id == visited]
            if not guards:
                problems.append("the recursion is not limited to unvisited neighbours")
    if not rec_ok and not problems:
        problems.append("the traversal does not recurse into the neighbours (components are not closed under the merge relation)")
    # driver
    drv_ok = False
    for st in rest:
        if isinstance(st, ast.For) and isinstance(st.iter, ast.Name) and st.iter.id == adj and isinstance(st.target, ast.Name):
            for c in ast.walk(st):
                if isinstance(c, ast.Call) and isinstance(c.func, ast.Name) and c.func.id == dft.name and len(c.args) == 2 and all(isinstance(a, ast.Name) and a.id == st.target.id for a in c.args):
                    drv_ok = True
    if not drv_ok:
        problems.append("the traversal is not started from every set of the adjacency map with itself as component key")
    # result: union of node and its component
    res_ok = False
    for st in rest:
        if isinstance(st, ast.For) and isinstance(st.iter, ast.Call) and isinstance(st.iter.func, ast.Attribute) and st.iter.func.attr == "items" \
                and isinstance(st.iter.func.value, ast.Name) and st.iter.func.value.id == comp and isinstance(st.target, ast.Tuple) and len(st.target.elts) == 2:
            k, vs = st.target.elts[0].id, st.target.elts[1].id
            for c in ast.walk(st):
                if isinstance(c, ast.Call) and isinstance(c.func, ast.Attribute) and c.func.attr == "union" and isinstance(c.func.value, ast.Name) and c.func.value.id == k \
                        and len(c.args) == 1 and isinstance(c.args[0], ast.Starred) and isinstance(c.args[0].value, ast.Name) and c.args[0].value.id == vs:
                    res_ok = True
    for st in rest:
        for cmp_ in ast.walk(st):
            if isinstance(cmp_, (ast.SetComp, ast.ListComp, ast.GeneratorExp)) and len(cmp_.generators) == 1 and not cmp_.generators[0].ifs:
                g = cmp_.generators[0]
                if isinstance(g.iter, ast.Call) and isinstance(g.iter.func, ast.Attribute) and g.iter.func.attr == "items" and isinstance(g.iter.func.value, ast.Name) \
                        and g.iter.func.value.id == comp and isinstance(g.target, ast.Tuple) and len(g.target.elts) == 2 and all(isinstance(x, ast.Name) for x in g.target.elts):
                    k, vs = g.target.elts[0].id, g.target.elts[1].id
                    c = cmp_.elt
                    if isinstance(c, ast.Call) and isinstance(c.func, ast.Attribute) and c.func.attr == "union" and isinstance(c.func.value, ast.Name) and c.func.value.id == k \
                            and len(c.args) == 1 and isinstance(c.args[0], ast.Starred) and isinstance(c.args[0].value, ast.Name) and c.args[0].value.id == vs:
                        res_ok = True
    if not res_ok:
        problems.append("the result is not the union of the sets of each component")
    return problems


def r19_merges(model: Model, rep: Report, sa: SetAlg) -> None:
    for q, ref, types in ((f"{AU}._merge_frozen_sets_with_common_vertices", "adjacency_common_vertices", {"input_sets": SETS}),
                          (f"{AU}._merge_frozen_sets_linked_by_bidirectional_edges", "adjacency_bidirected", {"input_sets": SETS, "graph": G})):
        f = model.func(q)
        sliced, info = _slice_adjacency(f, model)
        if sliced is None:
            rep.unknown("R19.4", construct(f, "merge-relation"), "the routine is no longer 'adjacency map + traversal + union per component'; the rule cannot read its merge relation", loc(f))
            continue
        fobj, verdict, detail, sample = compare_with_reference(model, q, f"{REF}.{ref}", types, mk(model, ()), sa, impl_func=sliced)
        words = ("two sets are adjacent iff they share a base variable; every set is adjacent to itself" if "common" in q else
                 "two sets are adjacent iff a bidirected edge OF THE GRAPH joins a base variable of one with a base variable of the other (both endpoints inside the input sets); "
                 "every set is adjacent to itself; adjacency is symmetric")
        sample["definition"] = words
        cons = construct(f, "merge-relation")
        if verdict == "PROVEN":
            rep.proven("R19.4", cons, loc=loc(f), sample=sample)
        elif verdict == "REFUTED":
            rep.refuted("R19.4", cons, f"the merge relation deviates from Definition 4.2 ({words}): {short(detail, 700)}", loc(f), sample=sample)
        else:
            rep.unknown("R19.4", cons, detail, loc(f))
        problems = _closure_problems(*info)
        (rep.refuted if problems else rep.proven)("R19.4", construct(f, "component-closure"), "; ".join(problems), loc(f))


# ------------------------------------------------------------------------------------------------------------------------------ R19.3
MUT = {"append", "add", "update", "extend", "setdefault", "remove", "discard", "pop", "clear", "insert"}
WRAP = {"combinations", "combinations_with_replacement", "product", "permutations", "sorted", "list", "set", "frozenset", "tuple", "enumerate", "reversed"}


def _iter_source(e: ast.expr) -> str:
    """The collection a loop draws its elements from (through combinatoric / ordering wrappers)."""
    while isinstance(e, ast.Call) and ((isinstance(e.func, ast.Name) and e.func.id in WRAP) or (isinstance(e.func, ast.Attribute) and e.func.attr in WRAP)) and e.args:
        e = e.args[0]
    return ast.dump(e)


def r19_3(model: Model, rep: Report) -> None:
    n_reads = 0
    for modname in (AU, API):
        for f in model.funcs_in_module(modname):
            dd = set()
            for n in ast.walk(f.node):
                v = n.value if isinstance(n, (ast.Assign, ast.AnnAssign)) else None
                if v is not None and isinstance(v, ast.Call) and ((isinstance(v.func, ast.Name) and v.func.id == "defaultdict") or (isinstance(v.func, ast.Attribute) and v.func.attr == "defaultdict")):
                    for t in (n.targets if isinstance(n, ast.Assign) else [n.target]):
                        if isinstance(t, ast.Name):
                            dd.add(t.id)
            if not dd:
                continue
            parents = {}
            for n in ast.walk(f.node):
                for ch in ast.iter_child_nodes(n):
                    parents[ch] = n
            # population sources: `for s in X: d[s] = ...` / `d[s].add(...)` with the loop variable itself as key
            populated: dict[str, set[str]] = {d: set() for d in dd}
            for n in ast.walk(f.node):
                if isinstance(n, ast.For):
                    tnames = {x.id for x in ast.walk(n.target) if isinstance(x, ast.Name)}
                    for c in ast.walk(n):
                        sub = None
                        if isinstance(c, ast.Assign) and isinstance(c.targets[0], ast.Subscript):
                            sub = c.targets[0]
                        elif isinstance(c, ast.Call) and isinstance(c.func, ast.Attribute) and c.func.attr in MUT and isinstance(c.func.value, ast.Subscript):
                            sub = c.func.value
                        if sub is not None and isinstance(sub.value, ast.Name) and sub.value.id in dd and isinstance(sub.slice, ast.Name) and sub.slice.id in tnames:
                            # only direct loops (the key is this loop's own variable)
                            inner = [p for p in _ancestors(parents, c) if isinstance(p, ast.For)]
                            if inner and inner[0] is n:
                                populated[sub.value.id].add(_iter_source(n.iter))
            for n in ast.walk(f.node):
                if not (isinstance(n, ast.Subscript) and isinstance(n.value, ast.Name) and n.value.id in dd and isinstance(n.ctx, ast.Load)):
                    continue
                par = parents.get(n)
                if isinstance(par, ast.Attribute) and par.attr in MUT and isinstance(parents.get(par), ast.Call) and parents[par].func is par:
                    continue  # d[k].add(...): population, creating the entry is the point
                d = n.value.id
                n_reads += 1
                key = n.slice
                kind = "data"
                if (isinstance(par, (ast.For, ast.comprehension)) and par.iter is n) or (isinstance(par, ast.Call) and isinstance(par.func, ast.Name) and par.func.id in ("len", "iter", "list", "set", "frozenset", "sorted", "tuple", "bool") and n in par.args):
                    kind = "iteration"  # an absent key reads as the empty default: same as 'no entry'
                cons = construct(f, f"defaultdict-read:{_role(f, n, d)}")
                if kind == "iteration":
                    rep.proven("R19.3", cons, loc=loc(f, n.lineno), nontrivial=False)
                    continue
                why = _in_domain(n, key, d, parents, populated)
                if why:
                    rep.proven("R19.3", cons, loc=loc(f, n.lineno), sample={"key in domain because": why})
                else:
                    rep.refuted("R19.3", cons, f"`{d}[…]` is read as data at a key that is not known to be present (populated from another collection, no membership guard): "
                                "a missing key silently yields the empty default, which is then used as a component / value", loc(f, n.lineno))
    rep.stats["defaultdict_reads_checked"] = n_reads


def _ancestors(parents, n):
    out = []
    while n in parents:
        n = parents[n]
        out.append(n)
    return out


def _role(f: Func, n: ast.Subscript, d: str) -> str:
    """Stable role: ordinal of this read among the reads of the same map in the function (no line numbers, no names)."""
    k = 0
    idx = 0
    maps = []
    for x in ast.walk(f.node):
        if isinstance(x, (ast.Assign, ast.AnnAssign)):
            v = x.value
            if isinstance(v, ast.Call) and getattr(v.func, "id", getattr(v.func, "attr", "")) == "defaultdict":
                for t in (x.targets if isinstance(x, ast.Assign) else [x.target]):
                    if isinstance(t, ast.Name) and t.id not in maps:
                        maps.append(t.id)
    reads = sorted([x for x in ast.walk(f.node) if isinstance(x, ast.Subscript) and isinstance(x.value, ast.Name) and x.value.id == d and isinstance(x.ctx, ast.Load)],
                   key=lambda x: (x.lineno, x.col_offset))
    idx = reads.index(n)
    return f"map{maps.index(d) if d in maps else '?'}-read{idx}"


def _in_domain(n: ast.Subscript, key: ast.expr, d: str, parents, populated) -> str:
    if not isinstance(key, ast.Name):
        return ""
    k = key.id
    chain = _ancestors(parents, n)
    prev = n
    for a in chain:
        # (i) iterating the map itself
        if isinstance(a, (ast.For, ast.comprehension)):
            tnames = {x.id for x in ast.walk(a.target) if isinstance(x, ast.Name)}
            it = a.iter
            if k in tnames:
                base = it
                if isinstance(base, ast.Call) and isinstance(base.func, ast.Attribute) and base.func.attr in ("keys", "items") and not base.args:
                    base = base.func.value
                if isinstance(base, ast.Name) and base.id == d:
                    return "the key iterates over the map itself"
                if _iter_source(it) in populated.get(d, ()):
                    return "the key iterates over the collection the map was populated from"
        # comprehension generators are children of the comprehension node, not ancestors of the element: look at siblings
        if isinstance(a, (ast.ListComp, ast.SetComp, ast.GeneratorExp, ast.DictComp)):
            for g in a.generators:
                tnames = {x.id for x in ast.walk(g.target) if isinstance(x, ast.Name)}
                if k in tnames:
                    base = g.iter
                    if isinstance(base, ast.Call) and isinstance(base.func, ast.Attribute) and base.func.attr in ("keys", "items") and not base.args:
                        base = base.func.value
                    if isinstance(base, ast.Name) and base.id == d:
                        return "the key iterates over the map itself"
                    if _iter_source(g.iter) in populated.get(d, ()):
                        return "the key iterates over the collection the map was populated from"
        # (iii) membership guards
        if isinstance(a, ast.If):
            if prev in a.body and _guard_has(a.test, k, d, positive=True):
                return "under `key in map`"
            if prev in a.orelse and _guard_has(a.test, k, d, positive=False):
                return "in the else-branch of `key not in map`"
        if hasattr(a, "body") and isinstance(getattr(a, "body"), list) and prev in a.body:
            for st in a.body[: a.body.index(prev)]:
                if isinstance(st, ast.If) and not st.orelse and st.body and isinstance(st.body[-1], (ast.Continue, ast.Return, ast.Raise, ast.Break)) and _guard_has(st.test, k, d, positive=False):
                    return "after `if key not in map: continue/return`"
        if isinstance(a, ast.BoolOp) and isinstance(a.op, ast.And):
            for v in a.values[: a.values.index(prev)] if prev in a.values else []:
                if _guard_has(v, k, d, positive=True):
                    return "after `key in map and`"
        prev = a
    return ""


def _guard_has(test: ast.expr, k: str, d: str, positive: bool) -> bool:
    """positive: test implies k in d (conjunct);  negative: (not test) implies k in d, i.e. `k not in d` is a disjunct of test."""
    if isinstance(test, ast.Compare) and len(test.ops) == 1 and isinstance(test.left, ast.Name) and test.left.id == k and isinstance(test.comparators[0], ast.Name) and test.comparators[0].id == d:
        return isinstance(test.ops[0], ast.In) if positive else isinstance(test.ops[0], ast.NotIn)
    if isinstance(test, ast.UnaryOp) and isinstance(test.op, ast.Not):
        return _guard_has(test.operand, k, d, not positive)
    if isinstance(test, ast.BoolOp):
        if isinstance(test.op, ast.And) and positive:
            return any(_guard_has(v, k, d, True) for v in test.values)
        if isinstance(test.op, ast.Or) and not positive:
            return any(_guard_has(v, k, d, False) for v in test.values)
    return False
