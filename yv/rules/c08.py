"""C08 -- IDC* estimands (partial).

R8.1  line 1: ID*(conditions) is always evaluated; Zero -> reject (ValueError); only Unidentifiable from it is swallowed.
R8.2  an inconsistent joint event -> Zero.
R8.3  rule 2 on the counterfactual graph: for ALL outcomes, y ⟂ z | self-intervened nodes in G' with edges out of z removed; on success
      z leaves the conditions, subscripts the outcomes it is an ancestor of, and the recursion is on the ORIGINAL graph.
R8.4  final normalisation e / Σ_{free(e) ∖ conditions} e  (R13.4, incl. the residual known finding on counterfactual bases).
ID*'s rules (C07) are inherited for every id_star call; R13.4's marginalisation rules are re-run.
"""

from __future__ import annotations

import ast

from ..model import AnalysisError, Model
from ..report import Report
from ..setalg import SetAlg, compare, f_and, f_not, f_or, show_formula
from ..symeval import Evaluator
from ..terms import NONE, Term, const, show, subterms, var
from .common import GRAPH_PRIMS, NXMG, VARIABLE, construct, loc, return_paths, short, typed, kwargs_of, exc_name
from .dslcommon import DSL_PRIMS, concrete_expression_classes
from . import c13

IC = "y0.algorithm.identify.idc_star"
IS = "y0.algorithm.identify.id_star"
CG = "y0.algorithm.identify.cg"
CI = "y0.algorithm.conditional_independencies.are_d_separated"
EVT = ("dict", None, None)


def run(model: Model, rep: Report, tier: str) -> None:
    rep.level = "other"
    rep.explanation = (
        "idc_star() is evaluated symbolically with id_star, make_counterfactual_graph, the rule-2 test and the re-association helper as "
        "primitives. Line 1's rejection must be reachable for every non-empty condition set (its guard mentions only the verdict of "
        "ID*(conditions)); the try/except must swallow exactly Unidentifiable. The rule-2 test is checked like IDC's (quantifier, graph, "
        "conditioning set). The final normaliser is Expression.conditional over the bases of the conditions (R13.4). Decides this structure; "
        "the value identity and the correctness of get_new_outcomes_and_conditions' re-association are not decided."
    )
    rep.trusted_base = ["Shpitser & Pearl 2008 (IDC*)", "C07 (ID*), C18 (counterfactual graph), C04 (separation)"]
    rep.floors = {"R8.1": 1, "R8.2": 2, "R8.3": 1, "R8.4": 1, "R13.4": 3}
    from ..refcmp import load_reference, run_table
    from .common import graph_rewrite, rewriter

    V = ("cls", VARIABLE)
    G = ("cls", NXMG)
    load_reference(model, "yvref.c08", "c08_ref.py")
    sa = SetAlg(rewriter(graph_rewrite))
    H = {f"{IS}.id_star", f"{CG}.make_counterfactual_graph", f"{IC}.cf_rule_2_of_do_calculus_applies", f"{IC}.get_new_outcomes_and_conditions",
         f"{IC}.get_remaining_and_missing_events", CI, f"{CG}.is_not_self_intervened"}

    def mk(model_, prims):
        return lambda: Evaluator(model_, primitives=set(GRAPH_PRIMS) | set(DSL_PRIMS) | set(prims), prim_methods={"get_base", "intervene", "__matmul__", "conditional"})

    table = [
        ("R8.1", f"{IC}.idc_star", "idc_star_algorithm", {"graph": G, "outcomes": EVT, "conditions": EVT}, H, "figure-4-lines",
         "IDC* lines 1-5: ID*(conditions) = 0 is refused (ValueError) and only Unidentifiable from that call is swallowed; inconsistent joint event -> 0; "
         "the first condition passing rule 2 leaves the conditions and subscripts the outcomes it is an ancestor of, recursion on the ORIGINAL graph; "
         "otherwise ID*(joint) normalised over the bases of the caller's conditions, un-normalised only when the caller gave none"),
        ("R8.3", f"{IC}.cf_rule_2_of_do_calculus_applies", "rule_2", {"cf_graph": G, "outcomes": ("iter", V), "condition": V}, H, "rule-2",
         "rule 2 must hold for ALL outcomes: outcome ⟂ z given the self-intervened (blocked) nodes, in the counterfactual graph with the edges out of z removed"),
        ("R8.2", f"{IC}.get_new_outcomes_and_conditions", "reassociated", {"new_event": EVT, "outcomes": EVT, "conditions": EVT},
         H - {f"{IC}.get_remaining_and_missing_events"}, "re-association",
         "after merging, surviving variables stay where they were and each merged (fresh) variable goes to the side that lost a variable of the same base"),
        ("R8.2", f"{IC}.get_remaining_and_missing_events", "remaining_and_missing", {"new_event": EVT, "old_event": EVT}, H, "survivors-and-lost",
         "split of an event into the entries whose variable survives in the relabelled event and the rest"),
    ]
    run_table(model, rep, table, "yvref.c08", mk, sa, construct=construct, loc=loc)
    # ---- R8.4 the normaliser is Expression.conditional over the bases of the CALLER's conditions: decided inside R8.1's comparison (line 5);
    # restated here as its own obligation so that the rule keeps its instance
    f = model.func(f"{IC}.idc_star")
    ev = mk(model, H)()
    g, o, c = typed(ev, "graph", G), typed(ev, "outcomes", EVT), typed(ev, "conditions", EVT)
    paths = ev.run(f, {"graph": g, "outcomes": o, "conditions": c})
    problems = []
    bare = [p for p in paths if p.kind == "return" and p.value[0] == "call" and p.value[1] == f"{IS}.id_star"]
    for bp in bare:
        gd = f_and(*[sa.cond(k) for k in bp.conds])
        e1 = sa.cond(("eq", ("len", c), const(0)))
        if not compare(f_and(gd, f_not(e1)), False)[0]:
            problems.append("ID*'s joint estimand is returned without normalisation on a path that does not establish that the caller's conditions are empty")
    if not any(p.kind == "return" and any(s_[0] == "meth" and s_[2] == "conditional" for s_ in subterms(p.value)) for p in paths):
        problems.append("no normalising return")
    (rep.refuted if problems else rep.proven)("R8.4", construct(f, "normalisation"), "; ".join(sorted(set(problems))), loc(f))
    classes = concrete_expression_classes(model)
    c13.r13_4(model, rep, classes)
    # line 3 builds the counterfactual graph of outcomes-and-conditions itself: C18's construction rules are part of this property's cone
    from . import c18
    from ..report import Report as _Report

    sub = _Report(rep.property_id, rep.tier)
    c18.run(model, sub, tier)
    rep.obligations.extend(sub.obligations)
    rep.errors.extend(sub.errors)
    for k, v in sub.floors.items():
        rep.floors[k] = v
