"""C08 -- IDC* estimands (partial).

R8.1  line 1: ID*(conditions) is always evaluated; Zero -> reject (ValueError); only Unidentifiable from it is swallowed.
R8.2  an inconsistent joint event -> Zero.
R8.3  rule 2 on the counterfactual graph: for ALL outcomes, y ⟂ z | self-intervened nodes in G' with edges out of z removed; on success
      z leaves the conditions, subscripts the outcomes it is an ancestor of, and the recursion is on the ORIGINAL graph.
R8.4  final normalisation e / Σ_{free(e) ∖ conditions} e  (R13.4, incl. the residual known finding on counterfactual bases).
ID*'s rules (C07) are inherited for every id_star call; R13.4's marginalisation rules are re-run.
"""

from __future__ import annotations

import ast

from ..model import AnalysisError, Model
from ..report import Report
from ..setalg import SetAlg, compare, f_and, f_not, f_or, show_formula
from ..symeval import Evaluator
from ..terms import NONE, Term, const, show, subterms, var
from .common import GRAPH_PRIMS, NXMG, VARIABLE, construct, loc, return_paths, short, typed, kwargs_of, exc_name
from .dslcommon import DSL_PRIMS, concrete_expression_classes
from . import c13

IC = "y0.algorithm.identify.idc_star"
IS = "y0.algorithm.identify.id_star"
CG = "y0.algorithm.identify.cg"
CI = "y0.algorithm.conditional_independencies.are_d_separated"
EVT = ("dict", None, None)


def run(model: Model, rep: Report, tier: str) -> None:
    rep.level = "other"
    rep.explanation = (
        "idc_star() is evaluated symbolically with id_star, make_counterfactual_graph, the rule-2 test and the re-association helper as "
        "primitives. Line 1's rejection must be reachable for every non-empty condition set (its guard mentions only the verdict of "
        "ID*(conditions)); the try/except must swallow exactly Unidentifiable. The rule-2 test is checked like IDC's (quantifier, graph, "
        "conditioning set). The final normaliser is Expression.conditional over the bases of the conditions (R13.4). Decides this structure; "
        "the value identity and the correctness of get_new_outcomes_and_conditions' re-association are not decided."
    )
    rep.trusted_base = ["Shpitser & Pearl 2008 (IDC*)", "C07 (ID*), C18 (counterfactual graph), C04 (separation)"]
    rep.floors = {"R8.1": 2, "R8.2": 1, "R8.3": 2, "R8.4": 1, "R13.4": 3}
    sa = SetAlg()
    V = ("cls", VARIABLE)
    f = model.func(f"{IC}.idc_star")
    prims = set(GRAPH_PRIMS) | set(DSL_PRIMS) | {f"{IS}.id_star", f"{CG}.make_counterfactual_graph", f"{IC}.cf_rule_2_of_do_calculus_applies", f"{IC}.get_new_outcomes_and_conditions"}
    ev = Evaluator(model, primitives=prims, prim_methods={"get_base", "intervene", "__matmul__", "conditional", "__or__"})
    g, o, c = typed(ev, "graph", ("cls", NXMG)), typed(ev, "outcomes", EVT), typed(ev, "conditions", EVT)
    paths = ev.run(f, {"graph": g, "outcomes": o, "conditions": c})
    ids = ("call", f"{IS}.id_star", (), (("_number_recursions", const(0)), ("event", c), ("graph", g)))
    iszero = lambda t: ("isinstance", t, ("y0.dsl.Zero",))  # noqa: E731
    # ---- R8.1
    rej = [p for p in paths if p.kind == "raise" and exc_name(p) == "ValueError"]
    problems = []
    if len(rej) != 1:
        problems.append(f"{len(rej)} rejecting paths")
    else:
        conds = [k for k in rej[0].conds]
        zero_tests = [k for k in conds if k[0] == "isinstance" and "Zero" in str(k[2]) and k[1][0] == "call" and k[1][1] == f"{IS}.id_star" and kwargs_of(k[1]).get("event") == c and kwargs_of(k[1]).get("graph") == g]
        extra = [k for k in conds if k not in zero_tests]
        if not zero_tests:
            problems.append("the rejection does not test ID*(graph, conditions) for Zero")
        if extra:
            problems.append("an impossible conditioning event is rejected only under an extra condition (" + short(show(extra[0]), 80) + "); otherwise IDC* answers for it")
    (rep.refuted if problems else rep.proven)("R8.1", construct(f, "rejects-impossible-conditions"), "; ".join(problems), loc(f))
    tries = [n for n in ast.walk(f.node) if isinstance(n, ast.Try)]
    problems = []
    if len(tries) != 1 or len(tries[0].handlers) != 1:
        problems.append("line 1 is not one try with one handler")
    else:
        h = tries[0].handlers[0]
        hn = ast.unparse(h.type) if h.type is not None else "<bare>"
        from ..model import Cls
        r = model.resolve_name(f.module, hn) if hn.isidentifier() else None
        if not (isinstance(r, Cls) and r.name == "Unidentifiable"):
            problems.append(f"line 1 swallows `{hn}`, not exactly Unidentifiable (the ValueError rejection itself must escape)")
        if any(isinstance(x, (ast.Return, ast.Raise)) for x in ast.walk(ast.Module(body=h.body, type_ignores=[]))):
            problems.append("the handler changes the control flow")
    (rep.refuted if problems else rep.proven)("R8.1", construct(f, "swallows-only-unidentifiable"), "; ".join(problems), loc(f))
    # ---- R8.2
    ev_all = ("op", "|", o, c)
    zs = [p for p in paths if p.kind == "return" and p.value[0] in ("rec", "new") and str(p.value[1]).endswith(".Zero")]
    ok = bool(zs) and all(any(k[0] == "isnone" and k[1][0] == "index" and k[1][1][0] == "call" and k[1][1][1] == f"{CG}.make_counterfactual_graph" for k in p.conds) for p in zs)
    if ok:
        for p in zs:
            for k in p.conds:
                if k[0] == "isnone":
                    kw = kwargs_of(k[1][1])
                    ok = ok and kw.get("graph") == g and (kw.get("event") == ev_all or kw.get("event") == ("union", o, c))
    (rep.proven if ok else rep.refuted)("R8.2", construct(f, "inconsistent-joint-zero"), "" if ok else "Zero must be returned exactly when the counterfactual graph of outcomes ∪ conditions is inconsistent", loc(f))
    # ---- R8.3 recursion
    recs = [p for p in paths if p.kind == "return" and p.value[0] == "recurse" and p.value[1] == f"{IC}.idc_star"]
    problems = []
    if not recs:
        problems.append("no exchange step")
    for p in recs:
        a = p.value[2]
        if a[0] != g:
            problems.append("the recursion is not on the original graph")
        zvars = [k[1] for k in p.conds if k[0] == "iter-elem"]
        if len(zvars) != 1:
            problems.append("exchange not driven by one condition")
            continue
        z = zvars[0]
        if not any(k[0] == "call" and k[1] == f"{IC}.cf_rule_2_of_do_calculus_applies" and kwargs_of(k).get("condition") == z for k in p.conds):
            problems.append("the exchange is not guarded by rule 2 for that condition")
        newc = a[2]
        if not (newc[0] == "comp" and newc[1] == "dict" and any(k == ("ne", newc[3][0][0][1][0], z) or k == ("ne", z, newc[3][0][0][1][0]) for k in newc[3][0][2])):
            problems.append("the exchanged condition is not removed from the conditions")
        newo = a[1]
        if not (newo[0] == "comp" and newo[1] == "dict" and newo[2][1][0] == "ite" and any(s[0] == "meth" and s[2] == "ancestors_inclusive" for s in subterms(newo[2][1][1]))):
            problems.append("outcomes are not subscripted by z exactly when z is an ancestor of the outcome in the counterfactual graph")
    (rep.refuted if problems else rep.proven)("R8.3", construct(f, "exchange"), "; ".join(sorted(set(problems))), loc(f))
    f2 = model.func(f"{IC}.cf_rule_2_of_do_calculus_applies")
    ev = Evaluator(model, primitives=set(GRAPH_PRIMS) | set(DSL_PRIMS) | {CI, f"{CG}.is_not_self_intervened"}, prim_methods={"get_base"})
    g2 = typed(ev, "cf_graph", ("cls", NXMG))
    outs = typed(ev, "outcomes", ("iter", V))
    z = typed(ev, "condition", V)
    r = return_paths(ev.run(f2, {"cf_graph": g2, "outcomes": outs, "condition": z}))
    problems = []
    if len(r) != 1 or r[0].value[0] != "all":
        problems.append("rule 2 must hold for ALL outcomes (with any(), a condition separated from only one of several outcomes would be turned into an intervention)")
    else:
        cmp_ = r[0].value[1]
        if sa.strip(cmp_[3][0][1]) != outs or cmp_[3][0][2]:
            problems.append("the quantifier does not range over all outcomes")
        kw = kwargs_of(cmp_[2])
        if not (cmp_[2][0] == "call" and cmp_[2][1] == CI and {kw.get("a"), kw.get("b")} == {cmp_[3][0][0], z}):
            problems.append("separation is not tested between the outcome and the condition")
        gm = kw.get("graph")
        if not (gm[0] == "meth" and gm[2] == "remove_out_edges" and gm[1] == g2 and kwargs_of(gm).get("vertices") == z):
            problems.append("the test graph is not the counterfactual graph with the edges out of z removed")
        cs = kw.get("conditions")
        if not (cs[0] == "comp" and len(cs[3][0][2]) == 1 and cs[3][0][2][0][0] == "not" and cs[3][0][2][0][1][0] == "call" and cs[3][0][2][0][1][1] == f"{CG}.is_not_self_intervened"):
            problems.append("the conditioning set is not the self-intervened (blocked) nodes of the counterfactual graph")
    (rep.refuted if problems else rep.proven)("R8.3", construct(f2, "rule-2"), "; ".join(problems), loc(f2))
    # ---- R8.4 final normalisation
    fin = [p for p in paths if p.kind == "return" and p.value[0] == "meth" and p.value[2] == "conditional"]
    problems = []
    if not fin:
        problems.append("no normalising return")
    for fp in fin:
        v = fp.value
        rng = kwargs_of(v).get("ranges")
        if not (rng[0] == "comp" and rng[3][0][1] == c and rng[2][0] == "meth" and rng[2][2] == "get_base"):
            problems.append("the estimand is not normalised over the bases of the conditions")
        inner = v[1]
        if not (inner[0] == "call" and inner[1] == f"{IS}.id_star" and kwargs_of(inner).get("graph") == g):
            problems.append("the normalised expression is not ID* of the joint event on the original graph")
    # the un-normalised estimand may be returned only when the CALLER gave no conditions (after node merging the re-associated condition
    # set can be empty although the caller conditioned: then the joint would be returned in place of the conditional)
    bare = [p for p in paths if p.kind == "return" and p.value[0] == "call" and p.value[1] == f"{IS}.id_star"]
    for bp in bare:
        gd = f_and(*[sa.cond(k) for k in bp.conds])
        e1 = sa.cond(("eq", ("len", c), const(0)))
        e2 = f_not(sa.cond(("truth", c)))
        if not (compare(f_and(gd, f_not(e1)), False)[0] or compare(f_and(gd, f_not(e2)), False)[0]):
            problems.append("ID*'s joint estimand is returned without normalisation on a path that does not establish that the caller's conditions are empty")
    (rep.refuted if problems else rep.proven)("R8.4", construct(f, "normalisation"), "; ".join(sorted(set(problems))), loc(f))
    classes = concrete_expression_classes(model)
    c13.r13_4(model, rep, classes)
