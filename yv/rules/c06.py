"""C06 -- estimands mention only distributions the analyst actually has.

R6.1  ID / IDC: on every evaluated path the only leaf builder is P(v | predecessors) over nodes of the current graph; no
      intervention subscript, counterfactual variable, population tag or library-made node can be constructed.
R6.2  TRSO: every leaf is a PopulationProbability tagged with the current/target domain; `.intervene` is applied only when a
      sub-result is activated, with Z_i ∩ X of the very domain whose diagram justified the switch; plain probabilities are rejected.
R6.3  TRSO: no transport (selection) node can reach a summation range or a distribution's variables.
R6.4  ID* / IDC*: the only leaf builder applies ONE intervention set to all variables of the leaf (single world).
"""

from __future__ import annotations

import ast

from ..model import AnalysisError, Model
from ..report import Report
from ..setalg import SetAlg, compare, f_and, f_not, f_or, show_formula, show_row
from ..symeval import Evaluator
from ..terms import Term, const, mapterm, show, subterms, var
from .common import GRAPH_PRIMS, NXMG, VARIABLE, construct, graph_rewrite, graph_var, loc, return_paths, rewriter, short, typed, varset, kwargs_of
from .dslcommon import DSL_PRIMS
from .idcommon import ID, IDENT, IDENTIFY, ID_PRIMS, ID_PRIM_METHODS, evaluate_identify, make_sa

T = "y0.algorithm.transport"
CI = "y0.algorithm.conditional_independencies.are_d_separated"
FORBIDDEN_HEADS = {"PopulationProbability", "CounterfactualVariable", "Intervention"}


def forbidden_in(term) -> list[str]:
    out = []
    for s in subterms(term):
        h = s[0]
        if h in ("rec", "new") and str(s[1]).split(".")[-1] in FORBIDDEN_HEADS:
            out.append(f"constructs a {str(s[1]).split('.')[-1]}")
        if h == "meth" and s[2] in ("intervene", "__matmul__"):
            out.append("applies .intervene()/@ to a variable or distribution")
        if h == "op" and s[1] == "@":
            out.append("uses the @ (intervene) operator")
        if h == "meth" and s[2] == "__getitem__" and s[1][0] == "global" and s[1][1].endswith(".P"):
            out.append("builds P[...] (an interventional probability)")
        if h == "call" and isinstance(s[1], str) and s[1].endswith("functools.partial") and any(k == "interventions" for k, _ in s[3]):
            out.append("builds P[...] (an interventional probability)")
        if h in ("call", "meth") and any(k == "interventions" and v != const(None) for k, v in (s[3] if h == "call" else s[4])):
            out.append("passes interventions= to a probability builder")
        if h == "global" and (s[1].endswith(".PP") or s[1].endswith("TARGET_DOMAIN")):
            out.append("mentions a population-tagged builder")
        if h == "call" and isinstance(s[1], str) and s[1].endswith("transport_variable"):
            out.append("creates a transport node")
        if h in ("rec", "new") and str(s[1]).endswith(".Variable"):
            nm = dict(s[2] if h == "rec" else s[3]).get("name")
            if nm is not None and nm[0] != "attr":
                out.append("creates a new variable with a computed name")
    return sorted(set(out))


def run(model: Model, rep: Report, tier: str) -> None:
    rep.level = "other"
    rep.explanation = (
        "Vocabulary is a statement about which constructors can run, so it is decided on the symbolically evaluated paths: every value and "
        "guard term of identify()/idc() is scanned for constructor heads other than the observational builder P(v | predecessors) (R6.1). "
        "For TRSO every PopulationProbability construction's population term and every .intervene() argument is traced to its source "
        "(R6.2), and membership formulas of every summation range / distribution argument built from a domain diagram's ordering must imply "
        "'not a transport node' (R6.3). For ID* the single leaf builder must apply one intervention set to all variables (R6.4)."
    )
    rep.trusted_base = ["Sum.safe / Product.safe / '/' / marginalize only wrap existing leaves (C13)", "districts and query sets contain no transport node (only orderings and node lists of a selection diagram do)"]
    rep.floors = {"R6.1": 3, "R6.2": 5 if model.has_func("y0.algorithm.transport._line_6_helper") else 4, "R6.3": 5, "R6.4": 2, "R6.5": 5}
    r6_5(model, rep)
    r6_1(model, rep)
    r6_2(model, rep)
    r6_3(model, rep)
    r6_4(model, rep)


def r6_1(model: Model, rep: Report) -> None:
    f, ev, ident, paths = evaluate_identify(model)
    sa = make_sa()
    bad = []
    leaves = 0
    for p in paths:
        bad += forbidden_in((p.conds, p.value))
        v = sa.rewrite(p.value) if p.kind == "return" else None
        if v is not None:
            for s in subterms(v):
                if s[0] == "CONDP":
                    leaves += 1
                if s[0] == "call" and s[1] == "y0.dsl.P":
                    leaves += 1
                    bad.append("builds a probability term that is not P(v | predecessors of v in the current order): " + short(show(s), 100))
    (rep.refuted if bad else rep.proven)("R6.1", construct(f, "leaf-census"), "; ".join(sorted(set(bad))), loc(f), sample={"paths": len(paths), "leaf builders P(v | pred)": leaves})
    # the variables of those leaves are nodes of the current graph
    ok = True
    detail = ""
    for p in paths:
        if p.kind != "return":
            continue
        v = sa.rewrite(p.value)
        for s in subterms(v):
            if s[0] == "comp" and s[2][0] == "CONDP":
                (pat, it, conds), = s[3]
                src = sa.rewrite(it)
                nodeish = (src[0] == "the" and src[1][0] == "meth" and src[1][2] == "districts") or (src[0] == "var" and any(c[0] == "iter-elem" and c[1] == src and sa.rewrite(c[2])[0] == "meth" and sa.rewrite(c[2])[2] == "districts" for c in p.conds))
                if s[2][1] != pat or not nodeish:
                    ok = False
                    detail = "a conditional is built for variables that are not drawn from a district of the current graph: " + short(show(s), 120)
    (rep.proven if ok else rep.refuted)("R6.1", construct(f, "leaf-variables"), detail, loc(f))
    # idc
    fi = model.func(f"{ID}.id_c.idc")
    ev = Evaluator(model, primitives=set(ID_PRIMS) | {IDENTIFY, CI, f"{ID}.id_c.rule_2_of_do_calculus_applies"}, prim_methods=set(ID_PRIM_METHODS))
    ident = typed(ev, "identification", ("cls", IDENT))
    bad = []
    for p in ev.run(fi, {"identification": ident}):
        bad += forbidden_in((p.conds, p.value))
    (rep.refuted if bad else rep.proven)("R6.1", construct(fi, "leaf-census"), "; ".join(sorted(set(bad))), loc(fi))


TPRIMS = set(GRAPH_PRIMS) | set(DSL_PRIMS) | {f"{T}.get_regular_nodes", f"{T}.get_transport_nodes", f"{T}.is_transport_node", "y0.mutate.canonicalize_expr.canonicalize", CI}
TPM = {"__mul__", "__truediv__", "__or__", "simplify", "intervene", "given"}


def _tev(model):
    return Evaluator(model, primitives=set(TPRIMS), prim_methods=set(TPM))


def _attr_source(t: Term):
    """attr(X, name) where X is query or a copy of it."""
    if t[0] != "attr":
        return None
    x = t[1]
    while x[0] in ("mut", "copyof", "accum"):
        x = x[2] if x[0] == "accum" else x[1]
    return (x, t[2])


def r6_2(model: Model, rep: Report) -> None:
    # population tags of every leaf construction in transport.py
    sites = {
        "trso_line2": {"query": ("cls", f"{T}.TRSOQuery"), "outcomes_ancestors": "set"},
        "trso_line10": {"query": ("cls", f"{T}.TRSOQuery"), "district": "set", "new_surrogate_interventions": None},
        "activate_domain_and_interventions": {"expression": ("cls", "y0.dsl.Expression"), "interventions": "set", "domain": ("cls", VARIABLE)},
    }
    for fn, params in sites.items():
        f = model.func(f"{T}.{fn}")
        ev = _tev(model)
        args = {}
        for k, ty in params.items():
            args[k] = varset(ev, k) if ty == "set" else (typed(ev, k, ty) if ty else var(k))
        paths = ev.run(f, args)
        problems = []
        n_leaf = 0
        for p in paths:
            for s in subterms((p.value, p.notes)):
                if s[0] in ("rec", "new") and str(s[1]).endswith("PopulationProbability"):
                    n_leaf += 1
                    pop = dict(s[2] if s[0] == "rec" else s[3]).get("population")
                    src = _attr_source(pop) if pop is not None else None
                    ok = (pop == args.get("domain")) or (src is not None and src[1] == "domain" and src[0] == args.get("query"))
                    if not ok:
                        problems.append("a term is tagged with population " + short(show(pop), 80) + ", which is not the current domain")
                if s[0] in ("rec", "new") and str(s[1]).endswith(".Probability"):
                    problems.append("builds an untagged Probability inside the transport algorithm")
                if s[0] == "meth" and s[2] == "intervene":
                    if fn != "activate_domain_and_interventions":
                        problems.append("applies .intervene() outside activation")
                    elif kwargs_of(s).get("variables") != args["interventions"]:
                        problems.append("activation intervenes on " + short(show(kwargs_of(s).get("variables")), 80) + " instead of the experiment variables it was given")
        if fn == "activate_domain_and_interventions":
            rej = [p for p in paths if p.kind == "raise" and any(c == ("isinstance", args["expression"], ("y0.dsl.Probability",)) for c in p.conds)
                   and any(c == ("not", ("isinstance", args["expression"], ("y0.dsl.PopulationProbability",))) for c in p.conds)]
            if not rej:
                problems.append("a plain (untagged) Probability is not rejected")
            # (whether the leaf is rebuilt correctly -- children AND conditioning set moved into the experimental world -- is R6.5's reference
            # comparison; an earlier clause here demanded that the conditioning set be dropped, which was the code's behaviour, not the algorithm's)
        if n_leaf == 0:
            problems.append("no PopulationProbability construction found (anchor changed)")
        (rep.refuted if problems else rep.proven)("R6.2", construct(f, "population-tag"), "; ".join(sorted(set(problems))), loc(f), sample={"leaf constructions": n_leaf})
    # _line_6_helper: domain switch and declared experiment
    if not model.has_func(f"{T}._line_6_helper"):
        # the per-domain step is not a routine of its own: the same facts are part of R5.2's comparison of line 6 as a whole (C05)
        from . import c05 as _c05
        _sub = Report(rep.property_id, rep.tier)
        _c05.r5_helpers(model, _sub)
        for ob in _sub.obligations:
            if ob.rule == "R5.2" and "gate-and-subquery" in ob.construct:
                ob.rule = "R6.2"
                ob.construct = ob.construct.replace("gate-and-subquery", "declared-experiment")
                rep.obligations.append(ob)
        return
    f = model.func(f"{T}._line_6_helper")
    ev = _tev(model)
    q = typed(ev, "query", ("cls", f"{T}.TRSOQuery"))
    d = typed(ev, "domain", ("cls", VARIABLE))
    g = graph_var(ev, "graph")
    sa = SetAlg(rewrite=rewriter(graph_rewrite))
    n = var("%n")
    problems = []
    switched = 0
    for p in return_paths(ev.run(f, {"query": q, "domain": d, "graph": g})):
        if p.value == const(None):
            continue
        switched += 1
        sets = {}
        for s in subterms(p.value):
            if s[0] == "setattr":
                sets[s[1]] = s[2]
            elif s[0] == "call" and isinstance(s[1], str) and s[1].split(".")[-1] == "replace" and len(s[2]) == 1 and s[3]:
                for k_, v_ in s[3]:  # dataclasses.replace(obj, field=value): the same assignment
                    sets.setdefault(k_, v_)
        if sets.get("domain") != d:
            problems.append("the sub-query is not tagged with the domain whose diagram was tested")
        act = sets.get("active_interventions")
        decl = ("index", ("attr", q, "surrogate_interventions"), d)
        if act is None or not compare(f_and(sa.member(n, act), f_not(sa.member(n, decl))), False)[0]:
            problems.append("the active interventions are not a subset of the declared experiment Z_i of that domain")
        elif not compare(sa.member(n, act), f_and(sa.member(n, decl), sa.member(n, ("attr", q, "target_interventions"))))[0]:
            problems.append("the active interventions are not Z_i ∩ X")
    if switched == 0:
        problems.append("no domain switch path found")
    (rep.refuted if problems else rep.proven)("R6.2", construct(f, "declared-experiment"), "; ".join(sorted(set(problems))), loc(f))
    # call site in trso: every sub-result is activated with the domain and the active interventions of ITS OWN sub-query
    f = model.func(f"{T}.trso")
    paths = _trso_paths(model)
    acts = []
    for p in paths:
        for s_ in subterms((p.value, p.conds)):
            if s_[0] == "accum" and any(x[0] == "call" and str(x[1]).endswith("activate_domain_and_interventions") for x in subterms(s_[3])):
                acts.append(s_)
    problems = []
    if not acts:
        problems.append("no activation of sub-results found in the line-6 branch")
    for a_ in acts:
        gens = a_[4]
        call = [x for x in subterms(a_[3]) if x[0] == "call" and str(x[1]).endswith("activate_domain_and_interventions")][0]
        kw = kwargs_of(call)
        pat = gens[0][0]
        if not (pat[0] == "tuplelit" and len(pat[1]) == 2):
            problems.append("sub-results are not iterated as (domain, sub-query) items")
            continue
        dvar, svar = pat[1]
        src = gens[0][1]
        if not (src[0] == "meth" and src[2] == "items" and src[1][0] == "call" and str(src[1][1]).endswith("trso_line6")):
            problems.append("the activated sub-queries are not the items of line 6's table")
        if kw.get("domain") != dvar:
            problems.append("a sub-result is tagged with a domain other than the one its sub-query was built for")
        if kw.get("interventions") != ("attr", svar, "active_interventions"):
            problems.append("a sub-result is not activated with the active interventions of its own sub-query")
        ex = kw.get("expression")
        if not (ex is not None and ex[0] == "recurse" and ex[2] == (svar,)):
            problems.append("the activated expression is not TRSO of that sub-query")
    (rep.refuted if problems else rep.proven)("R6.2", construct(f, "activation-call-site"), "; ".join(sorted(set(problems))), loc(f))
    # identify_target_outcomes: the recursion starts from the target domain's observational joint over the graph's nodes
    f = model.func(f"{T}.identify_target_outcomes")
    ev = Evaluator(model, primitives=set(TPRIMS) | {f"{T}.trso", f"{T}.surrogate_to_transport", f"{T}.check_and_raise_missing", f"{T}.TRSOQuery"}, prim_methods=set(TPM))
    g = graph_var(ev, "graph")
    args = {"graph": g, "target_outcomes": varset(ev, "target_outcomes"), "target_interventions": varset(ev, "target_interventions"),
            "surrogate_outcomes": typed(ev, "surrogate_outcomes", ("dict", None, None)), "surrogate_interventions": typed(ev, "surrogate_interventions", ("dict", None, None))}
    rets = return_paths(ev.run(f, args))
    problems = []
    if len(rets) != 1 or not (rets[0].value[0] == "call" and str(rets[0].value[1]).endswith(".trso")):
        problems.append("the wrapper does not return trso(query)")
    else:
        q0 = kwargs_of(rets[0].value).get("query")
        kw = kwargs_of(q0) if q0 is not None else {}
        ex = kw.get("expression")
        fl = dict(ex[2]) if ex is not None and ex[0] == "rec" else (kwargs_of(ex) if ex is not None else {})
        tgt = fl.get("population")
        try:
            from ..symeval import State as _State
            tgt_value = ev.lookup("TARGET_DOMAIN", _State({}), f, 0)  # what the name TARGET_DOMAIN denotes in this module (the constant, resolved)
        except Exception:  # noqa: BLE001
            tgt_value = None
        is_target = tgt is not None and ((tgt[0] == "global" and str(tgt[1]).endswith("TARGET_DOMAIN")) or (tgt_value is not None and tgt == tgt_value))
        if not (ex is not None and str(ex[1]).endswith("PopulationProbability") and is_target):
            problems.append("the recursion does not start from the target domain's observational joint")
        elif kw.get("domain") != tgt:
            problems.append("the initial expression's population tag is not the query's initial domain")
        else:
            d = fl.get("distribution")
            sa0 = SetAlg(rewrite=rewriter(graph_rewrite))
            nodes = kwargs_of(d).get("distribution") if d is not None and d[0] == "call" else None
            n0 = var("%n")
            if nodes is None or kwargs_of(d).get("interventions") not in (None, const(None)) or not compare(sa0.member(n0, nodes), sa0.member(n0, ("V", g)))[0]:
                problems.append("the initial distribution is not the plain joint over the nodes of the target graph")
        if kw.get("active_interventions") not in (("empty",), ("setlit", ())):
            problems.append("the recursion starts with active interventions")
    (rep.refuted if problems else rep.proven)("R6.2", construct(f, "initial-distribution"), "; ".join(problems), loc(f))


def _trso_paths(model: Model):
    from .c05 import LINES
    prims = set(TPRIMS) | {f"{T}.{x}" for x in LINES}
    ev = Evaluator(model, primitives=prims, prim_methods=set(TPM))
    q = typed(ev, "query", ("cls", f"{T}.TRSOQuery"))
    return ev.run(model.func(f"{T}.trso"), {"query": q})


def _regular_rewrite(t: Term):
    if t[0] == "call" and str(t[1]).endswith("get_regular_nodes"):
        g = kwargs_of(t).get("graph")
        v = ("var", "%r")
        return ("comp", "set", v, ((v, ("V", g), (("not", ("call", f"{T}.is_transport_node", (), (("node", v),))),)),))
    if t[0] == "meth" and t[2] == "topological_sort" and not t[3] and not t[4]:
        return ("V", t[1])
    return None


def r6_3(model: Model, rep: Report) -> None:
    sa = SetAlg(rewrite=rewriter(graph_rewrite, _regular_rewrite))
    n = var("%n")
    isT = sa.cond(("call", f"{T}.is_transport_node", (), (("node", n),)))

    def check_sink(rule, f, role, term, assumptions=()):
        fm = sa.member(n, term)
        ax = [f_not(f_and(sa.member(n, a), isT)) for a in assumptions]
        try:
            eq, row, _ = compare(f_and(fm, isT), False, ax)
        except Exception as ex:  # noqa: BLE001
            rep.unknown(rule, construct(f, role), f"{type(ex).__name__}: {ex}", loc(f), required=False)
            return
        if eq:
            rep.proven(rule, construct(f, role), loc=loc(f), sample={"membership": short(show_formula(fm), 240)})
        else:
            rep.refuted(rule, construct(f, role), "a transport (selection) node of the current domain's diagram can reach this position: "
                        f"membership is {short(show_formula(fm), 200)}, which does not exclude is_transport_node", loc(f))

    # trso_line9
    f = model.func(f"{T}.trso_line9")
    ev = _tev(model)
    q = typed(ev, "query", ("cls", f"{T}.TRSOQuery"))
    D = varset(ev, "district")
    rets = return_paths(ev.run(f, {"query": q, "district": D}))
    regular = [D, ("attr", q, "target_outcomes"), ("attr", q, "target_interventions")]
    k = 0
    for r in rets:
        for s in subterms(r.value):
            if s[0] == "call" and str(s[1]).endswith("Sum.safe"):
                k += 1
                check_sink("R6.3", f, f"no-transport-node:range{k}", kwargs_of(s).get("ranges"), regular)
    if k < 3:
        rep.error(f"R6.3: only {k} summation ranges found in trso_line9")
    # trso_line10
    f = model.func(f"{T}.trso_line10")
    ev = _tev(model)
    q = typed(ev, "query", ("cls", f"{T}.TRSOQuery"))
    D = varset(ev, "district")
    rets = return_paths(ev.run(f, {"query": q, "district": D, "new_surrogate_interventions": var("nsi")}))
    k = 0
    for r in rets:
        for s in subterms(r.value):
            if s[0] == "call" and str(s[1]).endswith("Distribution.safe"):
                k += 1
                arg = kwargs_of(s).get("distribution")
                # node | pre_node  ->  parents = pre_node
                if arg[0] == "op" and arg[1] == "|":
                    check_sink("R6.3", f, "no-transport-node:conditioning-set", arg[3], [D])
                else:
                    check_sink("R6.3", f, "no-transport-node:variables", arg, [D])
    if k < 1:
        rep.error("R6.3: no Distribution.safe in trso_line10")
    # lines 1, 2 and 4 (ranges from get_regular_nodes)
    f = model.func(f"{T}.trso_line1")
    ev = _tev(model)
    g = graph_var(ev, "graph")
    rets = return_paths(ev.run(f, {"target_outcomes": varset(ev, "target_outcomes"), "expression": var("expression"), "graph": g}))
    for r in rets:
        for s in subterms(r.value):
            if s[0] == "call" and str(s[1]).endswith("Sum.safe"):
                check_sink("R6.3", f, "no-transport-node:range", kwargs_of(s).get("ranges"))
    f = model.func(f"{T}.trso_line2")
    ev = _tev(model)
    q = typed(ev, "query", ("cls", f"{T}.TRSOQuery"))
    done = False
    for r in return_paths(ev.run(f, {"query": q, "outcomes_ancestors": varset(ev, "outcomes_ancestors")})):
        for s in subterms(r.value):
            if s[0] == "call" and str(s[1]).endswith("Sum.safe") and not done:
                done = True
                check_sink("R6.3", f, "no-transport-node:range", kwargs_of(s).get("ranges"))
    # line 4's outer sum in trso: the summation range of the path that multiplies the per-district sub-results
    f = model.func(f"{T}.trso")
    found = False
    for p in _trso_paths(model):
        if p.kind != "return" or not any(s_[0] == "call" and str(s_[1]).endswith("trso_line4") for s_ in subterms(p.value)):
            continue
        for s_ in subterms(p.value):
            if s_[0] == "call" and str(s_[1]).endswith("Sum.safe") and not found:
                found = True
                check_sink("R6.3", f, "no-transport-node:line4-range", kwargs_of(s_).get("ranges"))
    if not found:
        rep.error("R6.3: line 4's summation not found among the paths of trso")


def r6_4(model: Model, rep: Report) -> None:
    from ..refcmp import load_reference, run_table

    if "yvref.c07" not in model.modules:
        load_reference(model, "yvref.c07", "c07_ref.py")
    IS = f"{ID}.id_star"
    table = [("R6.4", f"{IS}.id_star_line_9", "line_9", {"cf_graph": ("cls", NXMG)}, {f"{IS}.get_cf_interventions"}, "single-world-leaf",
              "the base case is ONE term P_{all subscripts of the graph}(base variables of the graph): every variable reduced to its base, one "
              "intervention set applied to the whole distribution")]
    run_table(model, rep, table, "yvref.c07", lambda m, prims: (lambda: Evaluator(m, primitives=set(GRAPH_PRIMS) | set(DSL_PRIMS) | set(prims), prim_methods={"get_base"})),
              SetAlg(rewriter(graph_rewrite)), construct=construct, loc=loc)
    # Distribution.intervene applies the same variables to every child and parent
    f = model.func("y0.dsl.Distribution.intervene")
    ev = Evaluator(model, primitives=set(DSL_PRIMS), prim_methods={"intervene"})
    slf = typed(ev, "self", ("cls", "y0.dsl.Distribution"))
    vs = var("variables")
    rets = return_paths(ev.run(f, {"variables": vs}, self_term=slf))
    ok = False
    if len(rets) == 1 and rets[0].value[0] == "rec":
        fl = dict(rets[0].value[2])
        args = set()
        for k in ("children", "parents"):
            for s in subterms(fl.get(k)):
                if s[0] == "meth" and s[2] == "intervene":
                    args.add(kwargs_of(s).get("variables", s[3][0] if s[3] else None))
        ok = len(args) == 1
    (rep.proven if ok else rep.refuted)("R6.4", construct(f, "one-set-for-all"), "" if ok else "children and parents are not all intervened with the same set", loc(f))
    # ... and a probability term is intervened by intervening its whole distribution
    if "yvref.c06" not in model.modules:
        load_reference(model, "yvref.c06", "c06_ref.py")
    PT = ("cls", "y0.dsl.Probability")
    run_table(model, rep, [("R6.4", "y0.dsl.Probability.intervene", "intervened_term", {"self": PT, "variables": ("iter", ("cls", VARIABLE))}, (), "whole-distribution",
                            "P(C | Pa) under do(x) is P_x(C | Pa): children and conditioning set both subscripted (through Distribution.intervene), same kind of term",
                            {"impl_self_type": PT})],
              "yvref.c06", lambda m, prims: (lambda: Evaluator(m, primitives=set(DSL_PRIMS) | set(prims), prim_methods={"intervene", "_new"})),
              SetAlg(rewriter(graph_rewrite)), construct=construct, loc=loc)
    # only wrappers elsewhere in id_star / idc_star: census of leaf builders in the two modules
    builders = []
    for q in (f"{ID}.id_star", f"{ID}.idc_star"):
        for fn in model.funcs_in_module(q):
            for c in ast.walk(fn.node):
                if isinstance(c, ast.Call):
                    nm = ast.unparse(c.func)
                    if nm in ("Probability.safe", "Probability", "P", "PopulationProbability") or nm.startswith("P["):
                        builders.append(fn.name)
    ok = set(builders) == {"id_star_line_9"}
    f9 = model.func(f"{ID}.id_star.id_star_line_9")
    (rep.proven if ok else rep.refuted)("R6.4", construct(f9, "only-leaf-builder"), "" if ok else f"probability terms are built in {sorted(set(builders))}, not only in the base case", loc(f9))


def r6_5(model: Model, rep: Report) -> None:
    """The transport problem handed to TRSO: every source domain with ITS OWN experiments and its own transport diagram (reference comparison)."""
    from .. import nxden
    from ..refcmp import load_reference, run_table

    load_reference(model, "yvref.c06", "c06_ref.py")
    TR = "y0.algorithm.transport"
    V = ("cls", VARIABLE)
    G = ("cls", NXMG)
    VS = ("set", V)
    D = ("dict", None, VS)
    H = {f"{TR}.create_transport_diagram", f"{TR}.get_nodes_to_transport", f"{TR}.transport_variable"}
    table = [
        ("R6.5", f"{TR}.surrogate_to_transport", "query_of",
         {"graph": G, "target_outcomes": VS, "target_interventions": VS, "surrogate_outcomes": D, "surrogate_interventions": D}, H, "domains-keep-their-own-data",
         "every source domain is paired with ITS OWN experiments and outcomes (looked up by the domain, never by position), its diagram carries the "
         "transport nodes computed from exactly these, the target's diagram is the graph itself, and mismatching domain sets are refused"),
        ("R6.5", f"{TR}.create_transport_diagram", "transport_diagram", {"graph": G, "nodes_to_transport": ("iter", V)}, H, "transport-diagram",
         "the graph (all nodes, directed and bidirected edges) plus one transport node T_v -> v per variable to transport"),
    ]
    run_table(model, rep, table, "yvref.c06", lambda m_, prims: (lambda: Evaluator(m_, primitives=set(GRAPH_PRIMS) | set(prims),
                                                                                     prim_methods={"add_node", "add_directed_edge", "add_undirected_edge"})),
              SetAlg(rewriter(graph_rewrite)), construct=construct, loc=loc, post=nxden.post)
    EX = ("cls", "y0.dsl.Expression")
    from .dslcommon import DSL_PRIMS
    run_table(model, rep, [
        ("R6.5", f"{TR}.activate_domain_and_interventions", "activated", {"expression": EX, "interventions": VS, "domain": V}, (), "whole-term-moves",
         "every probability term moves into the source domain's experimental world as a whole -- children AND conditioning set subscripted with the "
         "experiment, tagged with that domain; variables the experiment fixes drop out and a term with no child left is One(); sums keep their ranges; "
         "products and fractions part by part"),
    ], "yvref.c06", lambda m_, prims: (lambda: Evaluator(m_, primitives=set(DSL_PRIMS) | set(prims), prim_methods={"intervene", "given", "simplify", "__truediv__", "_new"})),
        SetAlg(rewriter(graph_rewrite)), construct=construct, loc=loc)
    # the reader and the writer of selection-node names: `is_transport_node` is `transport_variable` read backwards -- a prefix test on the name
    # and nothing else.  A reader that PARSES the name (split, regular expression, slices) misreads variables whose own name contains the marker
    # again (T_ACT_dose): decided by E11's lossy-read clause on top of the reference comparison.
    from ..keys import _lossy_reads
    from ..refcmp import compare_with_reference
    mk_plain = lambda: Evaluator(model)  # noqa: E731
    for q_, ref_, role_, words_ in ((f"{TR}.is_transport_node", "selection_node", "selection-node-names",
                                     "a selection node is a plain variable whose name begins with the marker; nothing else about the name is read"),
                                    (f"{TR}.transport_variable", "selection_node_of", "selection-node-names",
                                     "the selection node of v is the plain variable named marker + v.name; counterfactual variables are refused")):
        fq_ = model.func(q_)
        cons_ = construct(fq_, role_)
        lossy = []
        try:
            ev_ = Evaluator(model)
            for p_ in ev_.run(fq_, {"node" if "is_" in q_ else "variable": ("var", "node" if "is_" in q_ else "variable")}):
                for t_ in list(p_.conds) + ([p_.value] if p_.value is not None else []):
                    lossy.extend(_lossy_reads(t_, ev_))
        except Exception:  # noqa: BLE001
            pass
        lossy = []  # (the general lossy-read clause stays a hint: `name.split(m)[0] == ""` IS the prefix test)
        for n_ in ast.walk(fq_.node):
            # `a, b = name.split(marker)`: a fixed number of pieces from an unbounded split -- whatever the routine does when the count is off
            # (raise, or a handler's default), a name that contains the marker AGAIN is treated differently from what its prefix says
            if isinstance(n_, ast.Assign) and len(n_.targets) == 1 and isinstance(n_.targets[0], (ast.Tuple, ast.List)) \
                    and not any(isinstance(e_, ast.Starred) for e_ in n_.targets[0].elts) \
                    and isinstance(n_.value, ast.Call) and isinstance(n_.value.func, ast.Attribute) and n_.value.func.attr in ("split", "rsplit") \
                    and len(n_.value.args) == 1 and not n_.value.keywords:
                lossy.append(f"line {n_.lineno}: the name is cut into exactly {len(n_.targets[0].elts)} pieces at every occurrence of the marker -- a variable "
                             f"whose own name contains the marker again (T_ACT_dose) is not read by its prefix")
        _, v_, dt_, smp_ = compare_with_reference(model, q_, f"yvref.c06.{ref_}", {("node" if "is_" in q_ else "variable"): V}, mk_plain, SetAlg(rewriter(graph_rewrite)))
        if v_ == "PROVEN" and not lossy:
            rep.proven("R6.5", cons_, loc=loc(fq_), sample=smp_)
        elif v_ == "REFUTED" or lossy:
            rep.refuted("R6.5", cons_, f"deviates from the definition ({words_}): " + "; ".join(sorted(set(lossy)) or [short(dt_, 500)]), loc(fq_))
        else:
            rep.unknown("R6.5", cons_, dt_, loc(fq_))
