"""C17 -- Tian-Pearl c-factor identification (refinement to Tian & Pearl 2003, IDENTIFY and Lemmas 1, 3, 4).

R17.1  IDENTIFY cases: A = An(C) in G[T];  A = C -> Lemma 3 on Q[T];  A = T -> FAIL;  otherwise recurse on (C, T', Q[T']) with T' the district of
       G[A] containing C and Q[T'] computed from Q[A] (Lemma 3 of Q[T], or the joint over A keeping Q[T]'s conditioning variables).
R17.2  Lemma 3: Q[A] = Σ_{T∖A} Q[T]  (membership table of the summation range).
R17.3  Lemma 4: Q[H_j] = Π_{v∈H_j} Q[H^(i)] / Q[H^(i-1)], Q[H^(i)] = Σ_{variables after v_i} Q[H], first factor without denominator.
R17.4  Lemma 1: each factor is P(v | conditioning variables of Q ∪ predecessors of v in the order), same population.
R17.5  dispatch: Lemma 4 for Fraction/Product/Sum, Lemma 1 for Probability, over the order restricted (only) to the sub-graph's variables.
"""

from __future__ import annotations

from ..model import AnalysisError, Model
from ..report import Report
from ..setalg import SetAlg, compare, f_and, f_not, f_or, show_formula, show_row
from ..symeval import Evaluator
from ..terms import NONE, Term, const, show, subterms, var
from .common import GRAPH_PRIMS, NXMG, VARIABLE, construct, loc, return_paths, short, typed, kwargs_of, exc_name
from .dslcommon import DSL_PRIMS

TI = "y0.algorithm.tian_id"
V = ("cls", VARIABLE)
E = ("cls", "y0.dsl.Expression")


def _ev(model, prims=()):
    return Evaluator(model, primitives=set(GRAPH_PRIMS) | set(DSL_PRIMS) | {"y0.dsl.P"} | set(prims), prim_methods={"get_base", "joint", "__or__", "given", "to_latex"})


def run(model: Model, rep: Report, tier: str) -> None:
    rep.level = "other"
    rep.explanation = (
        "Each routine is evaluated symbolically; summation ranges are membership formulas compared by satisfiability (Lemma 3), position "
        "arithmetic in the order is compared as terms (slice from index+1 = 'variables after v'; index-1 = previous vertex), case order and the "
        "recursion's arguments of IDENTIFY are read off its path list. Decides formula-level refinement to the published lemmas; the value "
        "identity is the paper's theorem."
    )
    rep.trusted_base = ["Tian & Pearl 2003, Lemmas 1, 3, 4 and IDENTIFY", "C14", "C13 (Sum.safe, Product.safe, Fraction)"]
    rep.floors = {"R17.1": 4, "R17.2": 1, "R17.3": 3, "R17.4": 2, "R17.5": 2, "R17.6": 5}
    sa = SetAlg()
    n = var("%n")
    # ---------------------------------------------------------------- R17.2 Lemma 3
    f = model.func(f"{TI}.compute_ancestral_set_q_value")
    ev = _ev(model)
    A, T, Q, topo = typed(ev, "ancestral_set", ("frozenset", V)), typed(ev, "subgraph_variables", ("frozenset", V)), typed(ev, "subgraph_probability", E), typed(ev, "graph_topo", ("list", V))
    rets = return_paths(ev.run(f, {"ancestral_set": A, "subgraph_variables": T, "subgraph_probability": Q, "graph_topo": topo}))
    problems = []
    if len(rets) != 1 or not (rets[0].value[0] == "call" and str(rets[0].value[1]).endswith("Sum.safe")):
        problems.append("Lemma 3 must be a single sum of Q[T]")
    else:
        kw = kwargs_of(rets[0].value)
        if kw.get("expression") != Q:
            problems.append("the summand is not the given Q[T]")
        want = f_and(sa.member(n, topo), sa.member(n, T), f_not(sa.member(n, A)))
        eq, row, _ = compare(sa.member(n, kw.get("ranges")), want)
        if not eq:
            problems.append(f"the sum does not range over exactly T ∖ A: differs for a variable with [{short(show_row(row), 200)}]")
    (rep.refuted if problems else rep.proven)("R17.2", construct(f, "sum-over-T-minus-A"), "; ".join(problems), loc(f))
    # ---------------------------------------------------------------- R17.3 Lemma 4
    f = model.func(f"{TI}.compute_q_value_of_variables_with_low_topological_ordering_indices")
    ev = _ev(model)
    v_, Qh, tp = typed(ev, "vertex", V), typed(ev, "graph_probability", E), typed(ev, "topo", ("list", V))
    rets = return_paths(ev.run(f, {"vertex": v_, "graph_probability": Qh, "topo": tp}))
    want = ("call", "y0.dsl.Sum.safe", (), (("expression", Qh), ("ranges", ("slice", tp, ("op", "+", ("meth", tp, "index", (v_,), ()), const(1)), NONE)), ("simplify", const(False))))
    ok = len(rets) == 1 and rets[0].value == want
    (rep.proven if ok else rep.refuted)("R17.3", construct(f, "sum-over-successors"), "" if ok else
                                        "Q[H^(i)] must be the sum of Q[H] over exactly the variables after v_i in the order: " + (short(show(rets[0].value), 160) if rets else "no path"), loc(f))
    ev = _ev(model)
    rets = return_paths(ev.run(f, {"vertex": NONE, "graph_probability": Qh, "topo": tp}))
    ok = len(rets) == 1 and rets[0].value[0] in ("rec", "new") and str(rets[0].value[1]).endswith(".One")
    (rep.proven if ok else rep.refuted)("R17.3", construct(f, "empty-prefix-is-one"), "" if ok else "Q[H^(0)] must be One", loc(f))
    LOW = f"{TI}.compute_q_value_of_variables_with_low_topological_ordering_indices"
    f = model.func(f"{TI}.compute_c_factor_marginalizing_over_topological_successors")
    ev = _ev(model, prims={LOW})
    D, Qh, tp = typed(ev, "district", ("set", V)), typed(ev, "graph_probability", E), typed(ev, "topo", ("list", V))
    rets = return_paths(ev.run(f, {"district": D, "graph_probability": Qh, "topo": tp}))
    problems = []
    if len(rets) != 1 or not (rets[0].value[0] == "call" and str(rets[0].value[1]).endswith("Product.safe")):
        problems.append("Lemma 4 must be one product over the district")
    else:
        seq = kwargs_of(rets[0].value).get("expressions")
        pieces = []
        while seq[0] == "accum":
            pieces.append((seq[3], seq[4]))
            seq = seq[2]
        seen = set()
        for payload, gens in pieces:
            (pat, it, conds), = gens
            vx = [x for x in subterms(pat) if x[0] == "var"][-1]
            core = it
            while core[0] == "call" and core[2]:
                core = core[2][0]
            if core != D:
                problems.append("the product does not range over the district")
            idx = ("meth", tp, "index", (vx,), ())
            low = lambda i: ("call", LOW, (), (("graph_probability", Qh), ("topo", tp), ("vertex", ("index", tp, i))))  # noqa: E731
            item = payload[1][0]
            first = any(c == ("eq", idx, const(0)) for c in conds)
            if first:
                seen.add("first")
                if item != low(idx):
                    problems.append("for the first variable of the order the factor must be Q[H^(1)] itself")
            else:
                seen.add("rest")
                if not (item[0] == "rec" and item[1].endswith(".Fraction")):
                    problems.append("a factor is not a Fraction")
                else:
                    fl = dict(item[2])
                    if fl.get("numerator") == low(("op", "-", idx, const(1))) and fl.get("denominator") == low(idx):
                        problems.append("numerator and denominator are exchanged (Q[H^(i)] / Q[H^(i-1)] is required)")
                    elif fl.get("numerator") != low(idx):
                        problems.append("the numerator must be Q[H^(i)] (sum over the variables after v_i)")
                    elif fl.get("denominator") != low(("op", "-", idx, const(1))):
                        problems.append("the denominator must be Q[H^(i-1)] (the previous vertex of the order)")
        if seen != {"first", "rest"}:
            problems.append("the two cases (first vertex / later vertices) are not both present")
    (rep.refuted if problems else rep.proven)("R17.3", construct(f, "ratio-of-consecutive-marginals"), "; ".join(sorted(set(problems))), loc(f))
    # ---------------------------------------------------------------- R17.4 Lemma 1
    f = model.func(f"{TI}.compute_c_factor_conditioning_on_topological_predecessors")
    ev = _ev(model)
    D, Qp, tp = typed(ev, "district", ("set", V)), typed(ev, "graph_probability", ("cls", "y0.dsl.Probability")), typed(ev, "topo", ("list", V))
    rets = return_paths(ev.run(f, {"district": D, "graph_probability": Qp, "topo": tp}))
    par = ("attr", ("attr", Qp, "distribution"), "parents")
    for r in rets:
        pop = any(c == ("isinstance", Qp, ("y0.dsl.PopulationProbability",)) for c in r.conds)
        role = "population" if pop else "plain"
        problems = []
        v = r.value
        seq = kwargs_of(v).get("expressions") if v[0] == "call" and str(v[1]).endswith("Product.safe") else None
        if seq is None or seq[0] != "accum" or sa.strip(seq[4][0][1]) != D:
            problems.append("Lemma 1 must be a product of one factor per district variable")
        else:
            vx = seq[4][0][0]
            item = seq[3][1][0]
            cond_set = None
            if pop:
                if not (item[0] == "rec" and item[1].endswith("PopulationProbability") and dict(item[2]).get("population") == ("attr", Qp, "population")):
                    problems.append("the population tag of Q is not carried to the factors")
                else:
                    d = dict(item[2]).get("distribution")
                    fl = dict(d[2]) if d[0] == "rec" else {}
                    if fl.get("children") != ("tuplelit", (vx,)):
                        problems.append("a factor does not have the single child v")
                    cond_set = fl.get("parents")
            else:
                if not (item[0] == "call" and item[1] == "y0.dsl.P" and item[2][0][0] == "op" and item[2][0][1] == "|" and item[2][0][2] == vx):
                    problems.append("a factor is not P(v | ...)")
                else:
                    cond_set = item[2][0][3]
            if cond_set is not None:
                want = f_or(sa.member(n, par), sa.member(n, ("slice", tp, NONE, ("meth", tp, "index", (vx,), ()))))
                eq, row, _ = compare(sa.member(n, cond_set), want)
                if not eq:
                    problems.append(f"v must be conditioned on exactly (conditioning variables of Q) ∪ (its predecessors in the order): differs for [{short(show_row(row), 200)}]")
        (rep.refuted if problems else rep.proven)("R17.4", construct(f, f"factor:{role}"), "; ".join(problems), loc(f, r.line))
    # ---------------------------------------------------------------- R17.5 dispatch
    L4 = f"{TI}.compute_c_factor_marginalizing_over_topological_successors"
    L1 = f"{TI}.compute_c_factor_conditioning_on_topological_predecessors"
    f = model.func(f"{TI}.compute_c_factor")
    ev = _ev(model, prims={L4, L1})
    D, SV, Qs, gt = typed(ev, "district", ("set", V)), typed(ev, "subgraph_variables", ("set", V)), typed(ev, "subgraph_probability", E), typed(ev, "graph_topo", ("list", V))
    paths = ev.run(f, {"district": D, "subgraph_variables": SV, "subgraph_probability": Qs, "graph_topo": gt})
    problems = []
    tp_ok = True
    for p in return_paths(paths):
        v = p.value
        kw = kwargs_of(v)
        composite = any(c[0] == "isinstance" and c[1] == Qs and {x.split(".")[-1] for x in c[2]} == {"Fraction", "Product", "Sum"} for c in p.conds)
        if v[0] == "call" and v[1] == L4:
            if not composite:
                problems.append("Lemma 4 is used for something other than Fraction/Product/Sum")
        elif v[0] == "call" and v[1] == L1:
            if not any(c == ("isinstance", Qs, ("y0.dsl.Probability",)) for c in p.conds):
                problems.append("Lemma 1 is used for something other than a Probability")
        else:
            problems.append("unexpected result " + short(show(v), 100))
            continue
        if kw.get("district") != D or kw.get("graph_probability") != Qs:
            problems.append("district / distribution are not passed through")
        t = kw.get("topo")
        x = var("%x")
        want = f_and(sa.member(x, gt), sa.member(x, SV))
        ok_t = t is not None and t[0] == "comp" and t[1] == "list" and len(t[3]) == 1 and t[2] == t[3][0][0] and t[3][0][1] == gt and compare(sa.member(x, t), want)[0]
        if not ok_t:
            tp_ok = False
    (rep.refuted if problems else rep.proven)("R17.5", construct(f, "dispatch"), "; ".join(sorted(set(problems))), loc(f))
    (rep.proven if tp_ok else rep.refuted)("R17.5", construct(f, "restricted-order"), "" if tp_ok else
                                           "the order handed to the lemmas must be the graph's order filtered to the sub-graph's variables, ALL of them (Lemma 4 sums over the trailing variables of H too)", loc(f))
    # ---------------------------------------------------------------- R17.1 IDENTIFY
    ANC = f"{TI}.compute_ancestral_set_q_value"
    CF = f"{TI}.compute_c_factor"
    f = model.func(f"{TI}.identify_district_variables")
    ev = _ev(model, prims={ANC, CF})
    C, T, Q, G, tp = (typed(ev, "input_variables", ("frozenset", V)), typed(ev, "input_district", ("frozenset", V)), typed(ev, "district_probability", E),
                      typed(ev, "graph", ("cls", NXMG)), typed(ev, "topo", ("list", V)))
    paths = ev.run(f, {"input_variables": C, "input_district": T, "district_probability": Q, "graph": G, "topo": tp})
    GT = ("meth", G, "subgraph", (), (("vertices", T),))
    A = ("meth", GT, "ancestors_inclusive", (), (("sources", C),))
    eqAC = sa.eq_atom(("setof", A, "frozen"), C)
    eqAT = sa.eq_atom(("setof", A, "frozen"), T)

    def has(p, fm, neg=False):
        g = f_and(*[sa.cond(c) for c in p.conds])
        return compare(f_and(g, fm if neg else f_not(fm)), False)[0]

    rets = return_paths(paths)
    # normalise set(...)/frozenset(...) wrappers around A in conditions
    def guard(p):
        from ..terms import mapterm
        cs = [mapterm(c, lambda s: ("setof", A, "frozen") if s[0] == "setof" and s[1] == A else None) for c in p.conds]
        return f_and(*[sa.cond(c) for c in cs])

    def g_implies(p, fm):
        return compare(f_and(guard(p), f_not(fm)), False)[0]

    l3 = [p for p in rets if p.value[0] == "call" and p.value[1] == ANC]
    ok = len(l3) == 1 and g_implies(l3[0], eqAC)
    if ok:
        kw = kwargs_of(l3[0].value)
        ok = sa.strip(kw.get("ancestral_set")) == A and kw.get("subgraph_variables") == T and kw.get("subgraph_probability") == Q and kw.get("graph_topo") == tp
    (rep.proven if ok else rep.refuted)("R17.1", construct(f, "case-A=C"), "" if ok else "when An(C) in G[T] equals C the answer must be Lemma 3 applied to (A, T, Q[T])", loc(f))
    fail = [p for p in rets if p.value == NONE]
    ok = len(fail) == 1 and g_implies(fail[0], f_and(f_not(eqAC), eqAT))
    (rep.proven if ok else rep.refuted)("R17.1", construct(f, "case-A=T"), "" if ok else "FAIL must be returned exactly when A = T (tested after A = C)", loc(f))
    recs = [p for p in rets if p.value[0] == "recurse"]
    problems = []
    if len(recs) < 2:
        problems.append("the recursive case is missing for some kind of Q[T]")
    arms = set()
    for p in recs:
        kw = dict(p.value[3])
        if not g_implies(p, f_and(f_not(eqAC), f_not(eqAT))):
            problems.append("the recursion is not guarded by C ⊊ A ⊊ T")
        if kw.get("input_variables") != C or kw.get("graph") != G or kw.get("topo") != tp:
            problems.append("C, G or the order change in the recursion")
        Tp = kw.get("input_district")
        dists = [s for s in subterms(Tp) if s[0] == "meth" and s[2] == "districts"]
        if not (dists and dists[0][1][0] == "meth" and dists[0][1][2] == "subgraph" and dists[0][1][1] == G and any(s == A for s in subterms(dists[0][1]))):
            problems.append("T' is not a district of G[A]")
        if not any(s[0] == "subset" and s[1] == C for s in subterms(Tp)):
            problems.append("T' is not chosen as the district that contains C")
        QTp = kw.get("district_probability")
        if not (QTp[0] == "call" and QTp[1] == CF):
            problems.append("Q[T'] is not computed by the c-factor routine")
            continue
        k2 = kwargs_of(QTp)
        if k2.get("district") != Tp or sa.strip(k2.get("subgraph_variables")) != A or k2.get("graph_topo") != tp:
            problems.append("the c-factor is not computed for T' inside A")
        QA = k2.get("subgraph_probability")
        composite = any(c[0] == "isinstance" and c[1] == Q and {x.split(".")[-1] for x in c[2]} == {"Fraction", "Product", "Sum"} for c in p.conds)
        if composite:
            arms.add("composite")
            k3 = kwargs_of(QA)
            if not (QA[0] == "call" and QA[1] == ANC and sa.strip(k3.get("ancestral_set")) == A and k3.get("subgraph_variables") == T and k3.get("subgraph_probability") == Q):
                problems.append("for a composite Q[T], Q[A] must be Lemma 3 of Q[T]")
        else:
            pop = any(c == ("isinstance", Q, ("y0.dsl.PopulationProbability",)) for c in p.conds)
            arms.add("population" if pop else "plain")
            if not any(s in (("attr", ("attr", Q, "distribution"), "parents"), ("attr", Q, "parents")) for s in subterms(QA)):
                problems.append(("population-tagged" if pop else "plain") + " Q[T] = P(T | W): the joint over A built for Q[A] drops the conditioning variables W of Q[T] (Q[A] = P(A | W) is required)")
            if pop and not any(s == ("attr", Q, "population") for s in subterms(QA)):
                problems.append("the population tag of Q[T] is lost")
    if recs and arms != {"composite", "population", "plain"}:
        problems.append(f"arms found: {sorted(arms)}")
    (rep.refuted if problems else rep.proven)("R17.1", construct(f, "case-recursive"), "; ".join(sorted(set(problems))), loc(f))
    # ---------------------------------------------------------------- R17.6 the routines are functions of their arguments
    from ..effects import Effects
    eff = Effects(model)
    for q in ("identify_district_variables", "compute_c_factor", "compute_ancestral_set_q_value", "compute_c_factor_conditioning_on_topological_predecessors",
              "compute_c_factor_marginalizing_over_topological_successors"):
        fq = model.func(f"{TI}.{q}")
        sm = eff.summary(fq)
        if sm.mutates:
            p_, es = next(iter(sm.mutates.items()))
            rep.refuted("R17.6", construct(fq, "stateless"), f"modifies `{p_}` ({es[0].how}): the answer can depend on earlier calls (e.g. a memo keyed without the graph) or the caller's data is changed", loc(fq, es[0].line))
        else:
            rep.proven("R17.6", construct(fq, "stateless"), loc=loc(fq))
    # other raises are input validation only (conditions mention parameters only)
    bad = [p for p in paths if p.kind == "raise" and exc_name(p) not in ("KeyError", "TypeError", "NotImplementedError")]
    (rep.refuted if bad else rep.proven)("R17.1", construct(f, "validation-only-raises"), "unexpected exception " + exc_name(bad[0]) if bad else "", loc(f))
