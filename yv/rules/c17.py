"""C17 -- Tian-Pearl c-factor identification (refinement to Tian & Pearl 2003, IDENTIFY and Lemmas 1, 3, 4).

R17.1  IDENTIFY cases: A = An(C) in G[T];  A = C -> Lemma 3 on Q[T];  A = T -> FAIL;  otherwise recurse on (C, T', Q[T']) with T' the district of
       G[A] containing C and Q[T'] computed from Q[A] (Lemma 3 of Q[T], or the joint over A keeping Q[T]'s conditioning variables).
R17.2  Lemma 3: Q[A] = Σ_{T∖A} Q[T]  (membership table of the summation range).
R17.3  Lemma 4: Q[H_j] = Π_{v∈H_j} Q[H^(i)] / Q[H^(i-1)], Q[H^(i)] = Σ_{variables after v_i} Q[H], first factor without denominator.
R17.4  Lemma 1: each factor is P(v | conditioning variables of Q ∪ predecessors of v in the order), same population.
R17.5  dispatch: Lemma 4 for Fraction/Product/Sum, Lemma 1 for Probability, over the order restricted (only) to the sub-graph's variables.
"""

from __future__ import annotations

from ..model import AnalysisError, Model
from ..report import Report
from ..setalg import SetAlg, compare, f_and, f_not, f_or, show_formula, show_row
from ..symeval import Evaluator
from ..terms import NONE, Term, const, show, subterms, var
from .common import GRAPH_PRIMS, NXMG, VARIABLE, construct, loc, return_paths, short, typed, kwargs_of, exc_name
from .dslcommon import DSL_PRIMS

TI = "y0.algorithm.tian_id"
V = ("cls", VARIABLE)
E = ("cls", "y0.dsl.Expression")


def _ev(model, prims=()):
    return Evaluator(model, primitives=set(GRAPH_PRIMS) | set(DSL_PRIMS) | {"y0.dsl.P"} | set(prims), prim_methods={"get_base", "joint", "__or__", "given", "to_latex"})


def run(model: Model, rep: Report, tier: str) -> None:
    rep.level = "other"
    rep.explanation = (
        "Each routine is evaluated symbolically; summation ranges are membership formulas compared by satisfiability (Lemma 3), position "
        "arithmetic in the order is compared as terms (slice from index+1 = 'variables after v'; index-1 = previous vertex), case order and the "
        "recursion's arguments of IDENTIFY are read off its path list. Decides formula-level refinement to the published lemmas; the value "
        "identity is the paper's theorem."
    )
    rep.trusted_base = ["Tian & Pearl 2003, Lemmas 1, 3, 4 and IDENTIFY", "C14", "C13 (Sum.safe, Product.safe, Fraction)"]
    rep.floors = {"R17.1": 2, "R17.2": 1, "R17.3": 2, "R17.4": 1, "R17.5": 1, "R17.6": 5}
    from ..refcmp import load_reference, run_table
    from .common import graph_rewrite, rewriter

    load_reference(model, "yvref.c17", "c17_ref.py")
    sa = SetAlg(rewriter(graph_rewrite))
    G = ("cls", NXMG)
    FS = ("frozenset", V)
    L = ("list", V)
    IT = ("iter", V)
    H = {f"{TI}.{x}" for x in (
        "compute_ancestral_set_q_value", "compute_c_factor", "compute_c_factor_conditioning_on_topological_predecessors",
        "compute_c_factor_marginalizing_over_topological_successors", "compute_q_value_of_variables_with_low_topological_ordering_indices",
        "identify_district_variables")}

    def mk(model_, prims):
        return lambda: _ev(model_, set(prims) | {"y0.dsl.Fraction"})

    table = [
        ("R17.2", f"{TI}.compute_ancestral_set_q_value", "lemma_3", {"ancestral_set": FS, "subgraph_variables": FS, "subgraph_probability": E, "graph_topo": L}, H,
         "sum-over-T-minus-A", "Lemma 3: Q[A] = Σ_{T ∖ A} Q[T], the summed variables taken from (and ordered by) the graph's order"),
        ("R17.3", f"{TI}.compute_q_value_of_variables_with_low_topological_ordering_indices", "q_of_prefix", {"vertex": ("union", (V, "none")), "graph_probability": E, "topo": L}, H,
         "sum-over-later-variables", "Q[H^(i)] = Σ_{variables strictly after v_i} Q[H]; Q[H^(0)] = 1; a vertex outside the order is refused"),
        ("R17.3", f"{TI}.compute_c_factor_marginalizing_over_topological_successors", "lemma_4", {"district": IT, "graph_probability": E, "topo": L}, H,
         "ratio-of-consecutive-marginals", "Lemma 4: Π over the district of Q[H^(i)] / Q[H^(i-1)] with i the vertex's position in the order; the first vertex of the order has no denominator"),
        ("R17.4", f"{TI}.compute_c_factor_conditioning_on_topological_predecessors", "lemma_1", {"district": IT, "graph_probability": ("cls", "y0.dsl.Probability"), "topo": L}, H,
         "product-of-conditionals", "Lemma 1: Π over the district of P(v | what Q was conditioned on ∪ predecessors of v in the order), same population tag"),
        ("R17.5", f"{TI}.compute_c_factor", "c_factor", {"district": IT, "subgraph_variables": IT, "subgraph_probability": E, "graph_topo": L}, H,
         "dispatch", "Lemma 4 for Fraction/Product/Sum, Lemma 1 for a plain probability, over the graph's order restricted to the sub-graph's variables"),
        ("R17.1", f"{TI}.identify_district_variables", "identify", {"input_variables": FS, "input_district": FS, "district_probability": E, "graph": G, "topo": L}, H,
         "identify-cases", "IDENTIFY: A = An(C) in G[T]; A = C -> Lemma 3 on Q[T]; A = T -> FAIL; otherwise recurse on (C, T', Q[T']) with T' the district of G[A] that "
         "contains C and Q[T'] the c-factor of T' in Q[A]; Q[A] is Lemma 3 of a compound Q[T], else the joint over A keeping Q[T]'s conditioning variables and population"),
    ]
    run_table(model, rep, table, "yvref.c17", mk, sa, construct=construct, loc=loc)
    f = model.func(f"{TI}.identify_district_variables")
    ev = _ev(model, H)
    paths = ev.run(f, {"input_variables": typed(ev, "input_variables", FS), "input_district": typed(ev, "input_district", FS),
                       "district_probability": typed(ev, "district_probability", E), "graph": typed(ev, "graph", G), "topo": typed(ev, "topo", L)})
    # ---------------------------------------------------------------- R17.6 the routines are functions of their arguments
    from ..effects import Effects
    eff = Effects(model)
    for q in ("identify_district_variables", "compute_c_factor", "compute_ancestral_set_q_value", "compute_c_factor_conditioning_on_topological_predecessors",
              "compute_c_factor_marginalizing_over_topological_successors"):
        fq = model.func(f"{TI}.{q}")
        sm = eff.summary(fq)
        if sm.mutates:
            p_, es = next(iter(sm.mutates.items()))
            rep.refuted("R17.6", construct(fq, "stateless"), f"modifies `{p_}` ({es[0].how}): the answer can depend on earlier calls (e.g. a memo keyed without the graph) or the caller's data is changed", loc(fq, es[0].line))
        else:
            rep.proven("R17.6", construct(fq, "stateless"), loc=loc(fq))
    # other raises are input validation only (conditions mention parameters only)
    bad = [p for p in paths if p.kind == "raise" and exc_name(p) not in ("KeyError", "TypeError", "NotImplementedError")]
    (rep.refuted if bad else rep.proven)("R17.1", construct(f, "validation-only-raises"), "unexpected exception " + exc_name(bad[0]) if bad else "", loc(f))
