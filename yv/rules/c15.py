"""C15 -- implied conditional independencies are enumerated exactly.

R15.4  stateless: the enumeration and the graph operations under it keep nothing between calls.

R15.1  every unordered pair once (combinations(V, 2)), conditioning sets drawn from V ∖ {a, b}, each tested with
       are_d_separated on the same graph; only separated judgements are yielded; first hit per pair ends the search.
R15.2  size schedule and bound: powerset yields sizes in increasing order from 0; for an inclusive limit k the largest
       size is k (partial evaluation with k = None, 0, 1, 3), and powerset's own `stop` is an exclusive bound it does not lower.
R15.3  one judgement per pair, minimum size first: minimal() groups by (left, right) with one key for sort and groupby and
       takes min by a policy whose first component is the number of conditions.
Soundness/completeness of each verdict is C04 (its pipeline rules are re-run here).
"""

from __future__ import annotations

from ..model import AnalysisError, Model
from ..report import Report
from ..setalg import SetAlg, compare, f_and, f_not, show_row
from ..symeval import Evaluator
from ..terms import NONE, Term, const, show, subterms, var
from .common import GRAPH_PRIMS, VARIABLE, construct, graph_rewrite, graph_var, loc, return_paths, rewriter, short, typed, kwargs_of
from . import c04

CI = "y0.algorithm.conditional_independencies"
PS = "y0.util.combinatorics.powerset"


def run(model: Model, rep: Report, tier: str) -> None:
    rep.level = "other"
    rep.explanation = (
        "d_separations is partially evaluated for max_conditions ∈ {None, 0, 1, 3}: the evaluator folds the constant through the "
        "call site, so the exclusive bound handed to powerset is read off as a number (None, 1, 2, 4 expected). powerset itself is "
        "evaluated with a symbolic stop: its range() bounds must be (start, stop) unchanged, ascending. The generator's value is one "
        "term: a concatenation over combinations(V, 2) of a first-hit search (break flag) over powerset(V ∖ {a,b}) filtered by "
        ".separated. minimal() is checked for one grouping key and a size-first policy. Truth of each verdict is C04's rules, re-run."
    )
    rep.trusted_base = ["itertools.combinations/groupby/chain, range", "C04 (re-run here)"]
    rep.floors = {"R15.1": 2, "R15.2": 1, "R15.3": 1, "R15.4": 5, "R4.1": 1}
    from ..refcmp import load_reference, run_table
    from .common import NXMG

    load_reference(model, "yvref.c15", "c15_ref.py")
    sa = SetAlg(rewrite=rewriter(graph_rewrite))
    G = ("cls", NXMG)
    J = ("cls", "y0.struct.DSeparationJudgement")
    OI = ("union", ("int", "none"))

    def mk(model_, prims):
        return lambda: Evaluator(model_, primitives=set(GRAPH_PRIMS) | set(prims))

    words = ("every unordered pair of nodes once; conditioning sets drawn from V ∖ {a, b} through powerset with the exclusive bound max_conditions + 1 "
             "(no bound without a limit), smallest first; each tested by are_d_separated on the same graph; only separations are reported")
    table = [
        ("R15.1", f"{CI}.d_separations", "implied_separations", {"graph": G, "max_conditions": OI, "verbose": "bool", "return_all": ("const", False)},
         {f"{CI}.are_d_separated", PS}, "enumeration:first-per-pair", words + "; the search for a pair ends at its first separating set"),
        ("R15.1", f"{CI}.d_separations", "implied_separations", {"graph": G, "max_conditions": OI, "verbose": "bool", "return_all": ("const", True)},
         {f"{CI}.are_d_separated", PS}, "enumeration:all", words + "; every separating set within the bound is reported when all are asked for"),
        ("R15.2", PS, "subsets_by_size", {"iterable": ("iter", None), "start": "int", "stop": OI, "reverse": "bool", "use_tqdm": "bool", "tqdm_kwargs": None}, (),
         "size-schedule", "subsets of size start, ..., stop-1 in this order (stop exclusive and never lowered; without it every size up to the whole set); "
         "decreasing sizes only on request"),
        ("R15.3", f"{CI}.minimal", "one_per_pair", {"judgements": ("iter", J), "policy": None}, (), "one-per-pair",
         "one judgement per (left, right): input sorted and grouped by the SAME pair key, each group reduced to its policy-minimum; default policy = fewest conditions first"),
    ]
    run_table(model, rep, table, "yvref.c15", mk, sa, construct=construct, loc=loc)
    _powerset_small_scope(model, rep)
    # the topological policy orders by the number of conditions first, too
    pfn = model.func(f"{CI}._topological_policy") if model.has_func(f"{CI}._topological_policy") else None
    if pfn is not None:
        ev = Evaluator(model)
        j = typed(ev, "judgement", J)
        rets = return_paths(ev.run(pfn, {"judgement": j, "order": var("order")}))
        ok = bool(rets) and all(r.value[0] == "tuplelit" and r.value[1] and r.value[1][0] == ("len", ("attr", j, "conditions")) for r in rets)
        (rep.proven if ok else rep.refuted)("R15.3", construct(pfn, "size-first"), "" if ok else
                                            "the topological policy does not order by the number of conditions first (the kept set need not have minimum size)", loc(pfn))
    # the enumeration is a function of the graph as it is NOW: neither it nor the graph operations it relies on keep anything between calls
    from .common import stateless_obligations
    stateless_obligations(model, rep, "R15.4", [f"{CI}.d_separations", f"{CI}.get_conditional_independencies", f"{CI}.minimal", PS,
                                                 f"{NXMG}.ancestors_inclusive", f"{NXMG}.subgraph", f"{NXMG}.nodes"],
                          "implied independencies computed after the graph was extended can be those of the old graph")
    # verdicts: C04's pipeline
    c04.analyse_are_d_separated(model, rep)


def _powerset_small_scope(model: Model, rep: Report) -> None:
    """R15.2 on literal inputs: the routine is evaluated (constant folding over a literal pool of 0..3 elements and literal bounds) and its value, a
    literal list, is compared with the subsets of size start..stop-1 in order -- this sees what the symbolic comparison leaves open, e.g. an early
    return for an empty pool that forgets the empty set itself."""
    import itertools

    from ..terms import NONE, const

    if not model.has_func(PS):
        return
    f = model.func(PS)
    cons = construct(f, "size-schedule:small-scope")
    problems, undecided, n_cfg = [], 0, 0
    for n in range(0, 4):
        pool = [chr(ord("a") + i) for i in range(n)]
        for start in range(0, 3):
            for stop in (None, 0, 1, 2, 3, 4):
                for reverse in (False, True):
                    n_cfg += 1
                    ev = Evaluator(model)
                    args = {"iterable": ("tuplelit", tuple(const(x) for x in pool)), "start": const(start), "stop": NONE if stop is None else const(stop),
                            "reverse": const(reverse), "use_tqdm": const(False), "tqdm_kwargs": NONE}
                    args = {k: v for k, v in args.items() if k in f.params}
                    try:
                        ps = ev.run(f, args)
                    except Exception:  # noqa: BLE001
                        undecided += 1
                        continue
                    hi = n + 1 if stop is None else stop
                    sizes = [(n - r) if reverse else r for r in range(start, hi)]
                    if any(k < 0 for k in sizes):
                        continue  # combinations() refuses a negative size: outside the documented use
                    want = [tuple(c) for k in sizes for c in itertools.combinations(pool, k)]
                    if len(ps) != 1 or ps[0].kind != "return" or ps[0].conds:
                        undecided += 1
                        continue
                    v = ps[0].value
                    while v[0] == "call" and v[1] in ("list", "tuple", "iter") and len(v[2]) == 1:
                        v = v[2][0]
                    if v[0] not in ("listlit", "tuplelit") or not all(x[0] in ("tuplelit", "listlit") and all(y[0] == "const" for y in x[1]) for x in v[1]):
                        undecided += 1
                        continue
                    got = [tuple(y[1] for y in x[1]) for x in v[1]]
                    if got != want:
                        problems.append(f"powerset({pool}, start={start}, stop={stop}, reverse={reverse}) yields {got[:4]}{'…' if len(got) > 4 else ''} "
                                        f"({len(got)} subsets), the definition gives {want[:4]}{'…' if len(want) > 4 else ''} ({len(want)})")
    if problems:
        rep.refuted("R15.2", cons, "; ".join(problems[:2]) + (" -- for a pair of nodes with nothing else in the graph the empty conditioning set is never tried, so "
                    "a marginal independence is not reported" if any("[]" in p_.split("yields")[0] for p_ in problems[:2]) else ""), loc(f),
                    sample={"configurations": n_cfg, "violating": len(problems)})
    elif undecided:
        rep.unknown("R15.2", cons, f"{undecided} of {n_cfg} literal configurations do not fold to a literal list (idiom outside the folding rules)", loc(f), required=False)
    else:
        rep.proven("R15.2", cons, loc=loc(f), sample={"configurations": n_cfg})
