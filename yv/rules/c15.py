"""C15 -- implied conditional independencies are enumerated exactly.

R15.1  every unordered pair once (combinations(V, 2)), conditioning sets drawn from V ∖ {a, b}, each tested with
       are_d_separated on the same graph; only separated judgements are yielded; first hit per pair ends the search.
R15.2  size schedule and bound: powerset yields sizes in increasing order from 0; for an inclusive limit k the largest
       size is k (partial evaluation with k = None, 0, 1, 3), and powerset's own `stop` is an exclusive bound it does not lower.
R15.3  one judgement per pair, minimum size first: minimal() groups by (left, right) with one key for sort and groupby and
       takes min by a policy whose first component is the number of conditions.
Soundness/completeness of each verdict is C04 (its pipeline rules are re-run here).
"""

from __future__ import annotations

from ..model import AnalysisError, Model
from ..report import Report
from ..setalg import SetAlg, compare, f_and, f_not, show_row
from ..symeval import Evaluator
from ..terms import NONE, Term, const, show, subterms, var
from .common import GRAPH_PRIMS, VARIABLE, construct, graph_rewrite, graph_var, loc, return_paths, rewriter, short, typed, kwargs_of
from . import c04

CI = "y0.algorithm.conditional_independencies"
PS = "y0.util.combinatorics.powerset"


def run(model: Model, rep: Report, tier: str) -> None:
    rep.level = "other"
    rep.explanation = (
        "d_separations is partially evaluated for max_conditions ∈ {None, 0, 1, 3}: the evaluator folds the constant through the "
        "call site, so the exclusive bound handed to powerset is read off as a number (None, 1, 2, 4 expected). powerset itself is "
        "evaluated with a symbolic stop: its range() bounds must be (start, stop) unchanged, ascending. The generator's value is one "
        "term: a concatenation over combinations(V, 2) of a first-hit search (break flag) over powerset(V ∖ {a,b}) filtered by "
        ".separated. minimal() is checked for one grouping key and a size-first policy. Truth of each verdict is C04's rules, re-run."
    )
    rep.trusted_base = ["itertools.combinations/groupby/chain, range", "C04 (re-run here)"]
    rep.floors = {"R15.1": 1, "R15.2": 6, "R15.3": 3, "R4.1": 1, "R4.2": 1}
    f = model.func(f"{CI}.d_separations")
    sa = SetAlg(rewrite=rewriter(graph_rewrite))
    x = var("%x")
    expected_stop = {None: NONE, 0: const(1), 1: const(2), 3: const(4)}
    pipeline_done = False
    for k, want in expected_stop.items():
        ev = Evaluator(model, primitives=set(GRAPH_PRIMS) | {f"{CI}.are_d_separated", PS})
        G = graph_var(ev, "graph")
        rets = return_paths(ev.run(f, {"graph": G, "max_conditions": const(k)}))
        cons = construct(f, f"size-bound:k={k}")
        if len(rets) != 1:
            rep.unknown("R15.2", cons, f"{len(rets)} return paths", loc(f))
            continue
        v = rets[0].value
        calls = [s for s in subterms(v) if s[0] == "call" and s[1] == PS]
        if not calls:
            rep.unknown("R15.2", cons, "no powerset(...) call found", loc(f))
            continue
        kw = kwargs_of(calls[0])
        stop, start, rev = kw.get("stop"), kw.get("start"), kw.get("reverse")
        problems = []
        if stop != want:
            exp = "None (no limit)" if want == NONE else f"{want[1]} (exclusive) so that sets of size {k} are still tried"
            problems.append(f"with max_conditions={k} the exclusive bound passed to powerset is {show(stop)}, expected {exp}")
        if start != const(0):
            problems.append(f"search does not start with the empty conditioning set (start={show(start)})")
        if rev not in (const(False), None):
            problems.append("sizes are enumerated in decreasing order (first hit is not a minimum-size set)")
        (rep.refuted if problems else rep.proven)("R15.2", cons, "; ".join(problems), loc(f), sample={"powerset call": short(show(calls[0]), 240)})
        if pipeline_done:
            continue
        pipeline_done = True
        # ---- R15.1 on the (k=None) term
        cons = construct(f, "enumeration")
        problems = []
        t = v
        while t[0] == "call" and t[1] == "iter":
            t = t[2][0]
        if not (t[0] == "accum" and t[1] == "concat" and t[2] == ("listlit", ())):
            problems.append("generator is not one loop over node pairs: " + short(show(t), 120))
        else:
            (pat, it, conds), = t[4]
            core = it
            while core[0] == "call" and core[1].split(".")[-1] in ("tqdm", "list", "iter", "sorted") and core[2]:
                core = core[2][0]
            if not (core[0] == "call" and core[1].endswith("combinations") and core[2][1] == const(2) and sa.canon_top(("setof", core[2][0])) == sa.canon_top(("setof", ("V", G)))):
                problems.append("pairs are not combinations(V(G), 2) (each unordered pair exactly once): " + short(show(core), 120))
            if conds:
                problems.append("pairs are filtered")
            inner = t[3]
            if not (inner[0] == "accum" and inner[1] == "concat"):
                problems.append("no inner search over conditioning sets")
            else:
                (cpat, cit, cconds), = inner[4]
                a_, b_ = pat[1] if pat[0] == "tuplelit" else (None, None)
                if inner[5] != const(True):
                    problems.append("the search does not stop at the first separating set of a pair (several judgements per pair, not minimum-first)")
                if not (cit[0] == "call" and cit[1] == PS):
                    problems.append("conditioning sets do not come from powerset")
                else:
                    pool = kwargs_of(cit).get("iterable")
                    want_pool = f_and(sa.member(x, ("V", G)), f_not(sa.eq_atom(x, a_)), f_not(sa.eq_atom(x, b_)))
                    eq, row, _ = compare(sa.member(x, pool), want_pool)
                    if not eq:
                        problems.append(f"conditioning sets are not drawn from V ∖ {{a, b}}: differs for a node with [{show_row(row)}]")
                payload = inner[3]
                j = payload[1][0] if payload[0] == "listlit" and len(payload[1]) == 1 else None
                if not (j and j[0] == "call" and j[1] == f"{CI}.are_d_separated"):
                    problems.append("yielded value is not the judgement of are_d_separated")
                else:
                    jk = kwargs_of(j)
                    if jk.get("graph") != G or {jk.get("a"), jk.get("b")} != {a_, b_} or jk.get("conditions") != cpat:
                        problems.append("are_d_separated is not called with (graph, a, b, the enumerated set)")
                    if tuple(cconds) != (("attr", j, "separated"),) and tuple(cconds) != (("truth", ("attr", j, "separated")),):
                        problems.append("a judgement is yielded without testing that it is a separation: " + short(show(cconds), 100))
        (rep.refuted if problems else rep.proven)("R15.1", cons, "; ".join(problems), loc(f), sample={"generator": short(show(v), 500)})
    # ---- powerset's own contract
    pf = model.func(PS)
    ev = Evaluator(model)
    it_ = typed(ev, "iterable", ("iter", None))
    s_ = typed(ev, "stop", "int")
    st_ = typed(ev, "start", "int")
    for revflag in (False,):
        rets = return_paths(ev.run(pf, {"iterable": it_, "start": st_, "stop": s_, "reverse": const(revflag), "use_tqdm": const(False)}))
        cons = construct(pf, "exclusive-bound")
        problems = []
        for r in rets:
            rngs = [s for s in subterms(r.value) if s[0] == "call" and s[1] == "range"]
            if not rngs:
                problems.append("no range(start, stop) schedule")
            for g in rngs:
                if len(g[2]) != 2 or g[2][0] != st_:
                    problems.append(f"sizes start at {show(g[2][0]) if g[2] else '?'}, not at `start`")
                elif g[2][1] != s_:
                    up = g[2][1]
                    if up[0] == "call" and up[1] == "min" and s_ in up[2]:
                        other = [z for z in up[2] if z != s_][0]
                        # min(stop, n+1) is harmless, min(stop, n) loses the full set
                        if not (other[0] == "op" and other[1] == "+" and other[3] == const(1)):
                            problems.append(f"an explicit `stop` is lowered to {show(up)}: the set of all remaining nodes (size n) is never tried")
                    else:
                        problems.append(f"the exclusive bound is {show(up)}, not the given `stop`")
            combos = [s for s in subterms(r.value) if s[0] == "call" and s[1].endswith("combinations")]
            for c in combos:
                if c[2][1][0] != "var":
                    problems.append("sizes are not the loop index r (ascending)")
        (rep.refuted if problems else rep.proven)("R15.2", cons, "; ".join(sorted(set(problems))), loc(pf))
    ev = Evaluator(model)
    it_ = typed(ev, "iterable", ("iter", None))
    rets = return_paths(ev.run(pf, {"iterable": it_, "start": const(0), "stop": NONE, "reverse": const(False), "use_tqdm": const(False)}))
    ok = bool(rets) and all(any(s[0] == "call" and s[1] == "range" and len(s[2]) == 2 and s[2][1][0] == "op" and s[2][1][1] == "+" and s[2][1][3] == const(1) and s[2][1][2][0] == "len" for s in subterms(r.value)) for r in rets)
    (rep.proven if ok else rep.refuted)("R15.2", construct(pf, "no-limit"), "" if ok else "without a limit the bound must be len(s) + 1 (sizes up to the whole set)", loc(pf))
    # ---- R15.3 minimal
    mf = model.func(f"{CI}.minimal")
    ev = Evaluator(model)
    J = typed(ev, "judgements", ("iter", ("cls", "y0.struct.DSeparationJudgement")))
    pol = var("policy")
    rets = return_paths(ev.run(mf, {"judgements": J, "policy": pol}))
    problems = []
    for r in rets:
        v = r.value
        if not (v[0] == "comp" and v[1] == "set"):
            problems.append("result is not one element per group")
            continue
        (pat, it, conds), = v[3]
        if not (it[0] == "call" and it[1].endswith("groupby")):
            problems.append("judgements are not grouped")
            continue
        srt = it[2][0]
        gkey = it[2][1] if len(it[2]) > 1 else dict(it[3]).get("key")
        skey = dict(srt[3]).get("key") if srt[0] == "call" and srt[1] == "sorted" else None
        if srt[0] != "call" or srt[1] != "sorted" or skey != gkey or gkey is None:
            problems.append("groupby needs its input sorted by the same key it groups by (otherwise a pair appears in several groups)")
        elt = v[2]
        if not (elt[0] == "call" and elt[1] == "min" and dict(elt[3]).get("key") is not None):
            problems.append("a group is not reduced to its policy-minimum")
    (rep.refuted if problems or not rets else rep.proven)("R15.3", construct(mf, "one-per-pair"), "; ".join(sorted(set(problems))), loc(mf))
    gk = model.func(f"{CI}._judgement_grouper")
    ev = Evaluator(model)
    j = typed(ev, "judgement", ("cls", "y0.struct.DSeparationJudgement"))
    rets = return_paths(ev.run(gk, {"judgement": j}))
    ok = len(rets) == 1 and rets[0].value == ("tuplelit", (("attr", j, "left"), ("attr", j, "right")))
    (rep.proven if ok else rep.refuted)("R15.3", construct(gk, "pair-key"), "" if ok else "groups are not keyed by exactly (left, right)", loc(gk))
    for q in (f"{CI}._len_lex", f"{CI}._topological_policy"):
        pfn = model.func(q)
        ev = Evaluator(model)
        j = typed(ev, "judgement", ("cls", "y0.struct.DSeparationJudgement"))
        rets = return_paths(ev.run(pfn, {"judgement": j}))
        ok = bool(rets) and all(r.value[0] == "tuplelit" and r.value[1] and r.value[1][0] == ("len", ("attr", j, "conditions")) for r in rets)
        (rep.proven if ok else rep.refuted)("R15.3", construct(pfn, "size-first"), "" if ok else "built-in policy does not order by the number of conditions first (the kept set need not have minimum size)", loc(pfn))
    # verdicts: C04's pipeline
    c04.analyse_are_d_separated(model, rep)
