"""Shared machinery for the ID family (C01, C02, C03, C06): evaluation of `identify`, canonical rewriting,
the published line table of Shpitser & Pearl (2006) as reference terms, path matching."""

from __future__ import annotations

from ..model import Model
from ..setalg import SetAlg, compare, f_and, f_not, f_or, show_formula, show_row
from ..symeval import Evaluator, Path
from ..terms import EMPTY, NONE, Term, const, mapterm, show, subterms, var
from .common import GRAPH_PRIMS, NXMG, graph_rewrite, rewriter, typed
from .dslcommon import DSL_PRIMS

ID = "y0.algorithm.identify"
IDENT = f"{ID}.utils.Identification"
QUERY = f"{ID}.utils.Query"
IDENTIFY = f"{ID}.id_std.identify"
ID_PRIMS = set(GRAPH_PRIMS) | set(DSL_PRIMS) | {f"{ID}.utils.str_nodes_to_variable_nodes", "y0.graph._ensure_set"}
ID_PRIM_METHODS = {"__mul__", "__truediv__", "__or__", "__and__", "__matmul__", "given", "normalize_marginalize", "marginalize", "conditional"}


def id_rewrite(t: Term) -> Term | None:
    h = t[0]
    if h == "call" and t[1] == "y0.graph._ensure_set":
        kw = dict(t[3])
        x = kw.get("vertices", t[2][0] if t[2] else None)
        if x is not None:
            return ("setof", x)
    if h == "call" and str(t[1]).endswith("str_nodes_to_variable_nodes"):
        kw = dict(t[3])
        g = kw.get("graph", t[2][0] if t[2] else None)
        if g is not None:
            return g
    if h == "op" and t[1] == "/" and t[3][0] == "meth" and t[3][2] == "marginalize" and t[3][1] == t[2]:
        # e / e.marginalize(r) is e.normalize_marginalize(r)  (that identity is R13.4's obligation for normalize_marginalize)
        kw = dict(t[3][4])
        r_ = kw.get("ranges", t[3][3][0] if t[3][3] else None)
        if r_ is not None:
            return ("meth", t[2], "normalize_marginalize", (), (("ranges", r_),))
    if h == "meth" and t[2] in ("remove_in_edges", "remove_out_edges") and t[1][0] == "meth" and t[1][2] in ("remove_in_edges", "remove_out_edges") \
            and t[1][2] > t[2]:
        # removing edges into one set and edges out of another commute: one order is kept
        return ("meth", ("meth", t[1][1], t[2], t[3], t[4]), t[1][2], t[1][3], t[1][4])
    if h == "meth" and t[2] == "pop" and not t[3] and t[1][0] == "meth" and t[1][2] == "districts":
        return ("the", t[1])
    if h == "index" and t[2] == const(0):
        src = t[1]
        while src[0] == "call" and src[1] in ("list", "tuple", "sorted") and len(src[2]) == 1:
            src = src[2][0]
        if src[0] == "setof":
            src = src[1]
        if src[0] == "meth" and src[2] == "districts":
            # `(d,) = districts` / `list(districts)[0]`: the single district
            return ("the", src)
    if h == "call" and t[1] == "next" and t[2] and t[2][0][0] == "call" and t[2][0][1] == "iter" and t[2][0][2] and t[2][0][2][0][0] == "meth" and t[2][0][2][0][2] == "districts":
        return ("the", t[2][0][2][0])
    if h == "slice" and t[2] == NONE and t[3][0] == "meth" and t[3][2] == "index" and len(t[3][3]) == 1:
        a, b = _unlist(t[1]), _unlist(t[3][1])
        if a == b:
            return ("before", a, t[3][3][0])
    if h == "call" and t[1] == "y0.dsl.P" and len(t[2]) == 1 and not t[3] and t[2][0][0] == "op" and t[2][0][1] == "|":
        v, par = t[2][0][2], t[2][0][3]
        if par[0] == "before" and par[2] == v:
            return ("CONDP", v, par[1])
    if h == "op" and t[1] == "/" and t[2][0] == "SUM" and t[3][0] == "SUM" and t[2][1] == t[3][1]:
        # Σ_{after v} E / Σ_{v and after} E  over one order π: the conditional of E for v given its predecessors
        def zone(r):
            r = r[1] if r[0] == "setof" else r
            if r[0] in ("listlit", "tuplelit") and len(r[1]) == 2 and r[1][1][0] == "star":
                # [v, *π[i+1:]]  =  π[i:]  (v itself followed by its successors)
                v0, rest = r[1][0], r[1][1][1]
                z = zone(rest)
                if z and z[0] == "GT" and z[2] == v0:
                    return ("EQ,GT", z[1], z[2])
                return None
            if r[0] in ("concat",) and r[1][0] in ("listlit", "tuplelit") and len(r[1][1]) == 1:
                z = zone(r[2])
                if z and z[0] == "GT" and z[2] == r[1][1][0]:
                    return ("EQ,GT", z[1], z[2])
                return None
            if r[0] == "slice" and r[3] == NONE:
                lo = r[2]
                if lo[0] == "meth" and lo[2] == "index" and _unlist(lo[1]) == _unlist(r[1]) and len(lo[3]) == 1:
                    return ("EQ,GT", _unlist(r[1]), lo[3][0])
                if lo[0] == "op" and lo[1] == "+" and lo[3] == const(1) and lo[2][0] == "meth" and lo[2][2] == "index" and _unlist(lo[2][1]) == _unlist(r[1]) and len(lo[2][3]) == 1:
                    return ("GT", _unlist(r[1]), lo[2][3][0])
            return None
        zn, zd = zone(t[2][2]), zone(t[3][2])
        if zn and zd and zn[0] == "GT" and zd[0] == "EQ,GT" and zn[1:] == zd[1:]:
            return ("CONDP", zn[2], zn[1], t[2][1])
    if h == "ite" and t[2][0] == "CONDP" and t[3][0] == "CONDP" and t[2][1:3] == t[3][1:3]:
        # shortcut (observational joint) and generic form agree on what they denote
        return ("CONDP", t[2][1], t[2][2], ("shortcut-on", t[1], t[3][3] if len(t[3]) > 3 else (t[2][3] if len(t[2]) > 3 else None)))
    if h == "rec" and t[1] == QUERY:
        f = dict(t[2])
        cnd = f.get("conditions")
        while cnd is not None and cnd[0] == "call" and str(cnd[1]).endswith("_ensure_set") and (cnd[2] or cnd[3]):
            cnd = dict(cnd[3]).get("vertices", cnd[2][0] if cnd[2] else None)
        if cnd is None or cnd == NONE or cnd == EMPTY or cnd == ("setlit", ()) or (cnd[0] == "setof" and cnd[1] in (EMPTY, NONE)):
            return ("QUERY", f.get("outcomes"), f.get("treatments"))
        return ("QUERY", f.get("outcomes"), f.get("treatments"), cnd)
    if h == "rec" and t[1] == IDENT:
        f = dict(t[2])
        q = f.get("query")
        return ("IDENT", q, f.get("graph"), f.get("estimand"))
    if h == "orelse" and t[2] in (EMPTY, ("setlit", ())):
        return t[1]
    if h == "call" and str(t[1]).endswith("Sum.safe"):
        kw = dict(t[3])
        if kw.get("simplify", const(False)) == const(False):
            return ("SUM", kw.get("expression"), ("setof", kw.get("ranges")))
    if h == "call" and str(t[1]).endswith("Product.safe"):
        kw = dict(t[3])
        ex = kw.get("expressions", t[2][0] if t[2] else None)
        # the factors of a product are a multiset: list / tuple / generator spellings are the same
        while ex is not None and ex[0] == "call" and ex[1] in ("list", "tuple", "iter") and len(ex[2]) == 1:
            ex = ex[2][0]
        if ex is not None and ex[0] == "comp" and ex[1] in ("list", "set"):
            ex = ("comp", "gen") + tuple(ex[2:])
        return ("PROD", ex)
    # len(districts(H)) tests  ->  the single atom CONNECTED(H)   (axiom A1: H non-empty)
    if h in ("le", "lt", "eq", "ne"):
        a, b = t[1], t[2]
        for x, y, flip in ((a, b, False), (b, a, True)):
            if x[0] == "len" and x[1][0] == "meth" and x[1][2] == "districts" and y[0] == "const" and isinstance(y[1], int):
                H = x[1][1]
                n = y[1]
                op = h
                if flip:
                    op = {"le": "ge", "lt": "gt", "eq": "eq", "ne": "ne"}[h]
                conn = ("CONNECTED", H)
                if (op, n) in (("le", 1), ("eq", 1), ("lt", 2)):
                    return conn
                if (op, n) in (("ne", 1), ("gt", 1), ("ge", 2)):
                    return ("not", conn)
    if h == "meth" and t[2] == "is_connected" and not t[3]:
        return ("CONNECTED", t[1])
    if h == "eq" and t[1][0] == "meth" and t[1][2] == "districts" and t[2][0] == "setlit" and len(t[2][1]) == 1:
        # districts(G) == {frozenset(V)}
        return ("CONNECTED", t[1][1])
    return None


def _unlist(t: Term) -> Term:
    while t[0] == "call" and t[1] in ("list", "tuple") and t[2]:
        t = t[2][0]
    return t


def make_sa() -> SetAlg:
    return SetAlg(rewrite=rewriter(graph_rewrite, id_rewrite))


def evaluate_identify(model: Model):
    ev = Evaluator(model, primitives=set(ID_PRIMS) | {"y0.dsl.P"}, prim_methods=set(ID_PRIM_METHODS))
    ident = typed(ev, "identification", ("cls", IDENT))
    f = model.func(IDENTIFY)
    paths = [witness_normalise(p) for p in ev.run(f, {"identification": ident})]
    return f, ev, ident, paths


def quantifier_of(rets: list) -> Term | None:
    """A boolean function written as a search loop  `for y in S: if not c(y): return False` / `return True`  is  all(c(y) for y in S)
    (dually any).  Returns the quantified term, or None when the return paths are not of that form."""
    from ..terms import FALSE, TRUE
    if len(rets) == 1:
        return rets[0].value
    if len(rets) != 2:
        return None
    by_val = {p.value: p for p in rets}
    pt, pf = by_val.get(TRUE), by_val.get(FALSE)
    if pt is None or pf is None:
        return None
    for early, late, q in ((pf, pt, "all"), (pt, pf, "any")):
        ie = [c for c in early.conds if c[0] == "iter-elem"]
        fa = [c for c in late.conds if c[0] == "forall-not"]
        if len(ie) != 1 or len(fa) != 1:
            continue
        pat, it = ie[0][1], ie[0][2]
        body = [c for c in early.conds[early.conds.index(ie[0]) + 1:]]
        if fa[0][2] != it or len(body) != 1:
            continue
        c = body[0]
        if q == "all":
            c = c[1] if c[0] == "not" else ("not", c)
        return (q, ("comp", "gen", c, ((pat, it, ()),)))
    return None


def witness_normalise(p: Path) -> Path:
    """`L = [d for d in D if c(d)]; if not L: <fail>; d = L[0]; ...`  is the search loop  `for d in D: if c(d): ...`:
    a guard `nonempty(L)` together with uses of L[0] becomes a witness `d ∈ D, c(d)`; a guard `not L` becomes `no d ∈ D has c(d)`."""
    from dataclasses import replace as _replace
    from ..terms import subst as _subst
    conds = list(p.conds)
    value = p.value
    changed = False
    for i, c in enumerate(list(conds)):
        neg = c[0] == "not"
        core = c[1] if neg else c
        if core[0] == "isnone" and core[1][0] == "call" and core[1][1] == "next" and len(core[1][2]) == 2 and core[1][2][1] == NONE:
            # z = next((x for x in S if c(x)), None); `z is None` = no x in S has c(x); otherwise z is a witness
            nx_ = core[1]
            src = nx_[2][0]
            while src[0] == "call" and src[1] in ("iter", "list", "tuple") and len(src[2]) == 1:
                src = src[2][0]
            if src[0] == "comp" and len(src[3]) == 1 and src[2] == src[3][0][0] and src[3][0][0][0] == "var":
                pat, it, cs = src[3][0]
                if not neg:
                    conds[i] = ("forall-not", pat, it, tuple(cs))
                else:
                    m = {nx_: pat}
                    conds[i] = ("iter-elem", pat, it)
                    conds[i + 1:i + 1] = list(cs)
                    conds = [_subst(x, m) for x in conds]
                    value = _subst(value, m)
                changed = True
            continue
        if core[0] != "truth":
            continue
        L = core[1]
        src = L
        while src[0] == "call" and src[1] in ("list", "tuple") and len(src[2]) == 1:
            src = src[2][0]
        if not (src[0] == "comp" and src[1] in ("list", "gen") and len(src[3]) == 1 and src[2] == src[3][0][0] and src[3][0][0][0] == "var"):
            continue
        pat, it, cs = src[3][0]
        if neg:
            conds[i] = ("forall-not", pat, it, tuple(cs))
            changed = True
        else:
            first = ("index", L, const(0))
            if any(s_ == first for s_ in subterms((value, tuple(conds)))):
                m = {first: pat}
                conds[i] = ("iter-elem", pat, it)
                conds[i + 1:i + 1] = list(cs)
                conds = [_subst(x, m) for x in conds]
                value = _subst(value, m)
                changed = True
    return _replace(p, conds=tuple(conds), value=value) if changed else p


class Ref:
    """Reference terms of the published algorithm over the same atoms as the implementation."""

    def __init__(self, ident: Term) -> None:
        self.I = ident
        self.G = ("attr", ident, "graph")
        self.q = ("attr", ident, "query")
        self.X = ("attr", self.q, "treatments")
        self.Y = ("attr", self.q, "outcomes")
        self.P = ("attr", ident, "estimand")
        self.V = ("setof", ("V", self.G))

    def m(self, recv, name, **kw):
        return ("meth", recv, name, (), tuple(sorted(kw.items())))

    def An(self, g, s):
        return self.m(g, "ancestors_inclusive", sources=s)

    def ident(self, outcomes, treatments, estimand, graph):
        return ("IDENT", ("QUERY", ("setof", outcomes), ("setof", treatments)), graph, estimand)

    def recurse(self, i):
        return ("recurse", IDENTIFY, (i,), ())

    def cond_p(self, v, graph):
        return ("CONDP", v, self.m(graph, "topological_sort"))

    def lines(self):
        G, X, Y, P, V = self.G, self.X, self.Y, self.P, self.V
        An = self.An(G, Y)
        notAn = ("diff", V, An)
        GX = self.m(G, "remove_in_edges", vertices=X)
        W = ("diff", ("diff", V, X), self.An(GX, Y))
        H = self.m(G, "remove_nodes_from", vertices=X)
        CH, CG = ("CONNECTED", H), ("CONNECTED", G)
        S = ("the", self.m(H, "districts"))
        DG = self.m(G, "districts")
        s_ = var("%s")
        v_ = var("%v")
        d_ = var("%d")
        tX, tN, tW = ("truth", X), ("truth", notAn), ("truth", W)
        out = {}
        out["line1"] = ([("not", tX)], "return", ("SUM", P, ("diff", V, Y)))
        out["line2"] = ([tX, tN], "return", self.recurse(self.ident(Y, ("inter", X, An), ("SUM", P, notAn), self.m(G, "subgraph", vertices=An))))
        out["line3"] = ([tX, ("not", tN), tW], "return", self.recurse(self.ident(Y, ("union", X, W), P, G)))
        subq = ("comp", "gen", self.recurse(self.ident(s_, ("diff", V, s_), P, G)), ((s_, self.m(H, "districts"), ()),))
        out["line4"] = ([tX, ("not", tN), ("not", tW), ("not", CH)], "return",
                        ("SUM", ("PROD", subq), ("diff", V, ("union", Y, X))))
        out["line5"] = ([tX, ("not", tN), ("not", tW), CH, CG], "raise", "Unidentifiable")
        fac6 = ("comp", "gen", self.cond_p(v_, G), ((v_, S, ()),))
        out["line6"] = ([tX, ("not", tN), ("not", tW), CH, ("not", CG), ("in", S, DG)], "return", ("SUM", ("PROD", fac6), ("diff", S, Y)))
        fac7 = ("comp", "gen", self.cond_p(v_, G), ((v_, d_, ()),))
        out["line7"] = ([tX, ("not", tN), ("not", tW), CH, ("not", CG), ("not", ("in", S, DG)), ("iter-elem", d_, DG), ("psubset", S, d_)], "return",
                        self.recurse(self.ident(Y, ("inter", X, d_), ("PROD", fac7), self.m(G, "subgraph", vertices=d_))))
        return out


def canon_conds(sa: SetAlg, conds) -> tuple:
    """Canonical, alpha-insensitive rendering of a conjunction of path conditions."""
    f = f_and(*[sa.cond(sa.rewrite(c)) for c in conds])
    return f


def rename_bound(t: Term, mapping: dict) -> Term:
    return mapterm(t, lambda s: mapping.get(s))


def exc_class(p: Path) -> str:
    v = p.value
    if v[0] in ("new", "rec", "ref", "builtin"):
        return str(v[1]).split(".")[-1]
    if v[0] == "call":
        return str(v[1]).split(".")[-1]
    return show(v)
