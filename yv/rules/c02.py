"""C02 -- ID verdicts are total, complete and side-effect free.

R2.1  purity: no function in the cone of identify / identify_outcomes mutates its graph, query or set arguments.
R2.2  verdict translation: identify_outcomes maps exactly `Unidentifiable` to None.
R2.3  refusal point: the only `raise Unidentifiable` is on the published line-5 path.
R2.4  every other coded `raise` in the cone is unreachable under the caller's path condition.
R2.5  node membership: graph queries that fail on a missing node are asked only about nodes the (derived) surgery keeps.
R2.6  no raw (precondition-carrying) constructors in the cone.
"""

from __future__ import annotations

import ast

from ..effects import Effects
from ..model import AnalysisError, Func, Model
from ..report import Report
from ..setalg import SetAlg, atoms_of, compare, f_and, f_not, f_or, show_formula, show_row
from ..symeval import Evaluator
from ..terms import Term, const, mapterm, show, subterms, var
from .common import NXMG, VARIABLE, construct, graph_var, loc, return_paths, short, typed, varset, kwargs_of
from .idcommon import ID, IDENT, IDENTIFY, Ref, evaluate_identify, exc_class, make_sa
from . import c01, c14

CONE = [f"{ID}.id_std.identify", f"{ID}.id_std.line_1", f"{ID}.id_std.line_2", f"{ID}.id_std.line_3", f"{ID}.id_std.line_4", f"{ID}.id_std.line_5",
        f"{ID}.id_std.line_6", f"{ID}.id_std.line_7", f"{ID}.id_std.p_parents", f"{ID}.id_std._get_single_district", f"{ID}.api.identify_outcomes",
        f"{ID}.id_c.idc", f"{ID}.id_c.rule_2_of_do_calculus_applies", f"{ID}.utils.Identification.__init__", f"{ID}.utils.Identification.from_parts",
        f"{ID}.utils.Identification.with_treatments", f"{ID}.utils.Identification.uncondition", f"{ID}.utils.Identification.exchange_observation_with_action",
        f"{ID}.utils.Query.__init__", f"{ID}.utils.Query.with_treatments", f"{ID}.utils.Query.uncondition", f"{ID}.utils.Query.exchange_observation_with_action",
        f"{ID}.utils.str_nodes_to_variable_nodes"]


def subst_formula(f, m):
    if f is True or f is False:
        return f
    if f[0] == "atom":
        return m.get(f[1], f)
    return (f[0],) + tuple(subst_formula(g, m) for g in f[1:])


def derived_node_tables(model: Model):
    """node-membership formula of each surgery result, derived from graph.py on this run (C14 R14.1's implementation side)."""
    ev, sa = c14.mk(model)
    cls = model.cls(NXMG)
    G = graph_var(ev)
    S = varset(ev, "S")
    n = var("%n")
    aV, aS = ("in", n, ("V", G)), ("in", n, S)
    out = {}
    for op in ("subgraph", "remove_in_edges", "remove_out_edges", "remove_nodes_from"):
        f = cls.find_method(op)
        rets = return_paths(ev.run(f, {f.params[1]: S}, self_term=G))
        tr = c14.graph_triple(rets[0].value, sa) if len(rets) == 1 else None
        if tr is None:
            out[op] = None
            continue
        fm = sa.member(n, tr[0])
        extra = [a for a in atoms_of(fm) if a not in (aV, aS)]
        out[op] = None if extra else (fm, aV, aS)
    return out


def run(model: Model, rep: Report, tier: str) -> None:
    rep.level = "other"
    rep.explanation = (
        "Purity is an effects/freshness analysis with bottom-up summaries over the call cone. The wrapper's try/except is read from the "
        "AST (one handler, exactly Unidentifiable, returns None). The refusal point and the dead internal raises are decided on the "
        "symbolically evaluated paths of identify(): a non-Unidentifiable raise must have an unsatisfiable guard conjunction (after "
        "normalising is_connected / len(districts) tests to one atom) or fall under the district-refinement axiom. Node-membership "
        "obligations `S ⊆ V(receiver)` are discharged by truth table from the node tables that C14's evaluator derives from graph.py on "
        "this run, under X,Y ⊆ V(G), X∩Y = ∅. Termination and completeness (hedge criterion) are NOT decided."
    )
    rep.trusted_base = ["Shpitser & Pearl 2006 (line 5 = hedge)", "districts of G[V∖X] refine districts of G", "is_connected(H) ⇔ |C(H)| = 1 for non-empty H", "networkx raises only on missing nodes for ancestors/descendants"]
    rep.floors = {"R2.1": 15, "R2.2": 1, "R2.3": 1, "R2.5": 3, "R2.6": 1, "R1.0": 2}
    # ---------------------------------------------------------------- R2.1
    eff = Effects(model)
    for q in CONE:
        if not model.has_func(q):
            rep.error(f"anchor vanished: {q}")
            continue
        f = model.func(q)
        sm = eff.summary(f)
        muts = {p: es for p, es in sm.mutates.items() if not (f.name == "__init__" and p == f.params[0])}
        if muts:
            p, es = next(iter(muts.items()))
            rep.refuted("R2.1", construct(f, "pure"), f"may modify the caller's `{p}`: {es[0].how}", loc(f, es[0].line))
        else:
            rep.proven("R2.1", construct(f, "pure"), loc=loc(f))
    r2_2(model, rep)
    # ---------------------------------------------------------------- R2.3 / R2.4 on identify's paths
    # identify() is compared with the published algorithm path by path (guards and raised exception classes included): the refusal is then
    # raised exactly under line 5's guard, and the only other raises are the definition's own two (RuntimeError / ValueError of lines 6-7),
    # which are unreachable by district refinement (the single district S of G∖X lies in exactly one district S' of G: S ∉ C(G) ⇒ S ⊊ S').
    from ..report import Report as _Report

    sub = _Report(rep.property_id, rep.tier)
    c01.r1_1(model, sub, rule="R2.3")
    for ob in sub.obligations:
        ob.construct = ob.construct.replace("#lines-1-7", "#refusal-point-and-dead-raises")
        rep.obligations.append(ob)
    fi, ev, ident, paths = evaluate_identify(model)
    sa = make_sa()
    ref = Ref(ident)
    # ---------------------------------------------------------------- R2.5 node membership
    tables = derived_node_tables(model)
    G, X, Y = ref.G, ref.X, ref.Y
    n = var("%n")

    def nodes_formula(R: Term):
        R = sa.rewrite(R)
        if R == G:
            return ("atom", ("in", n, ("V", G)))
        if R[0] == "meth" and R[2] in tables:
            tb = tables[R[2]]
            if tb is None:
                return None
            fm, aV, aS = tb
            inner = nodes_formula(R[1])
            arg = kwargs_of(R).get("vertices")
            if inner is None or arg is None:
                return None
            return subst_formula(fm, {aV: inner, aS: sa.member(n, arg)})
        return None

    inV = ("atom", ("in", n, ("V", G)))
    inX, inY = sa.member(n, X), sa.member(n, Y)
    axioms = [f_or(f_not(inX), inV), f_or(f_not(inY), inV), f_not(f_and(inX, inY))]
    obligations = {}
    for p in paths:
        for s in subterms((p.conds, p.value)):
            if s[0] == "meth" and s[2] in ("ancestors_inclusive", "descendants_inclusive"):
                src = kwargs_of(s).get("sources")
                obligations[("ancestors", s[1], src)] = (s, p)
    for (kind, R, src), (s, p) in obligations.items():
        cons = construct(fi, f"nodes:{short(show(sa.rewrite(R)).replace('identification.', ''), 60)}.ancestors_inclusive({short(show(src).replace('identification.', ''), 40)})")
        nf = nodes_formula(R)
        if nf is None:
            rep.unknown("R2.5", cons, "receiver's node set cannot be derived", loc(fi, p.line), required=False)
            continue
        # sources that are themselves results of closures are inside their graph by construction; only plain query sets are checked
        eq, row, _ = compare(f_and(sa.member(n, src), f_not(nf)), False, axioms)
        if eq:
            rep.proven("R2.5", cons, loc=loc(fi, p.line), sample={"receiver nodes": short(show_formula(nf), 200)})
        else:
            rep.refuted("R2.5", cons, f"asks for ancestors of a node the receiver graph does not contain: for a node with [{show_row(row)}] "
                        f"(receiver keeps: {short(show_formula(nf), 160)}); networkx raises NetworkXError, neither an estimand nor the refusal", loc(fi, p.line))
    # index lookups in the order: v ∈ S ⊆ V(G∖X) ⊆ V(G) = set(topological order of G)
    H = ("meth", G, "remove_nodes_from", (), (("vertices", X),))
    nfH = nodes_formula(H)
    cons = construct(fi, "nodes:order.index(v)")
    if nfH is None:
        rep.unknown("R2.5", cons, "node table of remove_nodes_from not derivable", loc(fi), required=False)
    else:
        eq, row, _ = compare(f_and(nfH, f_not(inV)), False, axioms)
        (rep.proven if eq else rep.refuted)("R2.5", cons, "" if eq else "a district node of G∖X need not be a node of G: order.index(v) raises ValueError", loc(fi))
    # the Identification's private copy of the graph must be the same graph (all nodes, both edge families)
    c01.r1_0(model, rep)
    # ---------------------------------------------------------------- R2.6 raw constructors in the cone
    raw = []
    for q in CONE:
        if not model.has_func(q):
            continue
        f = model.func(q)
        for c in ast.walk(f.node):
            if isinstance(c, ast.Call) and isinstance(c.func, ast.Name) and c.func.id in ("Sum", "Product", "Fraction", "CounterfactualVariable", "Distribution"):
                r = model.resolve_name(f.module, c.func.id)
                from ..model import Cls
                if isinstance(r, Cls):
                    raw.append(f"{f.qname}:{c.lineno} {c.func.id}(...)")
    fi2 = model.func(IDENTIFY)
    (rep.refuted if raw else rep.proven)("R2.6", construct(fi2, "no-raw-constructors"), "raw constructors with failing preconditions are used unguarded: " + ", ".join(raw) if raw else "", loc(fi2))
    rep.stats.update({"functions_analysed": len(eff.summaries), "paths_of_identify": len(paths)})


def _where(model, p) -> str:
    return "identify"


def _district_refinement(conds, sa: SetAlg) -> bool:
    nots, foralls = [], []
    for c in conds:
        c = sa.rewrite(c)
        if c[0] == "not" and c[1][0] == "in" and c[1][2][0] == "meth" and c[1][2][2] == "districts":
            nots.append(c[1])
        if c[0] == "forall-not" and c[2][0] == "meth" and c[2][2] == "districts":
            foralls.append(c)
    for nin in nots:
        S, DG = nin[1], nin[2]
        if not (S[0] == "the" and S[1][0] == "meth" and S[1][2] == "districts" and S[1][1][0] == "meth" and S[1][1][2] == "remove_nodes_from" and S[1][1][1] == DG[1]):
            continue
        for fa in foralls:
            if fa[2] == DG and len(fa[3]) == 1 and fa[3][0] == ("psubset", S, fa[1]):
                return True
    return False


def r2_2(model: Model, rep: Report) -> None:
    # ---------------------------------------------------------------- R2.2
    f = model.func(f"{ID}.api.identify_outcomes")
    from .idcommon import ID_PRIMS, ID_PRIM_METHODS, IDENTIFY, QUERY
    IDC = f"{ID}.id_c.idc"
    ev2 = Evaluator(model, primitives=set(ID_PRIMS) | {IDENTIFY, IDC, IDENT, QUERY}, prim_methods=set(ID_PRIM_METHODS))
    cond_t = typed(ev2, "conditions", ("union", (("set", ("cls", VARIABLE)), "none")))
    from .common import split_conditional_returns
    paths2 = split_conditional_returns(ev2.run(f, {"graph": graph_var(ev2, "graph"), "treatments": varset(ev2, "treatments"), "outcomes": varset(ev2, "outcomes"), "conditions": cond_t}))
    sa2 = SetAlg()
    problems = []
    caught = [p for p in paths2 if any(c[0] == "raised-in" for c in p.conds)]
    names = set()
    for p in caught:
        for c in p.conds:
            if c[0] == "raised-in":
                for h in c[1]:
                    r = model.resolve_name(f.module, h) if isinstance(h, str) and h.isidentifier() else None
                    from ..model import Cls
                    names.add(r.name if isinstance(r, Cls) else str(h))
        if not (p.kind == "return" and p.value == ("const", None)):
            problems.append("a caught refusal is not translated into None")
    if not caught:
        problems.append("the refusal (Unidentifiable) of identify/idc is not caught: it leaks to the caller instead of returning None")
    elif names != {"Unidentifiable"}:
        problems.append(f"the handler catches {sorted(names)}, not exactly Unidentifiable (broader handlers hide crashes, narrower ones leak the refusal)")
    isnone = sa2.cond(("isnone", cond_t))
    empty = f_not(sa2.cond(("truth", cond_t)))
    def callee(p, q):
        return p.kind == "return" and p.value[0] == "call" and p.value[1] == q
    pid_ = [p for p in paths2 if callee(p, IDENTIFY)]
    pidc = [p for p in paths2 if callee(p, IDC)]
    others = [p for p in paths2 if p not in caught and p not in pid_ and p not in pidc]
    if len(pid_) != 1 or len(pidc) != 1 or others:
        problems.append("the wrapper does not return exactly identify(...) or idc(...) of the query")
    else:
        g1 = f_and(*[sa2.cond(c) for c in pid_[0].conds if not (c[0] == "not" and c[1][0] == "raised-in")])
        if not (compare(g1, isnone)[0] or compare(g1, f_or(isnone, empty))[0] or compare(g1, empty)[0]):
            problems.append("routing: ID is not used exactly when no conditions are given (and IDC otherwise)")
        for p in (pid_[0], pidc[0]):
            ident = dict(p.value[3]).get("identification") or (p.value[2][0] if p.value[2] else None)
            ok_arg = ident is not None and ident[0] in ("new", "rec") and str(ident[1]).endswith("Identification")
            if ok_arg:
                kw = dict(ident[3]) if ident[0] == "new" else dict(ident[2])
                qy = kw.get("query")
                qkw = (dict(qy[3]) if qy[0] == "new" else dict(qy[2])) if qy is not None and qy[0] in ("new", "rec") else {}
                def _unset(t):
                    return dict(t[3]).get("vertices", t[2][0] if t[2] else t) if t is not None and t[0] == "call" and str(t[1]).endswith("_ensure_set") else t
                ok_arg = kw.get("graph") == ("var", "graph") and _unset(qkw.get("outcomes")) == ("var", "outcomes") and _unset(qkw.get("treatments")) == ("var", "treatments") \
                    and qkw.get("conditions") == cond_t
            if not ok_arg:
                problems.append("the query handed to the algorithm is not (graph, treatments, outcomes, conditions) of the call")
    (rep.refuted if problems else rep.proven)("R2.2", construct(f, "verdict-translation"), "; ".join(sorted(set(problems))), loc(f), sample={"paths": len(paths2)})

