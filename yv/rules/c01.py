"""C01 -- ID estimands equal the true interventional distribution (refinement to Shpitser & Pearl 2006).

R1.0  wrappers used by the recursion are value identities: _ensure_set(x) = set(x), str_nodes_to_variable_nodes(g) = g.
R1.1  line table: every path of identify() equals one published line (guard formula, action term, order of tests).
R1.2  the distribution currently in hand is threaded: every returned expression / recursive estimand depends on
      identification.estimand.
R1.3  conditionals P(v | predecessors of v) use exactly the prefix of the *current* graph's topological order (part of R1.1's terms).
"""

from __future__ import annotations

from ..model import AnalysisError, Model
from ..report import Report
from ..setalg import SetAlg, atoms_of, compare, f_and, f_not, show_formula, show_row
from ..symeval import Evaluator
from ..terms import Term, alpha_normalise, const, mapterm, show, subterms, var
from .common import NXMG, VARIABLE, construct, graph_var, loc, return_paths, short, typed, kwargs_of
from .idcommon import ID, IDENT, IDENTIFY, Ref, evaluate_identify, exc_class, make_sa


def norm_formula(f):
    if f is True or f is False:
        return f
    if f[0] == "atom":
        return ("atom", alpha_normalise(f[1]))
    return (f[0],) + tuple(norm_formula(g) for g in f[1:])


def drop_dist(t):
    """R1.1 compares conditionals up to which distribution they are taken from (that is R1.2's question)."""
    return mapterm(t, lambda s: ("CONDP", s[1], s[2]) if s[0] == "CONDP" and len(s) > 3 else None)


def unify_bound(conds, value):
    """Rename variables bound by iter-elem conditions to %d (one search loop at most in identify)."""
    bound = [c[1] for c in conds if c[0] == "iter-elem" and c[1][0] == "var"]
    if len(bound) == 1:
        m = {bound[0]: var("%d")}
        f = lambda s: m.get(s)  # noqa: E731
        return tuple(mapterm(c, f) for c in conds), mapterm(value, f)
    return conds, value


def match_lines(model: Model, rep: Report, rule: str = "R1.1"):
    f, ev, ident, paths = evaluate_identify(model)
    sa = make_sa()
    ref = Ref(ident)
    lines = ref.lines()
    impl = []
    for p in paths:
        conds, value = unify_bound(p.conds, p.value)
        fm = norm_formula(f_and(*[sa.cond(sa.rewrite(c)) for c in conds]))
        if p.kind == "raise":
            val = exc_class(p)
        else:
            val = sa.canon_top(drop_dist(sa.rewrite(value)))
        impl.append({"path": p, "formula": fm, "kind": p.kind, "value": val, "matched": None, "conds": conds})
    results = {}
    for name, (rconds, rkind, rvalue) in lines.items():
        rf = norm_formula(f_and(*[sa.cond(sa.rewrite(c)) for c in rconds]))
        rv = rvalue if rkind == "raise" else sa.canon_top(drop_dist(sa.rewrite(rvalue)))
        best = None
        for it in impl:
            if it["kind"] != rkind:
                continue
            same_val = it["value"] == rv
            try:
                same_cond = compare(it["formula"], rf)[0]
            except Exception:  # noqa: BLE001
                same_cond = False
            score = (same_val, same_cond)
            if same_val and same_cond:
                best = (it, True, True)
                break
            if best is None or score > (best[1], best[2]):
                best = (it, same_val, same_cond)
        results[name] = (best, rf, rv)
        if best and best[1] and best[2]:
            best[0]["matched"] = name
    return f, ev, ident, paths, impl, results, sa, ref


def run(model: Model, rep: Report, tier: str) -> None:
    rep.level = "other"
    rep.explanation = (
        "identify() is evaluated symbolically (line_N helpers inlined, graph operations and DSL constructors kept as primitives whose "
        "meaning C14/C13 establish) into its finite list of paths (guard conjunction, return/raise/recursive-call term). Each of the seven "
        "published lines is written as a reference term over the same atoms; a line is PROVEN when some path has an equivalent guard "
        "(truth-table comparison of the conjunctions, including the negations of all earlier guards = order of tests) and an equal action "
        "modulo set algebra (ranges, query sets), list/tuple wrappers, helper inlining and the spelling of 'the single district' / 'prefix of "
        "the order before v'. R1.2 is a must-depend check of every action on identification.estimand. Decides refinement to the published "
        "algorithm and threading of the current distribution; the numerical identity itself is the paper's soundness theorem + C14 + C13."
    )
    rep.trusted_base = ["Shpitser & Pearl 2006, Theorem 5 (soundness of ID)", "C14 (graph primitives)", "C13 (Sum.safe / Product.safe / P)", "districts of G[V∖X] refine districts of G"]
    rep.floors = {"R1.0": 2, "R1.1": 1}
    r1_0(model, rep)
    # the public wrapper hands ID the caller's own graph and query (a pre-pruned graph changes which nodes line 3 can turn into treatments)
    from . import c02
    c02.r2_2(model, rep)
    r1_1(model, rep)


def r1_1(model: Model, rep: Report, rule: str = "R1.1") -> None:
    """identify() against Figure 3 written out in yv/refs/c01_ref.py: both are evaluated by the same evaluator (line_N helpers, _conditional and
    any other private helper inlined; graph operations and DSL constructors primitive) and compared path pair by path pair under the joint
    guard -- guards (= order of tests), actions, recursive calls with their four arguments, the distribution in hand threaded everywhere."""
    from ..refcmp import compare_with_reference, load_reference
    from .common import graph_rewrite, rewriter
    from .idcommon import ID_PRIM_METHODS, ID_PRIMS, id_rewrite

    if "yvref.c01" not in model.modules:
        load_reference(model, "yvref.c01", "c01_ref.py")
    sa = SetAlg(rewriter(graph_rewrite, id_rewrite))
    f, verdict, detail, sample = compare_with_reference(
        model, IDENTIFY, "yvref.c01.id_algorithm", {"identification": ("cls", IDENT)},
        lambda: Evaluator(model, primitives=set(ID_PRIMS) | {"y0.dsl.P"}, prim_methods=set(ID_PRIM_METHODS)), sa)
    sample["definition"] = "Shpitser & Pearl 2006, Figure 3, lines 1-7 (yv/refs/c01_ref.py)"
    cons = construct(f, "lines-1-7")
    if verdict == "PROVEN":
        rep.proven(rule, cons, loc=loc(f), sample=sample)
    elif verdict == "REFUTED":
        rep.refuted(rule, cons, "identify() deviates from the published ID algorithm: " + short(detail, 900), loc(f), sample=sample)
    else:
        rep.unknown(rule, cons, detail, loc(f))
    # line 3's W is read off two graph routines, which the comparison above treats as given: they are held to their definitions here
    from . import c14 as _c14
    _c14.intervened_ancestor_rows(model, rep, rule)


def r1_0(model: Model, rep: Report) -> None:
    sa = make_sa()
    # _ensure_set(x) == set(x) on its only returning path (the raise guards Interventions)
    f = model.func("y0.graph._ensure_set")
    ev = Evaluator(model)
    v = typed(ev, "vertices", ("set", ("cls", VARIABLE)))
    rets = return_paths(ev.run(f, {"vertices": v}))
    x = var("%x")
    ok = len(rets) == 1 and compare(sa.member(x, rets[0].value), sa.member(x, v))[0]
    (rep.proven if ok else rep.refuted)("R1.0", construct(f, "identity-on-sets"), "" if ok else "_ensure_set(S) is not the set S itself for a set of variables", loc(f))
    # str_nodes_to_variable_nodes(g) == g  (all nodes, all directed, all bidirected edges)
    f = model.func(f"{ID}.utils.str_nodes_to_variable_nodes")
    from . import c14
    ev, sa14 = c14.mk(model)
    ev.primitives.add("y0.dsl.Variable.norm")
    G = graph_var(ev, "graph")
    rets = return_paths(ev.run(f, {"graph": G}))
    n, e = var("%n"), var("%e")
    ok = False
    detail = "does not rebuild the graph from its nodes and both edge families"
    if len(rets) == 1:
        tr = c14.graph_triple(rets[0].value, sa14)
        if tr is not None:
            N, D, U = tr
            N, D, U = _unnorm(N), _unnorm(D), _unnorm(U)
            c1 = compare(sa14.member(n, N), sa14.member(n, ("V", G)))
            c2 = compare(sa14.member(e, D), sa14.member(e, ("Ed", G)))
            c3 = compare(sa14.member(e, U), sa14.member(e, ("Eu", G)))
            ok = c1[0] and c2[0] and c3[0]
            if not c1[0]:
                detail = "the copy passes no node list: nodes without edges vanish from every Identification (then lookups on them fail)"
            elif not ok:
                detail = "an edge family is not copied exactly"
    (rep.proven if ok else rep.refuted)("R1.0", construct(f, "graph-identity"), "" if ok else detail, loc(f))


def _unnorm(t: Term) -> Term:
    """Variable.norm(x) is x for a Variable; (norm(u), norm(v)) is the edge (u, v)."""
    def f(s):
        if s[0] == "call" and str(s[1]).endswith("Variable.norm"):
            kw = dict(s[3])
            return kw.get("name", s[2][0] if s[2] else None)
        if s[0] == "comp" and len(s[3]) == 1 and not s[3][0][2]:
            pat, it, _ = s[3][0]
            if s[2] == pat:
                return it
        return None
    return mapterm(t, f)
