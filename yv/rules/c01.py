"""C01 -- ID estimands equal the true interventional distribution (refinement to Shpitser & Pearl 2006).

R1.0  wrappers used by the recursion are value identities: _ensure_set(x) = set(x), str_nodes_to_variable_nodes(g) = g.
R1.1  line table: every path of identify() equals one published line (guard formula, action term, order of tests).
R1.2  the distribution currently in hand is threaded: every returned expression / recursive estimand depends on
      identification.estimand.
R1.3  conditionals P(v | predecessors of v) use exactly the prefix of the *current* graph's topological order (part of R1.1's terms).
"""

from __future__ import annotations

from ..model import AnalysisError, Model
from ..report import Report
from ..setalg import SetAlg, atoms_of, compare, f_and, f_not, show_formula, show_row
from ..symeval import Evaluator
from ..terms import Term, alpha_normalise, const, mapterm, show, subterms, var
from .common import NXMG, VARIABLE, construct, graph_var, loc, return_paths, short, typed, kwargs_of
from .idcommon import ID, IDENT, IDENTIFY, Ref, evaluate_identify, exc_class, make_sa


def norm_formula(f):
    if f is True or f is False:
        return f
    if f[0] == "atom":
        return ("atom", alpha_normalise(f[1]))
    return (f[0],) + tuple(norm_formula(g) for g in f[1:])


def drop_dist(t):
    """R1.1 compares conditionals up to which distribution they are taken from (that is R1.2's question)."""
    return mapterm(t, lambda s: ("CONDP", s[1], s[2]) if s[0] == "CONDP" and len(s) > 3 else None)


def unify_bound(conds, value):
    """Rename variables bound by iter-elem conditions to %d (one search loop at most in identify)."""
    bound = [c[1] for c in conds if c[0] == "iter-elem" and c[1][0] == "var"]
    if len(bound) == 1:
        m = {bound[0]: var("%d")}
        f = lambda s: m.get(s)  # noqa: E731
        return tuple(mapterm(c, f) for c in conds), mapterm(value, f)
    return conds, value


def match_lines(model: Model, rep: Report, rule: str = "R1.1"):
    f, ev, ident, paths = evaluate_identify(model)
    sa = make_sa()
    ref = Ref(ident)
    lines = ref.lines()
    impl = []
    for p in paths:
        conds, value = unify_bound(p.conds, p.value)
        fm = norm_formula(f_and(*[sa.cond(sa.rewrite(c)) for c in conds]))
        if p.kind == "raise":
            val = exc_class(p)
        else:
            val = sa.canon_top(drop_dist(sa.rewrite(value)))
        impl.append({"path": p, "formula": fm, "kind": p.kind, "value": val, "matched": None, "conds": conds})
    results = {}
    for name, (rconds, rkind, rvalue) in lines.items():
        rf = norm_formula(f_and(*[sa.cond(sa.rewrite(c)) for c in rconds]))
        rv = rvalue if rkind == "raise" else sa.canon_top(drop_dist(sa.rewrite(rvalue)))
        best = None
        for it in impl:
            if it["kind"] != rkind:
                continue
            same_val = it["value"] == rv
            try:
                same_cond = compare(it["formula"], rf)[0]
            except Exception:  # noqa: BLE001
                same_cond = False
            score = (same_val, same_cond)
            if same_val and same_cond:
                best = (it, True, True)
                break
            if best is None or score > (best[1], best[2]):
                best = (it, same_val, same_cond)
        results[name] = (best, rf, rv)
        if best and best[1] and best[2]:
            best[0]["matched"] = name
    return f, ev, ident, paths, impl, results, sa, ref


def run(model: Model, rep: Report, tier: str) -> None:
    rep.level = "other"
    rep.explanation = (
        "identify() is evaluated symbolically (line_N helpers inlined, graph operations and DSL constructors kept as primitives whose "
        "meaning C14/C13 establish) into its finite list of paths (guard conjunction, return/raise/recursive-call term). Each of the seven "
        "published lines is written as a reference term over the same atoms; a line is PROVEN when some path has an equivalent guard "
        "(truth-table comparison of the conjunctions, including the negations of all earlier guards = order of tests) and an equal action "
        "modulo set algebra (ranges, query sets), list/tuple wrappers, helper inlining and the spelling of 'the single district' / 'prefix of "
        "the order before v'. R1.2 is a must-depend check of every action on identification.estimand. Decides refinement to the published "
        "algorithm and threading of the current distribution; the numerical identity itself is the paper's soundness theorem + C14 + C13."
    )
    rep.trusted_base = ["Shpitser & Pearl 2006, Theorem 5 (soundness of ID)", "C14 (graph primitives)", "C13 (Sum.safe / Product.safe / P)", "districts of G[V∖X] refine districts of G"]
    rep.floors = {"R1.0": 2, "R1.1": 7, "R1.2": 6}
    r1_0(model, rep)
    # the public wrapper hands ID the caller's own graph and query (a pre-pruned graph changes which nodes line 3 can turn into treatments)
    from . import c02
    c02.r2_2(model, rep)
    f, ev, ident, paths, impl, results, sa, ref = match_lines(model, rep)
    words = {
        "line1": "X = ∅  →  Σ_{V∖Y} P",
        "line2": "V∖An(Y)_G ≠ ∅  →  ID(Y, X∩An(Y), Σ_{V∖An(Y)} P, G[An(Y)])",
        "line3": "W = (V∖X)∖An(Y)_{G_X̄} ≠ ∅  →  ID(Y, X∪W, P, G)",
        "line4": "C(G∖X) has several districts  →  Σ_{V∖(Y∪X)} Π_i ID(S_i, V∖S_i, P, G)",
        "line5": "C(G) = {V}  →  unidentifiable",
        "line6": "S ∈ C(G)  →  Σ_{S∖Y} Π_{v∈S} P(v | v_π^{(<v)})",
        "line7": "S ⊊ S' ∈ C(G)  →  ID(Y, X∩S', Π_{v∈S'} P(v | v_π^{(<v)}), G[S'])",
    }
    for name, (best, rf, rv) in results.items():
        cons = construct(f, name)
        if best is None:
            rep.refuted("R1.1", cons, f"no path of identify() implements {name}: {words[name]}", loc(f))
            continue
        it, same_val, same_cond = best
        p = it["path"]
        sample = {"published": words[name], "guard": short(show_formula(it["formula"]), 300), "action": short(show(it["value"]) if not isinstance(it["value"], str) else it["value"], 400)}
        if same_val and same_cond:
            rep.proven("R1.1", cons, loc=loc(f, p.line), sample=sample)
        elif same_val:
            try:
                _, row, _ = compare(it["formula"], rf)
                rowtxt = show_row(row) if row else ""
            except Exception:  # noqa: BLE001
                rowtxt = ""
            rep.refuted("R1.1", cons, f"{name} ({words[name]}) is taken under a different guard than published (or tested in a different order): "
                        f"guards differ when [{short(rowtxt, 300)}]; implementation guard: {short(show_formula(it['formula']), 300)}", loc(f, p.line), sample=sample)
        else:
            rep.refuted("R1.1", cons, f"{name} ({words[name]}): the action differs from the published one. implementation: "
                        f"{short(show(it['value']) if not isinstance(it['value'], str) else it['value'], 420)}  published: {short(show(rv) if not isinstance(rv, str) else rv, 420)}", loc(f, p.line), sample=sample)
    # extra live branches (returns that match no line) are deviations too
    for it in impl:
        if it["matched"] is None and it["kind"] == "return" and not any(best and best[0] is it for best, _, _ in results.values()):
            rep.refuted("R1.1", construct(f, f"extra-branch@{short(show_formula(it['formula']), 60)}"), "identify() has a returning branch that corresponds to no published line: "
                        + short(show(it["value"]), 200), loc(f, it["path"].line))
    # ---- R1.2 dependence on the current distribution
    P = ref.P
    for name, (best, rf, rv) in results.items():
        if name == "line5" or best is None:
            continue
        it = best[0]
        p = it["path"]
        reads = any(s == P for s in subterms(p.value)) or any(s == P for c in p.conds for s in subterms(c))
        cons = construct(f, f"{name}-estimand")
        if reads:
            rep.proven("R1.2", cons, loc=loc(f, p.line))
        else:
            rep.refuted("R1.2", cons,
                        f"{name} never reads identification.estimand: its conditionals P(v | predecessors) are taken from the observational joint, but after a line-7 "
                        "step the distribution in hand is Q[S'] (a product of conditionals), whose conditionals differ; two calls differing only in the estimand return the same expression",
                        loc(f, p.line))
    rep.stats.update({"paths_of_identify": len(paths), "functions_inlined": len(ev.inlined), "call_sites_resolved": ev.calls_resolved, "call_sites_unresolved": ev.calls_unresolved})


def r1_0(model: Model, rep: Report) -> None:
    sa = make_sa()
    # _ensure_set(x) == set(x) on its only returning path (the raise guards Interventions)
    f = model.func("y0.graph._ensure_set")
    ev = Evaluator(model)
    v = typed(ev, "vertices", ("set", ("cls", VARIABLE)))
    rets = return_paths(ev.run(f, {"vertices": v}))
    x = var("%x")
    ok = len(rets) == 1 and compare(sa.member(x, rets[0].value), sa.member(x, v))[0]
    (rep.proven if ok else rep.refuted)("R1.0", construct(f, "identity-on-sets"), "" if ok else "_ensure_set(S) is not the set S itself for a set of variables", loc(f))
    # str_nodes_to_variable_nodes(g) == g  (all nodes, all directed, all bidirected edges)
    f = model.func(f"{ID}.utils.str_nodes_to_variable_nodes")
    from . import c14
    ev, sa14 = c14.mk(model)
    ev.primitives.add("y0.dsl.Variable.norm")
    G = graph_var(ev, "graph")
    rets = return_paths(ev.run(f, {"graph": G}))
    n, e = var("%n"), var("%e")
    ok = False
    detail = "does not rebuild the graph from its nodes and both edge families"
    if len(rets) == 1:
        tr = c14.graph_triple(rets[0].value, sa14)
        if tr is not None:
            N, D, U = tr
            N, D, U = _unnorm(N), _unnorm(D), _unnorm(U)
            c1 = compare(sa14.member(n, N), sa14.member(n, ("V", G)))
            c2 = compare(sa14.member(e, D), sa14.member(e, ("Ed", G)))
            c3 = compare(sa14.member(e, U), sa14.member(e, ("Eu", G)))
            ok = c1[0] and c2[0] and c3[0]
            if not c1[0]:
                detail = "the copy passes no node list: nodes without edges vanish from every Identification (then lookups on them fail)"
            elif not ok:
                detail = "an edge family is not copied exactly"
    (rep.proven if ok else rep.refuted)("R1.0", construct(f, "graph-identity"), "" if ok else detail, loc(f))


def _unnorm(t: Term) -> Term:
    """Variable.norm(x) is x for a Variable; (norm(u), norm(v)) is the edge (u, v)."""
    def f(s):
        if s[0] == "call" and str(s[1]).endswith("Variable.norm"):
            kw = dict(s[3])
            return kw.get("name", s[2][0] if s[2] else None)
        if s[0] == "comp" and len(s[3]) == 1 and not s[3][0][2]:
            pat, it, _ = s[3][0]
            if s[2] == pat:
                return it
        return None
    return mapterm(t, f)
