"""C20 -- sigma-separation agrees with d-separation on acyclic graphs (necessary structure).

R20.1  mirror symmetry: swapping left/right maps is_non_collider_left_chain to is_non_collider_right_chain; is_collider and
       is_non_collider_fork are self-mirror; each predicate equals its published σ-open formula.
R20.2  adjacency / path family: a path is open only if no endpoint is conditioned and EVERY triple is open; separation = no open path
       among the simple paths of the flat undirected graph (both edge families, all nodes).
R20.3  collider openness vs path family: over *simple paths* a collider is open iff it is in An(Z); testing membership in Z itself is
       complete only over walks.
R20.4  stateless: neither the test nor disorient() caches or mutates anything.
"""

from __future__ import annotations

from ..effects import Effects
from ..model import AnalysisError, Model
from ..report import Report
from ..setalg import SetAlg, compare, f_and, f_not, f_or, show_formula, show_row
from ..symeval import Evaluator
from ..terms import Term, const, mapterm, show, subterms, var
from .common import GRAPH_PRIMS, NXMG, VARIABLE, construct, loc, return_paths, short, typed, kwargs_of

SS = "y0.algorithm.separation.sigma_separation"
PRIMS = {f"{SS}._has_either_edge", f"{SS}._only_directed_edge"}


def run(model: Model, rep: Report, tier: str) -> None:
    rep.level = "other"
    rep.explanation = (
        "The four triple predicates are evaluated to boolean formulas over the atoms either-edge(u,v), only-directed(u,v), m∈Z, m∈σ(l), m∈σ(r) "
        "and compared by satisfiability (i) with their own mirror image (left/right swapped) and (ii) with the published σ-open formula. The "
        "path predicate and the separation verdict are checked as quantifier terms. R20.3 records which path family is enumerated and which set "
        "the collider rule consults. Decides symmetry, adjacency and these necessary conditions; agreement with d-separation on every ADMG is "
        "not decided beyond them."
    )
    rep.trusted_base = ["networkx all_simple_paths on an undirected graph is symmetric in its endpoints", "more_itertools.triplewise", "C14 R14.2 for disorient()"]
    rep.floors = {"R20.1": 6, "R20.2": 2, "R20.3": 1, "R20.4": 2}
    sa = SetAlg()
    V = ("cls", VARIABLE)

    def evaluate(name, swapped=False):
        f = model.func(f"{SS}.{name}")
        ev = Evaluator(model, primitives=set(GRAPH_PRIMS) | PRIMS)
        L, R = typed(ev, "left", V), typed(ev, "right", V)
        args = {"graph": typed(ev, "graph", ("cls", NXMG)), "left": R if swapped else L, "middle": typed(ev, "middle", V), "right": L if swapped else R,
                "conditions": typed(ev, "conditions", ("set", V))}
        if "sigma" in f.params:
            args["sigma"] = typed(ev, "sigma", ("dict", None, None))
        rets = return_paths(ev.run(f, args))
        fm = f_or(*[f_and(*[sa.cond(c) for c in r.conds], sa.cond(r.value) if r.value[0] != "const" else (r.value[1] is True)) for r in rets])
        args = dict(args, left=L, right=R)
        return f, args, fm

    fc, ac, Fc = evaluate("is_collider")
    fl, al, Fl = evaluate("is_non_collider_left_chain")
    fr, ar, Fr = evaluate("is_non_collider_right_chain")
    ff, af, Ff = evaluate("is_non_collider_fork")
    # all four evaluations use the same argument names, so their atoms coincide
    def mirror_check(name, fname, f, other):
        _, _, Fsw = evaluate(fname, swapped=True)
        eq, row, _ = compare(Fsw, other)
        (rep.proven if eq else rep.refuted)("R20.1", construct(f, name), "" if eq else
                                            f"swapping left and right does not give the mirror predicate: differs when [{short(show_row(row), 260)}] — the verdict then depends on the direction in which a path is traversed", loc(f))
    mirror_check("self-mirror", "is_collider", fc, Fc)
    mirror_check("mirror-of-right-chain", "is_non_collider_left_chain", fl, Fr)
    mirror_check("self-mirror", "is_non_collider_fork", ff, Ff)
    # published formulas
    g, l, m, r, Z, sg = ac["graph"], ac["left"], ac["middle"], ac["right"], ac["conditions"], al["sigma"]
    either = lambda u, v: sa.cond(("call", f"{SS}._has_either_edge", (), (("graph", g), ("u", u), ("v", v))))  # noqa: E731
    only = lambda u, v: sa.cond(("call", f"{SS}._only_directed_edge", (), (("graph", g), ("u", u), ("v", v))))  # noqa: E731
    mZ = sa.cond(("in", m, Z))
    sig = lambda x: sa.cond(("in", m, ("index", sg, x)))  # noqa: E731
    pub = {
        "collider": (fc, Fc, f_and(either(l, m), either(r, m), mZ), "a collider (arrowheads from both sides at m) is open iff m is conditioned on"),
        "left-chain": (fl, Fl, f_and(only(m, l), either(r, m), f_or(f_not(mZ), f_and(mZ, sig(l)))), "m -> left with an arrowhead from the right is open iff m ∉ Z, or m ∈ Z and m lies in the strongly connected component of the node it points to"),
        "right-chain": (fr, Fr, f_and(either(l, m), only(m, r), f_or(f_not(mZ), f_and(mZ, sig(r)))), "mirror image of the left chain"),
        "fork": (ff, Ff, f_and(only(m, l), only(m, r), f_or(f_not(mZ), f_and(mZ, sig(l), sig(r)))), "a fork is open iff m ∉ Z, or m ∈ Z and m lies in the components of both nodes it points to"),
    }
    for name, (f, F, want, words) in pub.items():
        eq, row, _ = compare(F, want)
        (rep.proven if eq else rep.refuted)("R20.1", construct(f, f"published:{name}"), "" if eq else
                                            f"{words}; the implementation differs when [{short(show_row(row), 260)}] (on an acyclic graph every component is a singleton, so this changes the d-separation verdict)", loc(f))
    # triple helper = disjunction of the four
    f = model.func(f"{SS}._triple_helper")
    ev = Evaluator(model, primitives={f"{SS}.is_collider", f"{SS}.is_non_collider_left_chain", f"{SS}.is_non_collider_right_chain", f"{SS}.is_non_collider_fork"})
    rets = return_paths(ev.run(f, {}))
    names = {s[1].split(".")[-1] for rr in rets for s in subterms((rr.value, rr.conds)) if s[0] == "call" and isinstance(s[1], str) and s[1].startswith(SS)}
    ok = names == {"is_collider", "is_non_collider_left_chain", "is_non_collider_right_chain", "is_non_collider_fork"}
    (rep.proven if ok else rep.refuted)("R20.1", construct(f, "four-cases"), "" if ok else f"a triple is open iff it is one of the four published forms; uses {sorted(names)}", loc(f))
    # ---------------------------------------------------------------- R20.2
    f = model.func(f"{SS}.is_z_sigma_open")
    ev = Evaluator(model, primitives={f"{SS}._triple_has_correct_form"})
    path = typed(ev, "path", ("list", V))
    Zs = typed(ev, "conditions", ("set", V))
    rets = return_paths(ev.run(f, {"graph": typed(ev, "graph", ("cls", NXMG)), "path": path, "sigma": var("sigma"), "conditions": Zs}))
    problems = []
    falses = [x for x in rets if x.value == const(False)]
    quant = [x for x in rets if x.value[0] in ("all", "any")]
    endpoint = f_or(sa.cond(("in", ("index", path, const(0)), Zs)), sa.cond(("in", ("index", path, const(-1)), Zs)))
    if not falses or not compare(f_or(*[f_and(*[sa.cond(c) for c in x.conds]) for x in falses]), endpoint)[0]:
        problems.append("a path with a conditioned endpoint must be closed (and only the endpoints decide that)")
    if len(quant) != 1 or quant[0].value[0] != "all":
        problems.append("a path is open only if EVERY consecutive triple is open")
    else:
        c = quant[0].value[1]
        it = c[3][0][1]
        if not (it[0] == "call" and it[1].endswith("triplewise") and it[2] == (path,)) or c[3][0][2]:
            problems.append("triples are not all consecutive triples of the path (a two-node path has none, so adjacent nodes outside Z are never separated)")
    (rep.refuted if problems else rep.proven)("R20.2", construct(f, "path-open"), "; ".join(problems), loc(f))
    f = model.func(f"{SS}.are_sigma_separated")
    ev = Evaluator(model, primitives=set(GRAPH_PRIMS) | {f"{SS}.is_z_sigma_open", f"{SS}.get_equivalence_classes"})
    g2 = typed(ev, "graph", ("cls", NXMG))
    a2, b2 = typed(ev, "left", V), typed(ev, "right", V)
    rets = return_paths(ev.run(f, {"graph": g2, "left": a2, "right": b2, "conditions": typed(ev, "conditions", ("iter", V)), "cutoff": var("cutoff")}))
    problems = []
    fam = None
    for x in rets:
        v = x.value
        if not (v[0] == "not" and v[1][0] == "any"):
            problems.append("two nodes are separated iff NO path between them is open")
            continue
        c = v[1][1]
        it = c[3][0][1]
        if not (it[0] == "call" and it[1].endswith("all_simple_paths")):
            problems.append("paths are not enumerated by all_simple_paths")
        else:
            fam = it[1].split(".")[-1]
            if it[2][0] != ("meth", g2, "disorient", (), ()):
                problems.append("paths are not enumerated on the flat undirected graph of both edge families (disorient())")
            if {it[2][1], it[2][2]} != {a2, b2}:
                problems.append("paths are not enumerated between the two query nodes")
        if c[3][0][2]:
            problems.append("some paths are skipped")
    (rep.refuted if problems else rep.proven)("R20.2", construct(f, "no-open-path"), "; ".join(sorted(set(problems))), loc(f))
    # ---------------------------------------------------------------- R20.3
    # which set does the collider rule consult?
    consults_raw = compare(Fc, pub["collider"][2])[0]
    cons = construct(fc, "collider-vs-path-family")
    if fam == "all_simple_paths" and consults_raw:
        rep.refuted("R20.3", cons, "paths are enumerated as SIMPLE paths but a collider is opened only when it is itself in Z: over simple paths the rule must be 'collider ∈ An(Z)' "
                    "(the one-step back-track only reaches a conditioned child). A -> C <- B, C -> D -> E, Z = {E}: reported σ-separated, but A and B are d-connected given E", loc(fc))
    elif fam is None:
        rep.unknown("R20.3", cons, "path family not identified", loc(fc))
    else:
        rep.proven("R20.3", cons, loc=loc(fc))
    # ---------------------------------------------------------------- R20.4
    eff = Effects(model)
    # the public test, the flat graph, the equivalence classes -- and every predicate of the module: a triple / path predicate that edits
    # the equivalence classes or the conditioning set it is handed makes later paths of the SAME query see different data (verdict depends
    # on path order, symmetry is lost)
    qs = [f"{SS}.are_sigma_separated", f"{NXMG}.disorient", f"{SS}.get_equivalence_classes"]
    qs += sorted(fn_.qname for fn_ in model.funcs_in_module(SS) if fn_.cls is None and fn_.qname not in qs)
    for q in qs:
        f = model.func(q)
        sm = eff.summary(f)
        if sm.mutates:
            p, es = next(iter(sm.mutates.items()))
            rep.refuted("R20.4", construct(f, "stateless"), f"modifies `{p}` ({es[0].how}): the verdict can depend on earlier calls on the same graph object", loc(f, es[0].line))
        else:
            rep.proven("R20.4", construct(f, "stateless"), loc=loc(f))


def _uncanon(t: Term) -> Term:
    return t
