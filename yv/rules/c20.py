"""C20 -- sigma-separation agrees with d-separation on acyclic graphs (necessary structure).

R20.1  mirror symmetry: swapping left/right maps is_non_collider_left_chain to is_non_collider_right_chain; is_collider and
       is_non_collider_fork are self-mirror; each predicate equals its published σ-open formula.
R20.2  adjacency / path family: a path is open only if no endpoint is conditioned and EVERY triple is open; separation = no open path
       among the simple paths of the flat undirected graph (both edge families, all nodes).
R20.3  collider openness vs path family: over *simple paths* a collider is open iff it is in An(Z); testing membership in Z itself is
       complete only over walks.
R20.4  stateless: neither the test nor disorient() caches or mutates anything.
"""

from __future__ import annotations

from ..effects import Effects
from ..model import AnalysisError, Model
from ..report import Report
from ..setalg import SetAlg, compare, f_and, f_not, f_or, show_formula, show_row
from ..symeval import Evaluator
from ..terms import Term, const, mapterm, show, subterms, var
from .common import GRAPH_PRIMS, NXMG, VARIABLE, construct, loc, return_paths, short, typed, kwargs_of

SS = "y0.algorithm.separation.sigma_separation"
PRIMS = {f"{SS}._has_either_edge", f"{SS}._only_directed_edge"}


def run(model: Model, rep: Report, tier: str) -> None:
    rep.level = "other"
    rep.explanation = (
        "The four triple predicates are evaluated to boolean formulas over the atoms either-edge(u,v), only-directed(u,v), m∈Z, m∈σ(l), m∈σ(r) "
        "and compared by satisfiability (i) with their own mirror image (left/right swapped) and (ii) with the published σ-open formula. The "
        "path predicate and the separation verdict are checked as quantifier terms. R20.3 records which path family is enumerated and which set "
        "the collider rule consults. Decides symmetry, adjacency and these necessary conditions; agreement with d-separation on every ADMG is "
        "not decided beyond them."
    )
    rep.trusted_base = ["networkx all_simple_paths on an undirected graph is symmetric in its endpoints", "more_itertools.triplewise", "C14 R14.2 for disorient()"]
    rep.floors = {"R20.1": 8, "R20.2": 4, "R20.3": 1, "R20.4": 2}
    from ..refcmp import compare_with_reference, load_reference, private_callees, run_table
    from .common import graph_rewrite, rewriter

    load_reference(model, "yvref.c20", "c20_ref.py")
    # the paths are enumerated on graph.disorient(): it must be the flat graph over ALL nodes (an isolated end node is a node)
    from . import c14 as _c14
    _c14.flat_graph_rows(model, rep, "R20.2", which=("disorient",))
    sa = SetAlg(rewriter(graph_rewrite))
    V = ("cls", VARIABLE)
    G = ("cls", NXMG)
    SG = ("dict", None, None)
    ZS = ("set", V)
    PUB = {f"{SS}.{x}" for x in ("is_collider", "is_non_collider_left_chain", "is_non_collider_right_chain", "is_non_collider_fork", "is_z_sigma_open",
                                 "get_equivalence_classes", "are_sigma_separated")}

    def mk(model_, prims):
        return lambda: Evaluator(model_, primitives=set(GRAPH_PRIMS) | set(prims))

    def evaluate(name, swapped=False):
        # private edge helpers are inlined: the atoms are graph.directed.has_edge / graph.undirected.has_edge themselves
        f = model.func(f"{SS}.{name}")
        ev = Evaluator(model, primitives=set(GRAPH_PRIMS))
        L, R = typed(ev, "left", V), typed(ev, "right", V)
        args = {"graph": typed(ev, "graph", G), "left": R if swapped else L, "middle": typed(ev, "middle", V), "right": L if swapped else R,
                "conditions": typed(ev, "conditions", ZS)}
        if "sigma" in f.params:
            args["sigma"] = typed(ev, "sigma", SG)
        rets = return_paths(ev.run(f, args))
        fm = f_or(*[f_and(*[sa.cond(c) for c in r.conds], sa.cond(r.value) if r.value[0] != "const" else (r.value[1] is True)) for r in rets])
        args = dict(args, left=L, right=R)
        return f, args, fm

    fc, ac, Fc = evaluate("is_collider")
    fl, al, Fl = evaluate("is_non_collider_left_chain")
    fr, ar, Fr = evaluate("is_non_collider_right_chain")
    ff, af, Ff = evaluate("is_non_collider_fork")
    # all four evaluations use the same argument names, so their atoms coincide
    def mirror_check(name, fname, f, other):
        _, _, Fsw = evaluate(fname, swapped=True)
        eq, row, _ = compare(Fsw, other)
        (rep.proven if eq else rep.refuted)("R20.1", construct(f, name), "" if eq else
                                            f"swapping left and right does not give the mirror predicate: differs when [{short(show_row(row), 260)}] — the verdict then depends on the direction in which a path is traversed", loc(f))
    mirror_check("self-mirror", "is_collider", fc, Fc)
    mirror_check("mirror-of-right-chain", "is_non_collider_left_chain", fl, Fr)
    mirror_check("self-mirror", "is_non_collider_fork", ff, Ff)
    # published formulas (reference comparison; the definitions are written over the graph's own edge tests)
    T4 = {"graph": G, "left": V, "middle": V, "right": V, "conditions": ZS}
    T5 = dict(T4, sigma=SG)
    table = [
        ("R20.1", f"{SS}.is_collider", "collider", T4, (), "published:collider", "a collider (arrowheads from both sides at m) is open iff m is conditioned on"),
        ("R20.1", f"{SS}.is_non_collider_left_chain", "left_chain", T5, (), "published:left-chain",
         "m -> left with an arrowhead from the right is open iff m ∉ Z, or m ∈ Z and m lies in the strongly connected component of the node it points to"),
        ("R20.1", f"{SS}.is_non_collider_right_chain", "right_chain", T5, (), "published:right-chain", "mirror image of the left chain"),
        ("R20.1", f"{SS}.is_non_collider_fork", "fork", T5, (), "published:fork",
         "a fork is open iff m ∉ Z, or m ∈ Z and m lies in the components of both nodes it points to"),
        ("R20.2", f"{SS}.are_sigma_separated", "separated", {"graph": G, "left": V, "right": V, "conditions": ("union", (("iter", V), "none"))},
         PUB - {f"{SS}.are_sigma_separated"}, "no-open-path",
         "two nodes are separated iff NO simple path between them in the flat undirected graph of both edge families (disorient()) is open"),
        ("R20.2", f"{SS}.get_equivalence_classes", "strongly_connected_classes", {"graph": G}, (), "sigma-classes", "σ(v) = An(v) ∩ De(v) for every node"),
    ]
    run_table(model, rep, table, "yvref.c20", mk, sa, construct=construct, loc=loc)
    # path predicate and its per-triple helpers: the helpers are private (their names are free), so they are found by their place in the call
    # graph -- the routine is_z_sigma_open applies to each triple, and the routine THAT one applies to a single triple
    fz = model.func(f"{SS}.is_z_sigma_open")
    per_triple = private_callees(model, fz, PUB)
    TZ = {"graph": G, "path": ("list", V), "sigma": SG, "conditions": ("union", (ZS, "none"))}
    T6 = {"graph": G, "left": V, "middle": V, "right": V, "conditions": ZS, "sigma": SG}
    if len(per_triple) == 1:
        h1 = model.func(per_triple[0])
        four = private_callees(model, h1, PUB)
        alias1 = {"yvref.c20.passable": h1.qname}
        _, v, d, smp = compare_with_reference(model, fz.qname, "yvref.c20.path_open", TZ, mk(model, PUB | {h1.qname, "yvref.c20.passable"}), sa, alias=alias1)
        _verdict(rep, "R20.2", construct(fz, "path-open"), v, "a path is open iff no endpoint is conditioned and EVERY consecutive triple is passable: " + d, loc(fz), smp)
        if len(four) == 1:
            h2 = model.func(four[0])
            _, v, d, smp = compare_with_reference(model, h1.qname, "yvref.c20.passable", T6, mk(model, PUB | {h2.qname, "yvref.c20.triple_open"}), sa,
                                                  alias={"yvref.c20.triple_open": h2.qname})
            _verdict(rep, "R20.2", construct(fz, "triple-passable"), v, "a triple is passable iff it is open, or open after one step to a neighbour of the middle node and back: " + d, loc(h1), smp)
            _, v, d, smp = compare_with_reference(model, h2.qname, "yvref.c20.triple_open", T6, mk(model, PUB), sa)
            _verdict(rep, "R20.1", construct(fz, "four-cases"), v, "a triple is open iff it is one of the four published forms: " + d, loc(h2), smp)
        else:
            _, v, d, smp = compare_with_reference(model, h1.qname, "yvref.c20.passable", T6, mk(model, PUB), sa)
            _verdict(rep, "R20.2", construct(fz, "triple-passable"), v, "a triple is passable iff it is open, or open after one step to a neighbour of the middle node and back: " + d, loc(h1), smp)
            rep.proven("R20.1", construct(fz, "four-cases"), loc=loc(h1)) if v == "PROVEN" else rep.unknown("R20.1", construct(fz, "four-cases"), "decided together with triple-passable", loc(h1))
    else:
        _, v, d, smp = compare_with_reference(model, fz.qname, "yvref.c20.path_open", TZ, mk(model, PUB - {fz.qname}), sa)
        _verdict(rep, "R20.2", construct(fz, "path-open"), v, "a path is open iff no endpoint is conditioned and EVERY consecutive triple is passable: " + d, loc(fz), smp)
        for role, rule in (("triple-passable", "R20.2"), ("four-cases", "R20.1")):
            rep.proven(rule, construct(fz, role), loc=loc(fz)) if v == "PROVEN" else rep.unknown(rule, construct(fz, role), "decided together with path-open (helpers inlined)", loc(fz))
    # path family used by the separation test
    fs = model.func(f"{SS}.are_sigma_separated")
    ev = Evaluator(model, primitives=set(GRAPH_PRIMS) | (PUB - {fs.qname}))
    rets = return_paths(ev.run(fs, {"graph": typed(ev, "graph", G), "left": typed(ev, "left", V), "right": typed(ev, "right", V),
                                    "conditions": typed(ev, "conditions", ("iter", V)), "cutoff": var("cutoff")}))
    fams = {s_[1].split(".")[-1] for x in rets for s_ in subterms((x.value, x.conds)) if s_[0] == "call" and isinstance(s_[1], str) and "paths" in s_[1].split(".")[-1]}
    fam = next(iter(fams)) if len(fams) == 1 else None
    # does the collider rule consult Z itself (the published per-triple rule)?  -- the same comparison as R20.1#published:collider
    consults_raw = compare_with_reference(model, f"{SS}.is_collider", "yvref.c20.collider", T4, mk(model, ()), sa)[1] == "PROVEN"
    # ---------------------------------------------------------------- R20.3
    # which set does the collider rule consult?
    cons = construct(fc, "collider-vs-path-family")
    if fam == "all_simple_paths" and consults_raw:
        rep.refuted("R20.3", cons, "paths are enumerated as SIMPLE paths but a collider is opened only when it is itself in Z: over simple paths the rule must be 'collider ∈ An(Z)' "
                    "(the one-step back-track only reaches a conditioned child). A -> C <- B, C -> D -> E, Z = {E}: reported σ-separated, but A and B are d-connected given E", loc(fc))
    elif fam is None:
        rep.unknown("R20.3", cons, "path family not identified", loc(fc))
    else:
        rep.proven("R20.3", cons, loc=loc(fc))
    # ---------------------------------------------------------------- R20.4
    eff = Effects(model)
    # the public test, the flat graph, the equivalence classes -- and every predicate of the module: a triple / path predicate that edits
    # the equivalence classes or the conditioning set it is handed makes later paths of the SAME query see different data (verdict depends
    # on path order, symmetry is lost)
    qs = [f"{SS}.are_sigma_separated", f"{NXMG}.disorient", f"{SS}.get_equivalence_classes"]
    qs += sorted(fn_.qname for fn_ in model.funcs_in_module(SS) if fn_.cls is None and fn_.qname not in qs)
    for q in qs:
        f = model.func(q)
        sm = eff.summary(f)
        if sm.mutates:
            p, es = next(iter(sm.mutates.items()))
            rep.refuted("R20.4", construct(f, "stateless"), f"modifies `{p}` ({es[0].how}): the verdict can depend on earlier calls on the same graph object", loc(f, es[0].line))
        else:
            rep.proven("R20.4", construct(f, "stateless"), loc=loc(f))


def _verdict(rep: Report, rule: str, cons: str, verdict: str, detail: str, where: str, sample: dict) -> None:
    if verdict == "PROVEN":
        rep.proven(rule, cons, loc=where, sample=sample)
    elif verdict == "REFUTED":
        rep.refuted(rule, cons, "deviates from the definition (" + (detail if len(detail) <= 900 else detail[:899] + "…") + ")", where, sample=sample)
    else:
        rep.unknown(rule, cons, detail, where)
