"""Shared pieces for the DSL rules (C10-C13)."""

from __future__ import annotations

from ..model import Cls, Model
from ..symeval import Evaluator
from ..terms import Term, subterms

DSL = "y0.dsl"
EXPR = f"{DSL}.Expression"
ATOMIC = ("Probability", "PopulationProbability", "Sum", "QFactor")
KINDS = ("One", "Zero", "Fraction", "Product") + ATOMIC

DSL_PRIMS = {
    f"{DSL}.Product.safe", f"{DSL}.Sum.safe", f"{DSL}.Distribution.safe", f"{DSL}.Probability.safe",
    f"{DSL}._upgrade_ordering", f"{DSL}._upgrade_variables", f"{DSL}._sorted_variables", f"{DSL}._sort_interventions",
    f"{DSL}._to_interventions", f"{DSL}.ensure_ordering", f"{DSL}.Variable.norm",
}
OP_METHODS = {"__mul__", "__truediv__", "__rmul__", "__matmul__", "__or__", "__and__"}


def concrete_expression_classes(model: Model) -> list[Cls]:
    base = model.cls(EXPR)
    out = []
    for c in base.all_subclasses():
        abstract = any(
            any(getattr(d, "id", getattr(d, "attr", "")) == "abstractmethod" for d in m.node.decorator_list)
            for m in c.methods.values()
        )
        if not abstract:
            out.append(c)
    return sorted(out, key=lambda c: c.qname)


def classes_consistent(model: Model, classes: list[Cls], conds: tuple, subject: Term) -> list[Cls]:
    """Classes the subject may have on a path, from the (negated) isinstance conditions about it."""
    out = list(classes)

    def parts(c):
        if c[0] == "and":
            for x in c[1:]:
                yield from parts(x)
        else:
            yield c

    for c0 in conds:
        for c in parts(c0):
            neg = False
            while c[0] == "not":
                neg = not neg
                c = c[1]
            if c[0] == "isinstance" and c[1] == subject and isinstance(c[2], tuple):
                names = [n.split(".")[-1] for n in c[2]]
                if neg:
                    out = [k for k in out if not any(k.is_subclass_of(n) for n in names)]
                else:
                    out = [k for k in out if any(k.is_subclass_of(n) for n in names)]
            elif c[0] == "or" and not neg:
                # disjunction of isinstance tests on the subject
                allowed = []
                ok = True
                for x in c[1:]:
                    if x[0] == "isinstance" and x[1] == subject:
                        allowed += [n.split(".")[-1] for n in x[2]]
                    else:
                        ok = False
                if ok and allowed:
                    out = [k for k in out if any(k.is_subclass_of(n) for n in allowed)]
    return out


def kind_of(c: Cls) -> str:
    for k in ("One", "Zero", "Fraction", "Product"):
        if c.is_subclass_of(k):
            return k
    return "atomic"


def mentions(t, sub) -> bool:
    return any(s == sub for s in subterms(t))
