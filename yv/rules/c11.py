"""C11 -- canonical form is a true normal form.

R11.1  sort-key coverage: everything equality compares is read by _get_key (necessary for injectivity).
R11.2  key comparability: distinct integer priorities / equal grammars.
R11.3  shape closure: the Product branch flattens *after* canonicalising its factors; the Fraction branch's
       equality/One shortcuts act on canonical operands; Product.safe sorts.
       quotient closure: the Fraction branch's result is again a fixed point of its own shortcuts -- either the quotient is re-examined
       (x/1, a/a) before it is returned, or every `__truediv__` builds only fractions whose denominator cannot be One() and whose two
       parts are known to differ (dividing by a fraction multiplies out: a / (1/c) is built as Fraction(a*c, 1)).
R11.4  determinism: no hash-ordered iteration reaches a key, an ordered field, or printed text on the
       canonicalisation path.
R11.5  per-distribution ordering: children stay children, parents stay parents, both sorted by one key.
"""

from __future__ import annotations

import ast

from ..hashord import leaks
from ..model import AnalysisError, Model
from ..report import Report
from ..setalg import SetAlg
from ..symeval import Evaluator
from ..terms import Term, const, show, subterms, var
from .common import construct, exc_name, loc, return_paths, short, typed
from .dslcommon import DSL, DSL_PRIMS, EXPR, concrete_expression_classes, mentions

CAN = "y0.mutate.canonicalize_expr"
ARMED = ("Probability", "PopulationProbability", "Sum", "Product", "Fraction")
VARIABLE_FIELDS = ("name", "star", "interventions")


def run(model: Model, rep: Report, tier: str) -> None:
    rep.level = "other"
    rep.explanation = (
        "Permutation invariance of canonicalize needs an injective sort key (sorted is stable, so unequal factors with "
        "equal keys keep their input order): for every class the canonicaliser accepts, the read-footprint of _get_key "
        "(which fields, and whether all elements or only element 0 / a minimum) is computed from its evaluated return "
        "term and compared with the dataclass equality footprint. Idempotence needs a flat, sorted product and "
        "shortcuts on canonical operands: decided on the evaluated branches of Canonicalizer.canonicalize. Hash-seed "
        "independence: no iteration over a set/frozenset reaches an ordered value without sorted(). Decides necessary "
        "conditions for a normal form; full confluence of the rewriting is not decided."
    )
    rep.trusted_base = ["Python's sorted is stable and total on tuples of comparable components", "dataclass(eq=True) compares all fields"]
    rep.floors = {"R11.1": 5, "R11.2": 1, "R11.3": 5, "R11.4": 8, "R11.5": 2}
    classes = concrete_expression_classes(model)
    r11_1(model, rep, classes)
    r11_2(model, rep, classes)
    r11_3(model, rep)
    r11_3_quotient(model, rep, classes)
    r11_4(model, rep, classes)
    r11_5(model, rep)


def _key_term(model, K):
    f = K.find_method("_get_key")
    ev = Evaluator(model, primitives={f"{DSL}._sort_interventions"}, prim_methods={"to_text"})
    slf = typed(ev, "self", ("cls", K.qname))
    rets = return_paths(ev.run(f, {}, self_term=slf))
    return f, ev, slf, rets


def _reads(t: Term, root: Term):
    """Yield (field path relative to root, mode) for every read of root's state in a key term."""
    out = []

    def path_of(x):
        p = []
        while x[0] == "attr":
            p.append(x[2])
            x = x[1]
        return tuple(reversed(p)) if x == root else None

    def go(x, mode):
        if not isinstance(x, tuple):
            return
        if not (x and isinstance(x[0], str)):
            for y in x:
                go(y, mode)
            return
        h = x[0]
        if h == "attr":
            p = path_of(x)
            if p is not None:
                out.append((p, mode))
                return
        if h == "index" and x[2][0] == "const":
            go(x[1], "element-" + str(x[2][1]))
            return
        if h == "call" and x[1] in ("min", "max"):
            for y in x[2]:
                go(y, "min/max only")
            return
        if h == "comp":
            for pat, it, cs in x[3]:
                go(it, mode)
                for c in cs:
                    go(c, mode)
            go(x[2], mode)
            return
        for y in x[1:]:
            go(y, mode)

    go(t, "full")
    return out


def _elem_fields(t: Term, field_path: tuple, root: Term) -> set[str]:
    """Which Variable attributes does the key read from the elements of the collection at field_path?"""
    got = set()
    target = root
    for p in field_path:
        target = ("attr", target, p)
    for s in subterms(t):
        if s[0] == "comp":
            for pat, it, cs in s[3]:
                core = it
                while core[0] == "call" and core[2]:
                    core = core[2][0]
                if core == target and pat[0] == "var":
                    for u in subterms(s[2]):
                        if u[0] == "attr" and u[1] == pat:
                            got.add(u[2])
                        if u[0] == "isinstance" and u[1] == pat:
                            got.add("class")
    return got


def r11_1(model: Model, rep: Report, classes) -> None:
    for K in classes:
        if K.name in ("One", "Zero"):
            continue
        f, ev, slf, rets = _key_term(model, K)
        cons = construct(f, f"coverage:{K.name}")
        armed = K.name in ARMED
        if len(rets) != 1:
            rep.unknown("R11.1", cons, f"{len(rets)} return paths", loc(f), required=armed)
            continue
        key = rets[0].value
        reads = _reads(key, slf)
        full = {p for p, m in reads if m == "full"}
        partial = {p: m for p, m in reads if m != "full"}
        problems = []
        fields = K.all_fields()
        for fld, ann in fields.items():
            a = ast.unparse(ann) if ann is not None else ""
            if fld == "distribution":
                for sub in ("children", "parents"):
                    pth = ("distribution", sub)
                    if pth not in full:
                        how = partial.get(pth)
                        problems.append(f"`{sub}` of the distribution is " + (f"read only as {how}" if how else "never read") + " by the key, but equality compares all of it")
                    else:
                        ef = _elem_fields(key, pth, slf)
                        miss = [x for x in VARIABLE_FIELDS if x not in ef]
                        if miss:
                            problems.append(f"the key reads only {sorted(ef)} of each variable in `{sub}`; equality also compares {miss}")
            elif "Expression" in a:
                # nested expression(s): must be read through their own key
                ok = any(s[0] == "meth" and s[2] == "_get_key" and mentions(s[1], ("attr", slf, fld)) for s in subterms(key)) or any(
                    s[0] == "meth" and s[2] == "_get_key" and s[1][0] == "var" for s in subterms(key)) and (fld,) in full
                if not ok:
                    problems.append(f"sub-expression field `{fld}` does not enter the key through its own _get_key()")
            elif a.startswith("frozenset") or a.startswith("tuple"):
                if (fld,) not in full:
                    how = partial.get((fld,))
                    problems.append(f"field `{fld}` is " + (f"read only as {how}" if how else "never read") + " by the key, but equality compares all of it")
                elif not _elem_fields(key, (fld,), slf) & {"name"}:
                    problems.append(f"the key does not read the names of the variables in `{fld}`")
            else:
                if (fld,) not in full:
                    problems.append(f"field `{fld}` is never read by the key")
        # subscripts of counterfactual variables: wherever the key walks over `<variable>.interventions` it must read BOTH the name and
        # the star (the value) of each intervention -- equality of variables compares the intervention objects themselves
        for s_ in subterms(key):
            if s_[0] != "comp":
                continue
            for pat, it, _cs in s_[3]:
                core = it
                while core[0] == "call" and core[2]:
                    core = core[2][0]
                if core[0] == "attr" and core[2] == "interventions" and pat[0] == "var":
                    got = {u[2] for u in subterms(s_[2]) if u[0] == "attr" and u[1] == pat}
                    whole = any(u == pat for u in (s_[2],)) or (s_[2][0] == "tuplelit" and pat in s_[2][1])
                    if not whole and not {"name", "star"} <= got:
                        problems.append(f"the key reads only {sorted(got)} of each subscript (intervention) of a counterfactual variable; equality also compares "
                                        f"{sorted({'name', 'star'} - got)}: P(Y_x) and P(Y_x*) get the same key")
        sample = {"key": short(show(key), 300), "full_reads": sorted(".".join(p) for p in full), "partial_reads": {".".join(p): m for p, m in partial.items()}}
        if problems:
            msg = "; ".join(problems) + " -- two unequal factors tie, the stable sort keeps their input order, and permuted products canonicalise differently"
            if armed:
                rep.refuted("R11.1", cons, msg, loc(f), sample=sample)
            else:
                rep.unknown("R11.1", cons, "(informational, class outside the canonicaliser's domain) " + msg, loc(f), required=False)
        else:
            rep.proven("R11.1", cons, loc=loc(f), sample=sample)


def r11_2(model: Model, rep: Report, classes) -> None:
    prios = {}
    bad = []
    for K in classes:
        f, ev, slf, rets = _key_term(model, K)
        for r in rets:
            v = r.value
            if v[0] != "tuplelit" or not v[1] or v[1][0][0] != "const" or not isinstance(v[1][0][1], int):
                bad.append(f"{K.name}._get_key does not start with an integer priority")
            else:
                prios.setdefault(v[1][0][1], []).append((K.name, v))
    for pr, ks in prios.items():
        if len(ks) > 1:
            # same priority: the remaining components must have the same grammar (type-wise)
            shapes = {tuple(_shape(x) for x in v[1][1:]) for _, v in ks}
            if len(shapes) > 1:
                bad.append(f"classes {[k for k, _ in ks]} share priority {pr} with different key shapes {sorted(shapes)} (TypeError when compared)")
    f = model.cls(EXPR).find_method("__lt__")
    (rep.refuted if bad else rep.proven)("R11.2", "y0.dsl:Expression._get_key#priorities", "; ".join(bad), loc(f) if f else "",
                                         sample={"priorities": {str(k): [n for n, _ in v] for k, v in prios.items()}})


def _shape(x: Term) -> str:
    if x[0] == "const":
        return type(x[1]).__name__
    if x[0] in ("tuplelit",) or (x[0] == "call" and x[1] == "tuple"):
        return "tuple"
    if x[0] == "meth" and x[2] in ("to_text",):
        return "str"
    if x[0] == "attr" and x[2] == "name":
        return "str"
    return "?"


def r11_3(model: Model, rep: Report) -> None:
    from ..refcmp import compare_with_reference, load_reference
    from ..terms import mapterm
    from . import c10

    canon = model.func(f"{CAN}.Canonicalizer.canonicalize")
    canon_cls = model.cls(f"{CAN}.Canonicalizer")
    if "yvref.c11" not in model.modules:
        load_reference(model, "yvref.c11", "c11_ref.py")
    scratch = Report(rep.property_id, rep.tier)
    helpers = c10.find_flatteners(model, scratch)  # verified re-yielders of factors (whatever they are called); their own obligations are C10's

    def post(v):
        # flat(L): the factors of every element of the sequence L, nested products expanded;  flat1(x): the factors of ONE expression
        # (x itself unless it is a product).  flat(x.expressions) is flat1(x) -- only a Product has .expressions
        def f(s_):
            if s_[0] in ("call", "recurse") and isinstance(s_[1], str):
                if s_[1] in c10.FLATTENERS:
                    arg = (list(s_[2]) + [x for _, x in s_[3]])[0]
                    kind = c10.FLATTENERS[s_[1]]
                    if kind == "seq":
                        return f(("flat", arg)) or ("flat", arg)
                    return ("flat1", arg)
                if s_[1] == "yvref.c11.flat":
                    a_ = (list(s_[2]) + [x for _, x in s_[3]])[0]
                    return f(("flat", a_)) or ("flat", a_)
            if s_[0] == "flat" and len(s_) == 2 and s_[1][0] == "attr" and s_[1][2] == "expressions":
                return ("flat1", s_[1][1])
            if s_[0] == "flat" and len(s_) == 2 and s_[1][0] in ("listlit", "tuplelit") and len(s_[1][1]) == 1 and s_[1][1][0][0] != "star":
                return ("flat1", s_[1][1][0])
            if s_[0] == "comp" and s_[1] in ("list", "gen") and len(s_[3]) == 2 and s_[2] == s_[3][1][0] and not s_[3][1][2] and s_[3][1][1][0] == "flat1":
                # [f for s in S for f in flat1(g(s))]  =  flat([g(s) for s in S])
                return ("flat", ("comp", s_[1], s_[3][1][1][1], (s_[3][0],)))
            return None
        return mapterm(v, f)

    CC = ("cls", canon_cls.qname)
    mk = lambda: Evaluator(model, primitives=set(DSL_PRIMS) | set(helpers) | {"yvref.c11.flat"}, prim_methods={"_new", "__truediv__", "__mul__"})  # noqa: E731
    _, verdict, detail, sample = compare_with_reference(model, canon.qname, "yvref.c11.canonical_form", {"self": CC, "expression": ("cls", EXPR)}, mk, SetAlg(),
                                                        post=post, impl_self_type=CC)
    words = ("probabilities: children/parents each sorted by the position of the variable's name in the ordering, rebuilt through _new; sums: canonical "
             "summand, same ranges, re-simplified; products: nested products expanded before AND after canonicalising the factors, then Product.safe; "
             "fractions: x/1 = x and a/a = 1 on the CANONICAL operands and again on their quotient; One/Zero unchanged; anything else refused")
    for role in ("product-flat", "fraction-shortcuts", "sum-simplified"):
        cons = construct(canon, role)
        if verdict == "PROVEN":
            rep.proven("R11.3", cons, loc=loc(canon), sample=sample)
        elif verdict == "REFUTED":
            rep.refuted("R11.3", cons, f"deviates from the definition ({words}): {short(detail, 800)}", loc(canon), sample=sample)
        else:
            rep.unknown("R11.3", cons, detail, loc(canon))
    # Product.safe sorts
    f = model.func(f"{DSL}.Product.safe")
    ev = Evaluator(model)
    E = typed(ev, "expressions", ("iter", ("cls", EXPR)))
    paths = return_paths(ev.run(f, {"expressions": E}, self_term=("ref", f"{DSL}.Product")))
    prods = [p.value for p in paths if p.value[0] == "rec" and p.value[1].endswith(".Product")]
    ok = bool(prods) and all(any(s[0] == "call" and s[1] == "sorted" for s in subterms(dict(v[2]).get("expressions"))) for v in prods)
    (rep.proven if ok else rep.refuted)("R11.3", construct(f, "sorted"), "" if ok else "Product.safe builds a Product without sorting its factors", loc(f))


def _conj(conds):
    for c in conds:
        if c[0] == "and":
            yield from _conj(c[1:])
        else:
            yield c


def _not_one(conds, t: Term) -> bool:
    return any(c[0] == "not" and c[1][0] == "isinstance" and c[1][1] == t and any(str(n).split(".")[-1] == "One" for n in (c[1][2] if isinstance(c[1][2], tuple) else ()))
               for c in _conj(conds))


def _differ(conds, a: Term, b: Term) -> bool:
    for c in _conj(conds):
        if c[0] == "ne" and {c[1], c[2]} == {a, b}:
            return True
        if c[0] == "not" and c[1][0] == "eq" and {c[1][1], c[1][2]} == {a, b}:
            return True
    return False


def r11_3_quotient(model: Model, rep: Report, classes) -> None:
    """canon(canon(e)) = canon(e) for fractions: what the Fraction branch returns must not be reducible by the branch's own shortcuts."""
    canon = model.func(f"{CAN}.Canonicalizer.canonicalize")
    cons = construct(canon, "quotient-closed")
    ev = Evaluator(model, primitives=set(DSL_PRIMS), prim_methods={"_new", "__truediv__", "__mul__"})
    slf = typed(ev, "self", ("cls", f"{CAN}.Canonicalizer"))
    X = typed(ev, "expression", ("cls", f"{DSL}.Fraction"))
    try:
        paths = return_paths(ev.run(canon, {"expression": X}, self_term=slf))
    except Exception as e:  # noqa: BLE001
        rep.unknown("R11.3", cons, f"the Fraction branch could not be evaluated: {type(e).__name__}", loc(canon))
        return
    paths = [p for p in paths if not ev.infeasible(p.conds)]
    quotients = []  # (path, q) for paths that hand back a division result as it is
    for p in paths:
        v = p.value
        if v[0] == "op" and v[1] == "/" and len(v) == 4:
            quotients.append((p, v))
        elif v[0] == "meth" and v[2] == "__truediv__" and len(v[3]) == 1:
            quotients.append((p, v))
    if not quotients:
        rep.proven("R11.3", cons, loc=loc(canon), nontrivial=False, sample={"note": "no path of the Fraction branch returns the result of a division as it is"})
        return
    unguarded = []
    for p, q in quotients:
        is_frac = ("isinstance", q, (f"{DSL}.Fraction",))
        cs = list(_conj(p.conds))
        not_fraction = any(c[0] == "not" and c[1][0] == "isinstance" and c[1][1] == q and any(str(n).split(".")[-1] == "Fraction" for n in c[1][2]) for c in cs)
        qn, qd = ("attr", q, "numerator"), ("attr", q, "denominator")
        if not_fraction or (_not_one(p.conds, qd) and _differ(p.conds, qn, qd)):
            continue
        unguarded.append((p, q))
        del is_frac
    if not unguarded:
        rep.proven("R11.3", cons, loc=loc(canon), sample={"quotient-returning paths": len(quotients),
                                                         "rule": "each is returned only when it is not a Fraction, or its denominator is not One() and its parts differ"})
        return
    # the quotient is returned unexamined: then the divisions themselves must only build irreducible fractions, given what the branch has
    # established about the operands (divisor is not One(), dividend != divisor) and the invariant being proved (a canonical Fraction's
    # denominator is not One())
    problems, undecided, n_built = [], [], 0
    seen = set()
    for K in classes:
        m = K.find_method("__truediv__")
        if m is None or m.qname in seen:
            continue
        seen.add(m.qname)
        ev2 = Evaluator(model, primitives=set(DSL_PRIMS), prim_methods={"__mul__", "_new"})
        me = typed(ev2, "self", ("cls", m.cls.qname if m.cls is not None else K.qname))
        other_name = m.params[1] if len(m.params) > 1 else "expression"
        other = typed(ev2, other_name, ("cls", EXPR))
        try:
            ps = return_paths(ev2.run(m, {other_name: other}, self_term=me))
        except Exception as e:  # noqa: BLE001
            undecided.append(f"{m.qname}: {type(e).__name__}")
            continue

        def nonone(d, conds):
            if d == other or _not_one(conds, d):
                return True
            if d[0] == "attr" and d[2] == "denominator" and d[1] in (me, other):
                return True  # the invariant: a canonical fraction's denominator is not One()
            if d[0] == "op" and d[1] == "*" and len(d) == 4:
                return nonone(d[2], conds) or nonone(d[3], conds)
            if d[0] == "meth" and d[2] in ("__mul__", "__rmul__") and len(d[3]) == 1:
                return nonone(d[1], conds) or nonone(d[3][0], conds)
            return False

        for p in ps:
            if ev2.infeasible(p.conds):
                continue
            if any(c[0] == "isinstance" and c[1] == other and any(str(n).split(".")[-1] == "One" for n in c[2]) for c in _conj(p.conds)):
                continue  # the branch never divides by One()
            v = p.value
            if v in (me, other) or (v[0] == "attr" and v[1] in (me, other)):
                continue
            if v[0] in ("rec", "new") and str(v[1]).split(".")[-1] == "Fraction":
                n_built += 1
                fields = dict(v[2]) if v[0] == "rec" else dict(v[3])
                args = list(v[2]) if v[0] == "new" else []
                n_, d_ = fields.get("numerator", args[0] if args else None), fields.get("denominator", args[1] if len(args) > 1 else None)
                if n_ is None or d_ is None:
                    undecided.append(f"{m.qname}: Fraction built with unread arguments")
                    continue
                where = f"{m.qname.split(':')[-1] if ':' in m.qname else m.qname} (line {p.line}) builds Fraction({short(show(n_), 60)}, {short(show(d_), 60)})"
                if not nonone(d_, p.conds):
                    problems.append(where + ": the denominator can be One() -- a / (1/c) becomes Fraction(a*c, One()), which the next canonicalisation reduces to a*c")
                elif not ((n_, d_) == (me, other) or _differ(p.conds, n_, d_)):
                    problems.append(where + ": numerator and denominator can be equal (for instance a / (a*b / b) is built as Fraction(a*b, a*b)), which the next canonicalisation reduces to One()")
            else:
                undecided.append(f"{m.qname} (line {p.line}) returns {short(show(v), 80)}")
    sample = {"unexamined quotient returned at": [loc(canon, p.line) for p, _ in unguarded], "fractions built by __truediv__": n_built}
    if problems:
        rep.refuted("R11.3", cons, "the Fraction branch returns `numerator / denominator` without re-applying its x/1 and a/a shortcuts to the quotient, and "
                    + "; ".join(sorted(set(problems))[:3]) + " -- canonicalize(canonicalize(e)) != canonicalize(e)", loc(canon, unguarded[0][0].line), sample=sample)
    elif undecided:
        rep.unknown("R11.3", cons, "quotient returned unexamined and the division is not read: " + "; ".join(undecided[:3]), loc(canon))
    else:
        rep.proven("R11.3", cons, loc=loc(canon), sample=sample)


def _product_safe_flattens(model: Model) -> bool:
    f = model.func(f"{DSL}.Product.safe")
    src = ast.unparse(f.node)
    return "_flatten" in src


def r11_4(model: Model, rep: Report, classes) -> None:
    # keys
    for K in classes:
        f, ev, slf, rets = _key_term(model, K)
        cons = construct(f, f"hash-order:{K.name}")
        ls = []
        for r in rets:
            ls += leaks(ev, r.value, r.conds)
        if ls:
            rep.refuted("R11.4", cons, "the sort key depends on PYTHONHASHSEED: " + "; ".join(sorted(set(ls))[:2]), loc(f))
        else:
            rep.proven("R11.4", cons, loc=loc(f))
    # canonicalize cone: ordered fields built on the way
    canon = model.func(f"{CAN}.Canonicalizer.canonicalize")
    canon_cls = model.cls(f"{CAN}.Canonicalizer")
    for kname in ("Probability", "Sum", "Product", "Fraction"):
        ev = Evaluator(model, primitives={f"{CAN}._flatten_product", f"{CAN}._flatten_expressions", f"{DSL}.Sum.safe"}, prim_methods={"_new", "__truediv__", "__mul__"})
        slf = typed(ev, "self", ("cls", canon_cls.qname))
        e = typed(ev, "expression", ("cls", f"{DSL}.{kname}"))
        ev.exact_terms.add(e)
        rets = return_paths(ev.run(canon, {"expression": e}, self_term=slf))
        ls = []
        for r in rets:
            ls += leaks(ev, r.value, r.conds)
        cons = construct(canon, f"hash-order:{kname}")
        if ls:
            rep.refuted("R11.4", cons, "; ".join(sorted(set(ls))[:2]), loc(canon))
        else:
            rep.proven("R11.4", cons, loc=loc(canon))
    # the constructors / simplifiers the canonicaliser ends in (Sum.safe(simplify=True) -> Sum.simplify, Product.safe): what they build is part
    # of the canonical form
    for cname, mname, types_ in (("Sum", "simplify", {}), ("Sum", "safe", {"expression": ("cls", EXPR), "ranges": ("iter", ("cls", f"{DSL}.Variable"))}),
                                 ("Product", "safe", {"expressions": ("iter", ("cls", EXPR))})):
        K = model.cls(f"{DSL}.{cname}")
        f = K.find_method(mname)
        if f is None:
            continue
        ev = Evaluator(model, prim_methods={"_new", "get_base"})
        args = {k_: typed(ev, k_, t_) for k_, t_ in types_.items()}
        if f.is_classmethod or f.is_staticmethod:
            rets = return_paths(ev.run(f, args, self_term=("ref", K.qname)) if f.is_classmethod else ev.run(f, args))
        else:
            slf = typed(ev, "self", ("cls", K.qname))
            rets = return_paths(ev.run(f, args, self_term=slf))
        ls = []
        for r in rets:
            ls += leaks(ev, r.value, r.conds)
        cons = construct(f, "hash-order")
        (rep.refuted if ls else rep.proven)("R11.4", cons, "; ".join(sorted(set(ls))[:2]), loc(f))
    # ordering helpers used to build distributions
    for q in (f"{DSL}._upgrade_ordering", f"{DSL}._sorted_variables", f"{DSL}.ensure_ordering", f"{DSL}._sort_interventions"):
        f = model.func(q)
        ev = Evaluator(model)
        rets = return_paths(ev.run(f, {}))
        ls = []
        for r in rets:
            ls += leaks(ev, r.value, r.conds)
        (rep.refuted if ls else rep.proven)("R11.4", construct(f, "hash-order"), "; ".join(sorted(set(ls))[:2]), loc(f))


def r11_5(model: Model, rep: Report) -> None:
    from ..terms import alpha_normalise

    canon_cls = model.cls(f"{CAN}.Canonicalizer")
    f = canon_cls.find_method("canonicalize")
    ev = Evaluator(model, prim_methods={"_new"})
    slf = typed(ev, "self", ("cls", canon_cls.qname))
    e = typed(ev, "expression", ("cls", f"{DSL}.Probability"))
    ev.exact_terms.add(e)
    rets = return_paths(ev.run(f, {"expression": e}, self_term=slf))
    problems = []
    keys = set()
    n_sorted = 0
    for r in rets:
        for s in subterms(r.value):
            if s[0] == "call" and s[1] == "sorted":
                n_sorted += 1
                k_ = dict(s[3]).get("key")
                keys.add(alpha_normalise(k_) if k_ is not None else None)
    if n_sorted == 0:
        rep.unknown("R11.5", construct(f, "one-key"), "the probability branch does not order children / parents with sorted(); not read", loc(f))
        return
    if len(keys) != 1 or None in keys:
        problems.append(f"children and parents are not sorted with one key function: {[show(k) if k else None for k in keys]}")
    (rep.refuted if problems else rep.proven)("R11.5", construct(f, "one-key"), "; ".join(problems), loc(f))
    _order_agreement(model, rep)


def _outer_sort_key(v: Term):
    """('sorted', key term or None) when the value is sorted(...) under tuple()/list() wrappers, else ('unsorted', None)."""
    while v[0] == "call" and v[1] in ("tuple", "list") and len(v[2]) == 1 and not v[3]:
        v = v[2][0]
    if v[0] == "call" and v[1] == "sorted" and len(v[2]) == 1:
        kw = dict(v[3])
        if kw.get("reverse") not in (None, const(False)):
            return ("sorted-reverse", kw.get("key"))
        return ("sorted", kw.get("key"))
    return ("unsorted", None)


def _order_agreement(model: Model, rep: Report) -> None:
    """The canonicaliser sorts the variables of a probability by their position in the ordering `ensure_ordering` hands it; Sum.simplify
    rebuilds a marginalised joint through Distribution.safe, which sorts by its own key.  canon(Sum[A](P(A, X2, X10))) is a fixed point only
    if both orders are the same one -- every ordering ensure_ordering can return is `sorted(..., key=K)` with the K Distribution.safe uses."""
    from ..terms import NONE, alpha_normalise

    eo = model.functions.get(f"{DSL}.ensure_ordering")
    ds = model.functions.get(f"{DSL}.Distribution.safe")
    if eo is None or ds is None:
        rep.unknown("R11.5", "y0.dsl:ensure_ordering#order-agreement", "ensure_ordering / Distribution.safe not found", "")
        return
    cons = construct(eo, "order-agreement")
    VAR = ("cls", f"{DSL}.Variable")
    got = []  # (where, kind, key)
    try:
        for label, ordering in (("given ordering", None), ("default ordering", NONE)):
            ev = Evaluator(model)
            e = typed(ev, "expression", ("cls", EXPR))
            o = typed(ev, "ordering", ("iter", VAR)) if ordering is None else ordering
            for r in return_paths(ev.run(eo, {"expression": e, "ordering": o})):
                if ev.infeasible(r.conds):
                    continue
                kind, key = _outer_sort_key(r.value)
                got.append((f"ensure_ordering ({label}, line {r.line})", kind, alpha_normalise(key) if key is not None else None))
        ev = Evaluator(model)
        d = typed(ev, "distribution", ("iter", VAR))
        ref_keys = []
        for r in return_paths(ev.run(ds, {"distribution": d, "args": ("tuplelit", ())}, self_term=("ref", f"{DSL}.Distribution"))):
            v = r.value
            if v[0] in ("rec", "new") and str(v[1]).endswith("Distribution"):
                ch = (dict(v[2]) if v[0] == "rec" else dict(v[3])).get("children")
                if ch is not None:
                    kind, key = _outer_sort_key(ch)
                    ref_keys.append((kind, alpha_normalise(key) if key is not None else None))
    except Exception as ex:  # noqa: BLE001
        rep.unknown("R11.5", cons, f"could not be evaluated: {type(ex).__name__}", loc(eo))
        return
    if not got or not ref_keys:
        rep.unknown("R11.5", cons, "no return path of ensure_ordering / no Distribution built by Distribution.safe(<iterable>) was read", loc(eo))
        return
    if len(set(ref_keys)) != 1:
        rep.unknown("R11.5", cons, "Distribution.safe(<iterable>) orders its children in more than one way", loc(ds))
        return
    want = ref_keys[0]
    bad = [f"{w}: {k} by {show(key) if key else 'natural order'}" for w, k, key in got if (k, key) != want]
    sample = {"Distribution.safe(<iterable>) children": f"{want[0]} by {show(want[1]) if want[1] else 'natural order'}", "orderings read": len(got)}
    if bad:
        rep.refuted("R11.5", cons, "the ordering the canonicaliser sorts by and the order in which Sum.simplify rebuilds a marginalised joint (Distribution.safe: "
                    + sample["Distribution.safe(<iterable>) children"] + ") differ -- " + "; ".join(bad)
                    + " -- so canonicalize(Sum[A](P(A, X2, X10))) is not a fixed point of canonicalize", loc(eo), sample=sample)
    else:
        rep.proven("R11.5", cons, loc=loc(eo), sample=sample)

