"""C09 -- counterfactual transport (ctfTRu / ctfTR / sigma-TR): refinement to the published algorithms (partial).

Each routine is compared, as a term, with the published algorithm line written as plain Python in yv/refs/c09_ref.py
(see yv/refcmp.py for the comparison); the sub-routines it composes are primitives here and are compared with THEIR definitions
by C19 (SIMPLIFY, ancestors, ancestral components, ctf-factors) and C17 (c-factor, IDENTIFY), whose rules are re-run by this check.

R9.1  Algorithm 2 (ctfTRu): SIMPLIFY first, impossible -> Zero; W* = An(Y*) valued by the event, ctf-factors over G[V(W*)];
      inconsistent factor -> FAIL; every factor through sigma-TR, any failure -> FAIL; result Σ_{w*∖y*} Π_i Q_i with the simplified event.
R9.2  Algorithm 3 (ctfTR): data structures, ancestral components of Y* ∪ X* given X*, D* = components that contain an outcome,
      ctfTRu(D*), line 4 = Σ_{d*∖(y*∪x*)} Q / Σ_{d*∖x*} Q of the SAME Q, event = outcomes then conditions.
R9.3  Algorithm 4 (sigma-TR): domain usable iff no policy variable and no selection node on the district; B = the domain's district
      containing the factor; Q[B] from the domain's own data / order / regular nodes (one index k for all three); IDENTIFY(C, B, Q[B]); first success.
R9.4  Definition 4.1 (inconsistent factor): value-vs-subscript and subscript-vs-subscript tests.
R9.5  wrappers: per domain (graph, ordering or a topological order) and (policy variables, population), pairwise in the same order;
      events from counterfactual variables keep subscripts and turn the star into the value.
R9.6  'never another error': inherited R19.1 / R19.3 (constructor preconditions, phantom defaults) for the cone; the only coded raise of
      the three algorithm bodies is sigma-TR's split-district ValueError.
"""

from __future__ import annotations

from ..model import Model
from ..refcmp import evaluate, exc_class, load_reference, run_table
from ..report import Report
from ..setalg import SetAlg
from ..symeval import Evaluator
from .common import GRAPH_PRIMS, NXMG, VARIABLE, construct, graph_rewrite, loc, rewriter, short
from .dslcommon import DSL_PRIMS
from . import c19

AU = c19.AU
API = c19.API
TI = "y0.algorithm.tian_id"
TR = "y0.algorithm.transport"
REF = "yvref.c09"
V = ("cls", VARIABLE)
G = ("cls", NXMG)
EVT = ("list", ("tuple", V, None))
DG = ("list", ("tuple", G, ("list", V)))
DD = ("list", ("tuple", ("iter", V), ("cls", "y0.dsl.PopulationProbability")))
E = ("cls", "y0.dsl.Expression")
VSET = ("set", V)
DICT = ("dict", None, None)
DOMS = ("list", ("cls", f"{API}.CFTDomain"))

HELPERS = set(c19.HELPERS) | {
    f"{API}._validate_transport_unconditional_counterfactual_query_input", f"{API}._validate_transport_conditional_counterfactual_query_input",
    f"{API}._validate_transport_conditional_counterfactual_query_line_4_output", f"{API}.validate_inputs_for_transport_district_intervening_on_parents",
    f"{API}.simplify", f"{API}._transport_unconditional_counterfactual_query_line_2", f"{API}._counterfactual_factor_is_inconsistent",
    f"{API}._any_variable_values_inconsistent_with_interventions", f"{API}._any_inconsistent_intervention_values",
    f"{API}.transport_district_intervening_on_parents", f"{API}._no_intervention_variables_in_domain", f"{API}._no_transportability_nodes_in_domain",
    f"{API}._remove_transportability_vertices", f"{TI}.compute_c_factor", f"{TI}.identify_district_variables",
    f"{API}.get_counterfactual_factors_retaining_variable_values", f"{API}._initialize_conditional_transportability_data_structures",
    f"{AU}.get_ancestral_components", f"{API}._transport_conditional_counterfactual_query_line_2", f"{API}._transport_conditional_counterfactual_query_line_4",
    f"{API}.transport_unconditional_counterfactual_query", f"{API}.transport_conditional_counterfactual_query", f"{API}._event_from_counterfactuals",
    f"{API}._event_from_counterfactuals_strict", f"{API}._event_base", f"{TR}.transport_variable", f"{API}.UnconditionalCFTResult", f"{API}.ConditionalCFTResult",
}

L4 = {"outcome_variable_ancestral_component_variable_names": VSET, "outcome_and_conditioned_variable_names": VSET, "conditioned_variable_names": VSET,
      "transported_unconditional_query_expression": E, "simplified_event": EVT, "outcome_and_conditioned_variable_names_to_values": DICT,
      "outcomes": EVT, "conditions": EVT, "domain_data": DD}

TABLE = [
    ("R9.1", f"{API}.transport_unconditional_counterfactual_query", "ctf_tru", {"event": EVT, "target_domain_graph": G, "domain_graphs": DG, "domain_data": DD}, HELPERS,
     "algorithm-2", "SIMPLIFY; impossible -> Zero; factors of An(Y*); inconsistent -> FAIL; each factor via sigma-TR, failure -> FAIL; Σ_{w*∖y*} Π Q_i"),
    ("R9.1", f"{API}._transport_unconditional_counterfactual_query_line_2", "ctf_tru_line_2", {"event": EVT, "graph": G}, HELPERS,
     "algorithm-2-line-2", "W* = An(Y*) valued by the event; ctf-factors over the districts of G[V(W*)]"),
    ("R9.4", f"{API}._any_variable_values_inconsistent_with_interventions", "values_vs_subscripts", {"event": ("set", ("tuple", V, None))}, HELPERS,
     "definition-4.1-i", "a variable's value differs from a subscript on the same variable inside the factor"),
    ("R9.4", f"{API}._any_inconsistent_intervention_values", "subscripts_vs_subscripts", {"event": ("set", ("tuple", V, None))}, HELPERS,
     "definition-4.1-ii", "two subscripts on one variable differ"),
    ("R9.4", f"{API}._counterfactual_factor_is_inconsistent", "factor_inconsistent", {"event": ("set", ("tuple", V, None))}, HELPERS,
     "definition-4.1", "either inconsistency"),
    ("R9.3", f"{API}.transport_district_intervening_on_parents", "sigma_tr", {"district": ("iter", V), "domain_graphs": DG, "domain_data": DD}, HELPERS,
     "algorithm-4", "first domain without policy variable / selection node on the district; Q[B] from that domain's data, order and regular nodes; IDENTIFY(C, B, Q[B])"),
    ("R9.3", f"{API}._no_intervention_variables_in_domain", "no_policy_variable", {"district": ("iter", V), "interventions": ("iter", V)}, HELPERS,
     "gate-policy", "district ∩ policy variables = ∅"),
    ("R9.3", f"{API}._no_transportability_nodes_in_domain", "no_selection_node", {"district": ("iter", V), "domain_graph": G}, HELPERS,
     "gate-selection-node", "no T_v node of the domain's selection diagram for a v in the district"),
    ("R9.2", f"{API}.transport_conditional_counterfactual_query", "ctf_tr",
     {"outcomes": EVT, "conditions": EVT, "target_domain_graph": G, "domain_graphs": DG, "domain_data": DD}, HELPERS,
     "algorithm-3", "ancestral components of Y*∪X* given X*; D* = those with an outcome; ctfTRu(D*); FAIL / Zero passed on; line 4"),
    ("R9.2", f"{API}._initialize_conditional_transportability_data_structures", "ctf_tr_structures", {"outcomes": EVT, "conditions": EVT}, HELPERS,
     "algorithm-3-structures", "X*, Y*, Y*∪X*, values of the outcomes, values by base name, base names"),
    ("R9.2", f"{API}._transport_conditional_counterfactual_query_line_2", "ctf_tr_line_2",
     {"ancestral_components": ("frozenset", ("frozenset", V)), "outcome_variables": VSET, "outcome_variable_to_value_mappings": DICT, "target_domain_graph": G}, HELPERS,
     "algorithm-3-line-2", "D* = union of the ancestral components containing an outcome, valued by the outcomes, in ctf-factor form"),
    ("R9.2", f"{API}._transport_conditional_counterfactual_query_line_4", "ctf_tr_line_4", L4, HELPERS,
     "algorithm-3-line-4", "Σ_{d*∖(y*∪x*)} Q / Σ_{d*∖x*} Q of the same Q; event = outcomes then conditions on base variables"),
    ("R9.5", f"{API}.unconditional_cft", "unconditional_wrapper", {"event": ("list", V), "target_domain_graph": G, "domains": DOMS}, HELPERS,
     "wrapper-unconditional", "(graph, ordering or topological order) and (policy variables, population) per domain, same order"),
    ("R9.5", f"{API}.conditional_cft", "conditional_wrapper", {"outcomes": ("list", V), "conditions": ("list", V), "target_domain_graph": G, "domains": DOMS}, HELPERS,
     "wrapper-conditional", "(graph, ordering or topological order) and (policy variables, population) per domain, same order; strict events"),
    ("R9.5", f"{API}._event_from_counterfactuals", "event_of", {"variables": ("list", V)}, HELPERS, "event-of", "star becomes the value, subscripts kept, no value for star-less variables"),
    ("R9.5", f"{API}._event_from_counterfactuals_strict", "event_of_strict", {"variables": ("list", V)}, HELPERS, "event-of-strict", "as above, a value is required"),
    ("R9.5", f"{API}._event_base", "event_base", {"variable": V}, (), "event-base", "the variable without its star, subscripts kept"),
]


def mk(model: Model, prims=()):
    def make():
        return Evaluator(model, primitives=set(GRAPH_PRIMS) | set(DSL_PRIMS) | {"y0.dsl.P"} | set(prims),
                         prim_methods={"get_base", "intervene", "__matmul__", "to_latex"})
    return make


def run(model: Model, rep: Report, tier: str) -> None:
    rep.level = "other"
    rep.explanation = (
        "Partial: the three algorithm bodies, their line helpers, Definition 4.1's tests, the two gates of sigma-TR and the public wrappers are "
        "evaluated symbolically and compared with the published algorithm lines (yv/refs/c09_ref.py, evaluated by the same evaluator): outcomes "
        "must agree wherever the guards overlap. The sub-routines they compose are primitives here; C19's and C17's rules for them are re-run in "
        "this check, so a deviation inside SIMPLIFY, the ancestors, the ancestral components, the ctf-factors, the c-factor or IDENTIFY is reported "
        "here too. Decides: refinement to Algorithms 2-4 and totality of the DSL constructions in the cone. Does NOT decide: the value identity in "
        "every multi-domain model family (Theorems 2/3 of the paper are the trusted base), the coverage of the input validators, termination."
    )
    rep.trusted_base = ["Correa, Lee & Bareinboim 2022: Alg. 2-4, Def. 4.1, Thm. 2-3", "C19 (SIMPLIFY, ancestors, components, factors)",
                        "C17 (c-factor, IDENTIFY)", "C14 (graph primitives)", "C13 (Sum / Product / Fraction)"]
    rep.floors = {"R9.1": 2, "R9.2": 4, "R9.3": 3, "R9.4": 3, "R9.5": 5, "R9.6": 3}
    load_reference(model, REF, "c09_ref.py")
    sa = SetAlg(rewriter(graph_rewrite))
    run_table(model, rep, TABLE, REF, mk, sa, infeasible=c19.bad_name, construct=construct, loc=loc)
    r9_6(model, rep)
    # the sub-routines' own definitions (inherited rules, reported under their own rule ids)
    sub = Report(rep.property_id, rep.tier)
    c19.run(model, sub, tier)
    from . import c17
    sub17 = Report(rep.property_id, rep.tier)
    c17.run(model, sub17, tier)
    for r in (sub, sub17):
        for ob in r.obligations:
            ob.required = ob.required
            rep.obligations.append(ob)
        for k, v in r.floors.items():
            rep.floors[k] = v
        rep.errors.extend(r.errors)


def r9_6(model: Model, rep: Report) -> None:
    """Coded raises of the algorithm bodies (validators and sub-routines opaque): none except sigma-TR's split-district guard."""
    rows = [
        (f"{API}.transport_unconditional_counterfactual_query", {"event": EVT, "target_domain_graph": G, "domain_graphs": DG, "domain_data": DD}, set()),
        (f"{API}.transport_conditional_counterfactual_query", {"outcomes": EVT, "conditions": EVT, "target_domain_graph": G, "domain_graphs": DG, "domain_data": DD}, set()),
        (f"{API}.transport_district_intervening_on_parents", {"district": ("iter", V), "domain_graphs": DG, "domain_data": DD}, {"ValueError"}),
    ]
    for q, types, allowed in rows:
        f, ev, paths = evaluate(model, q, mk(model, HELPERS - {q}), types)
        live = [(exc_class(p), p) for p in paths if p.kind == "raise" and not c19.bad_name(p) and exc_class(p) not in allowed]
        cons = construct(f, "coded-raises")
        if live:
            from ..terms import show
            name, p = live[0]
            rep.refuted("R9.6", cons, f"the algorithm body can fail with {name} (neither 'fail' nor an answer) when " + short("; ".join(show(c) for c in p.conds), 400), loc(f, p.line))
        else:
            rep.proven("R9.6", cons, loc=loc(f), sample={"paths": len(paths), "allowed": sorted(allowed)})
