"""Helpers shared by the rule modules: graph-primitive canonicalisation, typed symbols, path utilities."""

from __future__ import annotations

from typing import Any

from ..model import AnalysisError, Func, Model
from ..setalg import SetAlg
from ..symeval import Evaluator, Path
from ..terms import EMPTY, is_term, NONE, Term, has_unknown, mapterm, show, subterms, var

NXMG = "y0.graph.NxMixedGraph"
VARIABLE = "y0.dsl.Variable"

# NxMixedGraph operations that algorithm-level rules treat as primitives; their meaning is what
# C14 derives from graph.py on the same run (C14 must pass for the algorithm rules to mean anything).
GRAPH_PRIMS = {
    f"{NXMG}.{m}"
    for m in (
        "subgraph", "remove_in_edges", "remove_out_edges", "remove_nodes_from", "ancestors_inclusive",
        "descendants_inclusive", "districts", "topological_sort", "is_connected", "get_district", "intervene",
        "get_markov_pillow", "get_markov_blanket", "moralize", "disorient", "pre", "from_edges", "copy",
        "is_counterfactual", "raise_on_counterfactual",
    )
}


def loc(f: Func, line: int | None = None) -> str:
    return f"{f.module.relpath}:{line or f.node.lineno}"


def construct(f: Func, role: str = "") -> str:
    q = f.qname
    mod, _, rest = q.partition(".")
    # "<module>:<qualname>#<role>"
    m = f.module.name
    qual = q[len(m) + 1:]
    return f"{m}:{qual}" + (f"#{role}" if role else "")


def typed(ev: Evaluator, name: str, typ: Any) -> Term:
    t = var(name)
    ev.set_type(t, typ)
    return t


def graph_var(ev: Evaluator, name: str = "G") -> Term:
    return typed(ev, name, ("cls", NXMG))


def varset(ev: Evaluator, name: str) -> Term:
    return typed(ev, name, ("set", ("cls", VARIABLE)))


def graph_rewrite(t: Term) -> Term | None:
    """Map networkx view accessors of a mixed graph to canonical base collections.

    V(G)  = nodes of G            (directed and undirected components share the node set: every
                                   add_* method of NxMixedGraph adds the node to both -- checked by R14.0)
    Ed(G) = directed edges, Eu(G) = bidirected edges.
    """
    h = t[0]
    if h == "meth" and t[2] in ("nodes", "edges") and t[1][0] == "attr" and t[1][2] in ("directed", "undirected") and not t[3] and not t[4]:
        g = t[1][1]
        if t[2] == "nodes":
            return ("V", g)
        return ("Ed", g) if t[1][2] == "directed" else ("Eu", g)
    if h == "attr" and t[2] in ("nodes", "edges") and t[1][0] == "attr" and t[1][2] in ("directed", "undirected"):
        g = t[1][1]
        if t[2] == "nodes":
            return ("V", g)
        return ("Ed", g) if t[1][2] == "directed" else ("Eu", g)
    if h == "in" and len(t) == 3 and is_term(t[2]):
        # networkx adjacency: x among the successors / predecessors / neighbours of u is the edge test itself
        x, Y = t[1], t[2]
        G = u = None
        role = None
        if Y[0] == "meth" and Y[2] in ("successors", "predecessors", "neighbors") and len(Y[3]) == 1 and not Y[4]:
            G, u, role = Y[1], Y[3][0], Y[2]
        elif Y[0] == "meth" and Y[2] == "get" and Y[1][0] == "attr" and Y[1][2] in ("succ", "pred", "adj", "_succ", "_pred", "_adj") and len(Y[3]) == 2 \
                and (Y[3][1] in (EMPTY, ("tuplelit", ()), ("listlit", ()), ("setlit", ()), ("dictlit", ()))):
            G, u, role = Y[1][1], Y[3][0], {"succ": "successors", "_succ": "successors", "pred": "predecessors", "_pred": "predecessors"}.get(Y[1][2], "neighbors")
        elif Y[0] == "index" and Y[1][0] == "attr" and Y[1][2] in ("succ", "pred", "adj", "_succ", "_pred", "_adj"):
            G, u, role = Y[1][1], Y[2], {"succ": "successors", "_succ": "successors", "pred": "predecessors", "_pred": "predecessors"}.get(Y[1][2], "neighbors")
        if G is not None:
            a, b = (x, u) if role == "predecessors" else (u, x)
            if G[0] == "attr" and G[2] == "undirected" and repr(a) > repr(b):
                a, b = b, a  # an undirected edge has no orientation
            return ("truth", ("meth", G, "has_edge", (a, b), ()))
    if h == "meth" and t[2] == "has_edge" and len(t[3]) == 2 and not t[4] and t[1][0] == "attr" and t[1][2] == "undirected" and repr(t[3][0]) > repr(t[3][1]):
        return ("meth", t[1], "has_edge", (t[3][1], t[3][0]), ())
    if h == "attr" and t[2] == "nodes" and t[1][0] in ("call", "nxgraph"):
        # the node view of a graph value: the same collection as .nodes()
        return ("V", t[1])
    if h == "meth" and t[2] == "nodes" and not t[3] and not t[4] and t[1][0] != "attr":
        # G.nodes() on an (untyped) graph value
        return ("V", t[1])
    if h == "call" and isinstance(t[1], str) and t[1].startswith("networkx."):
        tail = t[1].split(".")[-1]
        return ("call", "nx." + tail, t[2], t[3])
    if h == "call" and isinstance(t[1], str) and t[1].startswith("itertools."):
        return ("call", t[1].split(".")[-1], t[2], t[3])
    return None


def rewriter(*fs):
    def rw(t: Term) -> Term:
        for f in fs:
            try:
                r = f(t)
            except (IndexError, TypeError, KeyError, ValueError):
                r = None  # a term shape the rewrite does not know: leave it alone
            if r is not None:
                t = r
        return t

    def deep(t: Term) -> Term:
        return mapterm(t, lambda s: rw(s) if rw(s) != s else None)

    return deep


def return_paths(paths: list[Path]) -> list[Path]:
    return [p for p in paths if p.kind == "return"]


def split_conditional_returns(paths: list[Path]) -> list[Path]:
    """`return a if c else b` (or `rv = a if c else b; return rv`) is the two paths of `if c: return a / else: return b`"""
    import dataclasses
    out: list[Path] = []
    todo = list(paths)
    while todo:
        p = todo.pop(0)
        v = p.value
        if p.kind == "return" and v is not None and v[0] == "ite" and len(v) == 4 and len(out) + len(todo) < 256:
            c = v[1]
            todo.insert(0, dataclasses.replace(p, conds=p.conds + (("not", c),), value=v[3]))
            todo.insert(0, dataclasses.replace(p, conds=p.conds + (c,), value=v[2]))
        else:
            out.append(p)
    return out


def raise_paths(paths: list[Path]) -> list[Path]:
    return [p for p in paths if p.kind == "raise"]


def exc_name(p: Path) -> str:
    v = p.value
    if v[0] in ("new", "rec"):
        return v[1].split(".")[-1]
    if v[0] in ("ref", "builtin"):
        return v[1].split(".")[-1]
    if v[0] == "call" and isinstance(v[1], str):
        return v[1].split(".")[-1]
    return show(v)


def kwargs_of(t: Term) -> dict[str, Term]:
    if t[0] == "meth":
        return dict(t[4])
    if t[0] in ("call", "new"):
        return dict(t[3])
    return {}


def short(s: str, n: int = 300) -> str:
    return s if len(s) <= n else s[: n - 1] + "…"


# ---------------------------------------------------------------------------------------------------------------------------------
# networkx graph builders: any sequence of add_node / add_nodes_from / add_edge / add_edges_from (inside loops, over generators,
# chains, literal lists, `for w in (u, v)`) on a fresh nx.Graph / nx.DiGraph is normalised to two lists of PARTS
#     nodes: [(element term, generators)]      edges: [((source term, target term), generators)]
# where a part with no generators and a collection term as element stands for "all elements of that collection".
def _expand_literal_gens(payload: Term, gens: tuple) -> list:
    """`for w in (u, v)` over a literal tuple is two parts (w := u, w := v)."""
    for k, (pat, it, conds) in enumerate(gens):
        src = it
        while src[0] in ("setof",) or (src[0] == "call" and src[1] in ("tuple", "list", "iter") and len(src[2]) == 1):
            src = src[1] if src[0] == "setof" else src[2][0]
        if pat[0] == "var" and src[0] in ("tuplelit", "listlit") and not conds and len(src[1]) <= 4:
            out = []
            rest = gens[:k] + gens[k + 1:]
            for x in src[1]:
                m = {pat: x}
                out.extend(_expand_literal_gens(mapterm(payload, lambda s, m=m: m.get(s)), tuple((p, mapterm(i, lambda s, m=m: m.get(s)), tuple(mapterm(c, lambda s, m=m: m.get(s)) for c in cs)) for p, i, cs in rest)))
            return out
    return [(payload, gens)]


def _collection_parts(c: Term, gens: tuple, sa: SetAlg) -> list:
    """Parts (element, generators) of a collection argument of add_*_from."""
    c0 = c
    c = sa.strip(c)
    h = c[0]
    if h in ("listlit", "tuplelit", "setlit"):
        out = []
        for x in c[1]:
            out.extend(_expand_literal_gens(x, gens))
        return out
    if h == "comp" and c[1] in ("list", "set", "gen"):
        return _expand_literal_gens(c[2], gens + tuple(c[3]))
    if h in ("union", "concat"):
        out = []
        for x in c[1:]:
            out.extend(_collection_parts(x, gens, sa))
        return out
    if h == "op" and c[1] in ("+", "|"):
        return _collection_parts(c[2], gens, sa) + _collection_parts(c[3], gens, sa)
    if h == "call" and isinstance(c[1], str) and c[1].split(".")[-1] in ("chain",):
        out = []
        for x in c[2]:
            out.extend(_collection_parts(x, gens, sa))
        return out
    if h == "accum" and c[1] in ("concat", "union"):
        out = _collection_parts(c[2], gens, sa)
        out.extend(_collection_parts(c[3], gens + tuple(c[4]), sa))
        return out
    return [(("ALL", c), gens)]


def nx_rewrite(t: Term):
    """networkx identities used when rules about DiGraphs are compared: the out-edges of a node are as many as its successors (and empty
    together with them); out_degree / in_degree count successors / predecessors."""
    h = t[0]
    if h in ("truth", "len") and t[1][0] == "meth" and t[1][2] in ("out_edges", "in_edges") and len(t[1][3]) == 1 and not t[1][4]:
        return (h, ("meth", t[1][1], "successors" if t[1][2] == "out_edges" else "predecessors", t[1][3], ()))
    if h == "meth" and t[2] in ("out_degree", "in_degree") and len(t[3]) == 1 and not t[4]:
        return ("len", ("meth", t[1], "successors" if t[2] == "out_degree" else "predecessors", t[3], ()))
    return None


def nx_builder_parts(t: Term, sa: SetAlg):
    """(base, node parts, edge parts) of a networkx graph term built by effects on a fresh graph; None if it is not one."""
    effs = []
    while t[0] in ("accum", "mut"):
        if t[0] == "accum":
            if t[1] != "effect":
                return None
            effs.append((t[3], tuple(t[4])))
            t = t[2]
        else:
            for e in reversed(t[2]):
                effs.append((e, ()))
            t = t[1]
    if not (t[0] == "call" and isinstance(t[1], str) and t[1].split(".")[-1] in ("DiGraph", "Graph") and not t[2]):
        return None
    nodes, edges = [], []
    for e, gens in reversed(effs):
        if e[0] != "call":
            continue
        name, args, kw = e[1], e[2], dict(e[3])
        if name == "add_node" and args:
            nodes.extend(_expand_literal_gens(args[0], gens))
        elif name == "add_nodes_from" and args:
            nodes.extend(_collection_parts(args[0], gens, sa))
        elif name == "add_edge" and len(args) >= 2:
            for pl, g in _expand_literal_gens(("tuplelit", (args[0], args[1])), gens):
                edges.append((pl, g))
        elif name == "add_edges_from" and args:
            edges.extend(_collection_parts(args[0], gens, sa))
    return t, nodes, edges



def quantifier_of(rets: list):
    """A boolean function written as (nested) search loops  `for x in S: [for y in T(x):] if c: return True` / `return False`  is
    any(c for x in S for y in T(x)); dually all.  Returns the quantified term, the single value of a one-path function, or None."""
    from ..terms import FALSE, TRUE
    if len(rets) == 1:
        return rets[0].value
    if len(rets) != 2:
        return None
    by_val = {p.value: p for p in rets}
    pt, pf = by_val.get(TRUE), by_val.get(FALSE)
    if pt is None or pf is None:
        return None
    for early, late, q in ((pf, pt, "all"), (pt, pf, "any")):
        if not any(c[0] == "forall-not" for c in late.conds):
            continue
        gens = []
        cur = None
        body = []
        started = False
        for c in early.conds:
            if c[0] == "iter-elem":
                if cur is not None:
                    gens.append((cur[0], cur[1], tuple(body)))
                cur = (c[1], c[2])
                body = []
                started = True
            elif started:
                body.append(c)
        if cur is None or not body:
            continue
        final = body[-1]
        gens.append((cur[0], cur[1], tuple(body[:-1])))
        if q == "all":
            final = final[1] if final[0] == "not" else ("not", final)
        return (q, ("comp", "gen", final, tuple(gens)))
    return None


def stateless_obligations(model, rep, rule: str, qnames, why: str = "the answer can depend on earlier calls on the same objects (or the caller's data is changed)") -> None:
    """One obligation per routine: the effects analysis (interprocedural: callees' summaries are applied at their call sites) finds no write to
    a parameter's object, to `self`, to a module-level container or to a mutable default argument."""
    from ..effects import Effects

    eff = Effects(model)
    for q in qnames:
        if not model.has_func(q):
            continue
        f = model.func(q)
        sm = eff.summary(f)
        if sm.mutates:
            p_, es = next(iter(sm.mutates.items()))
            rep.refuted(rule, construct(f, "stateless"), f"modifies `{p_}` ({es[0].how}): {why}", loc(f, es[0].line))
        else:
            rep.proven(rule, construct(f, "stateless"), loc=loc(f))
