"""Helpers shared by the rule modules: graph-primitive canonicalisation, typed symbols, path utilities."""

from __future__ import annotations

from typing import Any

from ..model import AnalysisError, Func, Model
from ..setalg import SetAlg
from ..symeval import Evaluator, Path
from ..terms import NONE, Term, has_unknown, mapterm, show, subterms, var

NXMG = "y0.graph.NxMixedGraph"
VARIABLE = "y0.dsl.Variable"

# NxMixedGraph operations that algorithm-level rules treat as primitives; their meaning is what
# C14 derives from graph.py on the same run (C14 must pass for the algorithm rules to mean anything).
GRAPH_PRIMS = {
    f"{NXMG}.{m}"
    for m in (
        "subgraph", "remove_in_edges", "remove_out_edges", "remove_nodes_from", "ancestors_inclusive",
        "descendants_inclusive", "districts", "topological_sort", "is_connected", "get_district", "intervene",
        "get_markov_pillow", "get_markov_blanket", "moralize", "disorient", "pre", "from_edges", "copy",
        "is_counterfactual", "raise_on_counterfactual",
    )
}


def loc(f: Func, line: int | None = None) -> str:
    return f"{f.module.relpath}:{line or f.node.lineno}"


def construct(f: Func, role: str = "") -> str:
    q = f.qname
    mod, _, rest = q.partition(".")
    # "<module>:<qualname>#<role>"
    m = f.module.name
    qual = q[len(m) + 1:]
    return f"{m}:{qual}" + (f"#{role}" if role else "")


def typed(ev: Evaluator, name: str, typ: Any) -> Term:
    t = var(name)
    ev.set_type(t, typ)
    return t


def graph_var(ev: Evaluator, name: str = "G") -> Term:
    return typed(ev, name, ("cls", NXMG))


def varset(ev: Evaluator, name: str) -> Term:
    return typed(ev, name, ("set", ("cls", VARIABLE)))


def graph_rewrite(t: Term) -> Term | None:
    """Map networkx view accessors of a mixed graph to canonical base collections.

    V(G)  = nodes of G            (directed and undirected components share the node set: every
                                   add_* method of NxMixedGraph adds the node to both -- checked by R14.0)
    Ed(G) = directed edges, Eu(G) = bidirected edges.
    """
    h = t[0]
    if h == "meth" and t[2] in ("nodes", "edges") and t[1][0] == "attr" and t[1][2] in ("directed", "undirected") and not t[3] and not t[4]:
        g = t[1][1]
        if t[2] == "nodes":
            return ("V", g)
        return ("Ed", g) if t[1][2] == "directed" else ("Eu", g)
    if h == "attr" and t[2] in ("nodes", "edges") and t[1][0] == "attr" and t[1][2] in ("directed", "undirected"):
        g = t[1][1]
        if t[2] == "nodes":
            return ("V", g)
        return ("Ed", g) if t[1][2] == "directed" else ("Eu", g)
    if h == "meth" and t[2] == "nodes" and not t[3] and not t[4] and t[1][0] != "attr":
        # G.nodes() on an (untyped) graph value
        return ("V", t[1])
    if h == "call" and isinstance(t[1], str) and t[1].startswith("networkx."):
        tail = t[1].split(".")[-1]
        return ("call", "nx." + tail, t[2], t[3])
    if h == "call" and isinstance(t[1], str) and t[1].startswith("itertools."):
        return ("call", t[1].split(".")[-1], t[2], t[3])
    return None


def rewriter(*fs):
    def rw(t: Term) -> Term:
        for f in fs:
            r = f(t)
            if r is not None:
                t = r
        return t

    def deep(t: Term) -> Term:
        return mapterm(t, lambda s: rw(s) if rw(s) != s else None)

    return deep


def return_paths(paths: list[Path]) -> list[Path]:
    return [p for p in paths if p.kind == "return"]


def raise_paths(paths: list[Path]) -> list[Path]:
    return [p for p in paths if p.kind == "raise"]


def exc_name(p: Path) -> str:
    v = p.value
    if v[0] in ("new", "rec"):
        return v[1].split(".")[-1]
    if v[0] in ("ref", "builtin"):
        return v[1].split(".")[-1]
    if v[0] == "call" and isinstance(v[1], str):
        return v[1].split(".")[-1]
    return show(v)


def kwargs_of(t: Term) -> dict[str, Term]:
    if t[0] == "meth":
        return dict(t[4])
    if t[0] in ("call", "new"):
        return dict(t[3])
    return {}


def short(s: str, n: int = 300) -> str:
    return s if len(s) <= n else s[: n - 1] + "…"
