"""C14 -- mixed-graph surgery operations meet their set-theoretic definitions.

R14.0  builders: add_node / add_directed_edge / add_undirected_edge keep the two components' node sets
       equal; from_edges adds every given node and edge.
R14.1  node/edge truth tables of subgraph, remove_in_edges, remove_out_edges, remove_nodes_from.
R14.2  closures/partitions/neighbourhoods: ancestors_inclusive, descendants_inclusive, districts,
       get_markov_pillow, get_markov_blanket, disorient, moralize/iter_moral_links, pre, topological_sort,
       intervene (filter structure), copy.
R14.3  receiver untouched (effects analysis).
R14.4  order independence of __eq__.
"""

from __future__ import annotations

from ..effects import Effects
from ..model import AnalysisError, Model
from ..report import Report
from ..setalg import SetAlg, compare, f_and, f_not, f_or, show_formula, show_row, TooManyAtoms
from ..symeval import Evaluator
from ..terms import EMPTY, NONE, Term, alpha_normalise, has_unknown, show, subst, subterms, var
from .common import NXMG, construct, graph_rewrite, graph_var, loc, return_paths, rewriter, short, typed, varset, kwargs_of

PRIM_BUILDERS = {"add_node", "add_directed_edge", "add_undirected_edge"}


def _unmut(t: Term) -> Term:
    while t[0] == "mut":
        t = t[1]
    return t


def mk(model: Model) -> tuple[Evaluator, SetAlg]:
    ev = Evaluator(model, primitives={f"{NXMG}.from_edges"}, prim_methods=set(PRIM_BUILDERS) | {"intervene"})
    sa = SetAlg(rewrite=rewriter(graph_rewrite))
    return ev, sa


def _drop_pair_guards(t: Term) -> Term:
    """combinations(L, 2) is empty when L has fewer than two elements: a guard `len(L) >= 2` (or `continue` on len(L) < 2) around it is
    redundant and is dropped before comparing."""
    def is_len_guard(c, L):
        neg = False
        while c[0] == "not":
            neg = not neg
            c = c[1]
        if c[0] in ("lt", "le") and len(c) == 3:
            a_, b_ = c[1], c[2]
            for x, y in ((a_, b_), (b_, a_)):
                if x[0] == "len" and (x[1] == L or (x[1][0] == "call" and x[1][2] and x[1][2][0] == L) or (L[0] == "call" and L[2] and L[2][0] == x[1])) and y[0] == "const":
                    return True
        return False

    def f(s):
        if s[0] in ("comp", "accum"):
            gens = s[3] if s[0] == "comp" else s[4]
            payload = s[2] if s[0] == "comp" else s[3]
            Ls = [x[2][0] for x in subterms((payload, gens)) if x[0] == "call" and str(x[1]).endswith("combinations") and len(x[2]) == 2 and x[2][1] == ("const", 2)]
            if Ls:
                new_gens = tuple((p_, i_, tuple(c for c in cs if not any(is_len_guard(c, L) for L in Ls))) for p_, i_, cs in gens)
                if new_gens != tuple(gens):
                    return s[:3] + (new_gens,) if s[0] == "comp" else s[:4] + (new_gens,) + s[5:]
        return None
    from ..terms import mapterm
    return mapterm(t, f)


def graph_triple(t: Term, sa: SetAlg):
    """(N, D, U) collection terms of a graph-valued term built from a record + builder effects, or None."""
    N: list[Term] = []
    D: list[Term] = []
    U: list[Term] = []

    def comp(kind, elt, gens):
        if not gens:
            return ("setlit" if kind == "set" else "listlit", (elt,))
        return ("comp", kind, elt, gens)

    def effect(eff, gens):
        if eff[0] != "call":
            return False
        name, kw = eff[1], dict(eff[3])
        args = eff[2]
        if name == "add_node":
            n = kw.get("n", args[0] if args else None)
            if n is None:
                return False
            N.append(comp("set", n, gens))
            return True
        if name in ("add_directed_edge", "add_undirected_edge") and len(args) == 1 and args[0][0] == "star" and not kw:
            # add_*_edge(*pair): the pair itself is the edge
            (D if name == "add_directed_edge" else U).append(comp("list", args[0][1], gens))
            return True
        if name in ("add_directed_edge", "add_undirected_edge"):
            u = kw.get("u", args[0] if args else None)
            v = kw.get("v", args[1] if len(args) > 1 else None)
            if u is None or v is None:
                return False
            (D if name == "add_directed_edge" else U).append(comp("list", ("tuplelit", (u, v)), gens))
            return True
        return False

    def go(t: Term) -> bool:
        h = t[0]
        if h == "rec" and t[1] == NXMG:
            f = dict(t[2])
            for comp_name, edges in (("directed", D), ("undirected", U)):
                x = f.get(comp_name)
                if x is None:
                    return False
                if x[0] == "call" and isinstance(x[1], str) and x[1].split(".")[-1] in ("DiGraph", "Graph") and not x[2]:
                    continue
                if x[0] == "copyof" and x[1][0] == "attr" and x[1][2] == comp_name:
                    g = x[1][1]
                    N.append(("V", g))
                    edges.append(("Ed", g) if comp_name == "directed" else ("Eu", g))
                    continue
                return False
            return True
        if h == "accum" and t[1] == "effect":
            if not go(t[2]):
                return False
            return effect(t[3], t[4])
        if h == "mut":
            if not go(t[1]):
                return False
            return all(effect(e, ()) for e in t[2])
        if h in ("meth", "call") and (t[2] == "from_edges" if h == "meth" else str(t[1]).endswith(".from_edges")):
            kw = kwargs_of(t)
            for k, acc in (("nodes", N), ("directed", D), ("undirected", U)):
                x = kw.get(k, NONE)
                if x != NONE:
                    acc.append(x)
            return True
        return False

    if not go(t):
        return None
    un = lambda xs: EMPTY if not xs else (xs[0] if len(xs) == 1 else ("union",) + tuple(xs))  # noqa: E731
    return un(N), un(D), un(U)


def run(model: Model, rep: Report, tier: str) -> None:
    rep.level = "proof"
    rep.explanation = (
        "Each operation of NxMixedGraph is evaluated symbolically from graph.py to its result graph "
        "(node collection, directed-edge collection, bidirected-edge collection). Membership of a generic node / "
        "generic edge in each collection is a boolean formula over the atoms n∈V(G), n∈S, e∈E(G), u∈S, v∈S; "
        "the formula's truth table is compared with the table of the mathematical definition on every row allowed "
        "by S⊆V(G). 8 node rows + 8 edge rows per component per operation: exhaustive over all graphs and subsets. "
        "Closures, districts, pillow/blanket, disorient, moralize, pre are compared as normalised terms over the "
        "networkx primitives; the receiver-untouched clause is an effects analysis; order independence is the "
        "set-view equality of __eq__."
    )
    rep.trusted_base = [
        "networkx: DiGraph/Graph.nodes()/edges() views, add_node/add_edge, ancestors, descendants, connected_components, "
        "predecessors/successors, topological_sort, set-like equality of NodeView/EdgeView",
        "Python set/frozenset/list semantics",
    ]
    rep.floors = {"R14.0": 4, "R14.1": 12, "R14.2": 10, "R14.3": 15, "R14.4": 1, "R14.5": 6}
    ev, sa = mk(model)
    cls = model.cls(NXMG)
    G = graph_var(ev)
    S = varset(ev, "S")
    n = var("%n")
    e = var("%e")
    eu, ev_ = ("proj", e, 0), ("proj", e, 1)
    V = ("V", G)

    def method(name):
        f = cls.find_method(name)
        if f is None:
            raise AnalysisError(f"anchor vanished: NxMixedGraph.{name}")
        return f

    # ---------------------------------------------------------------- R14.0 builders
    for name, comp_self, comp_other in (("add_directed_edge", "directed", "undirected"), ("add_undirected_edge", "undirected", "directed")):
        f = method(name)
        ev0 = Evaluator(model)
        slf = graph_var(ev0, "self")
        u = typed(ev0, "u", ("cls", "y0.dsl.Variable"))
        v = typed(ev0, "v", ("cls", "y0.dsl.Variable"))
        paths = return_paths(ev0.run(f, {"u": u, "v": v}, self_term=slf))
        ok = len(paths) == 1
        got = set()
        if ok:
            for note in paths[0].notes:
                if note[0] == "external-mutation":
                    recv, mname, args = note[1], note[2], note[3]
                    if recv[0] == "attr" and _unmut(recv[1]) == slf:
                        got.add((recv[2], mname, tuple(a for a in args if a[0] != "star")))
        want = {(comp_self, "add_edge", (u, v)), (comp_other, "add_node", (u,)), (comp_other, "add_node", (v,))}
        missing = {w for w in want if w not in got and not (w[1] == "add_edge" and any(g[0] == w[0] and g[1] == "add_edge" and g[2][:2] == (u, v) for g in got))}
        extra = {g for g in got if g[1].startswith("remove")}
        if ok and not missing and not extra:
            rep.proven("R14.0", construct(f, "builder-effects"), loc=loc(f), sample={"effects": sorted(f"{a}.{b}({', '.join(show(x) for x in c)})" for a, b, c in got)})
        else:
            rep.refuted("R14.0", construct(f, "builder-effects"),
                        f"{name}(u, v) must add the edge (u, v) to `{comp_self}` and both endpoints to `{comp_other}` (the two components share one node set); missing: "
                        + ", ".join(f"{a}.{b}({', '.join(show(x) for x in c)})" for a, b, c in sorted(missing, key=repr)), loc(f))
    f = method("add_node")
    ev0 = Evaluator(model)
    slf = graph_var(ev0, "self")
    nn = typed(ev0, "n", ("cls", "y0.dsl.Variable"))
    paths = return_paths(ev0.run(f, {"n": nn}, self_term=slf))
    got = set()
    for p in paths:
        for note in p.notes:
            if note[0] == "external-mutation" and note[1][0] == "attr" and _unmut(note[1][1]) == slf:
                got.add((note[1][2], note[2], note[3]))
    if {("directed", "add_node", (nn,)), ("undirected", "add_node", (nn,))} <= got:
        rep.proven("R14.0", construct(f, "builder-effects"), loc=loc(f))
    else:
        rep.refuted("R14.0", construct(f, "builder-effects"), "add_node(n) must add n to both components", loc(f))
    # from_edges
    f = method("from_edges")
    ev1 = Evaluator(model, prim_methods=set(PRIM_BUILDERS))
    Np = typed(ev1, "nodes", ("iter", ("cls", "y0.dsl.Variable")))
    Dp = typed(ev1, "directed", ("iter", None))
    Up = typed(ev1, "undirected", ("iter", None))
    paths = return_paths(ev1.run(f, {"nodes": Np, "directed": Dp, "undirected": Up}, self_term=("ref", NXMG)))
    okfe = False
    detail = "from_edges does not evaluate to a fresh graph built by add_node/add_*_edge loops"
    if len(paths) == 1:
        tr = graph_triple(paths[0].value, sa)
        if tr is not None:
            Nn, Dd, Uu = tr
            c1 = compare(sa.member(n, Nn), sa.member(n, Np))
            c2 = compare(sa.member(e, Dd), sa.member(e, Dp))
            c3 = compare(sa.member(e, Uu), sa.member(e, Up))
            okfe = c1[0] and c2[0] and c3[0]
            if not okfe:
                which = "nodes" if not c1[0] else ("directed" if not c2[0] else "undirected")
                detail = f"from_edges: the `{which}` argument is not added exactly (row: {show_row((c1 if not c1[0] else c2 if not c2[0] else c3)[1])})"
    if okfe:
        rep.proven("R14.0", construct(f, "builds-N-D-U"), loc=loc(f), sample={"nodes": show(Nn), "directed": show(Dd), "undirected": show(Uu)})
    else:
        rep.refuted("R14.0", construct(f, "builds-N-D-U"), detail, loc(f))

    # ---------------------------------------------------------------- R14.1 result triples
    inV = sa.member(n, V)
    inS = sa.member(n, S)
    uS, vS = sa.member(eu, S), sa.member(ev_, S)
    eD, eU = sa.member(e, ("Ed", G)), sa.member(e, ("Eu", G))
    spec = {
        # op: (nodes(n), directed kept(e), undirected kept(e))
        "subgraph": (f_and(inV, inS), f_and(eD, uS, vS), f_and(eU, uS, vS)),
        "remove_in_edges": (inV, f_and(eD, f_not(vS)), f_and(eU, f_not(uS), f_not(vS))),
        "remove_out_edges": (inV, f_and(eD, f_not(uS)), eU),
        "remove_nodes_from": (f_and(inV, f_not(inS)), f_and(eD, f_not(uS), f_not(vS)), f_and(eU, f_not(uS), f_not(vS))),
    }
    words = {
        "subgraph": "keeps precisely the chosen nodes and the edges among them",
        "remove_in_edges": "keeps every node, drops exactly the directed edges into S and the bidirected edges touching S",
        "remove_out_edges": "keeps every node and every bidirected edge, drops exactly the directed edges out of S",
        "remove_nodes_from": "drops exactly the nodes of S and their edges",
    }
    node_axioms = [f_or(f_not(inS), inV)]  # S ⊆ V(G)
    for op, (sN, sD, sU) in spec.items():
        f = method(op)
        paths = return_paths(ev.run(f, {f.params[1]: S}, self_term=G))
        tr = graph_triple(paths[0].value, sa) if len(paths) == 1 else None
        if tr is None or has_unknown(paths[0].value):
            for role in ("nodes", "directed", "undirected"):
                rep.unknown("R14.1", construct(f, role), "result is not a graph built from node/edge collections the evaluator understands: "
                            + short(show(paths[0].value) if paths else "no return path"), loc(f))
            continue
        Nn, Dd, Uu = tr
        for role, impl_f, spec_f, axioms, elem in (
            ("nodes", sa.member(n, Nn), sN, node_axioms, "node n"),
            ("directed", sa.member(e, Dd), sD, [], "directed edge (u,v)"),
            ("undirected", sa.member(e, Uu), sU, [], "bidirected edge {u,v}"),
        ):
            try:
                eq, row, rows = compare(impl_f, spec_f, axioms)
            except TooManyAtoms:
                rep.unknown("R14.1", construct(f, role), "too many atoms", loc(f))
                continue
            sample = {"implementation": show_formula(impl_f), "definition": show_formula(spec_f), "rows": rows}
            if eq:
                rep.proven("R14.1", construct(f, role), loc=loc(f), sample=sample)
            else:
                from ..setalg import evalf

                rep.refuted(
                    "R14.1", construct(f, role),
                    f"{op}(S) {words[op]}; for a {elem} with [{show_row(row)}] the definition "
                    f"{'keeps' if evalf(spec_f, row) else 'drops'} it, the implementation {'keeps' if evalf(impl_f, row) else 'drops'} it "
                    f"(implementation: {short(show_formula(impl_f), 160)})", loc(f), sample=sample)

    # ---------------------------------------------------------------- R14.2 closures etc.
    def canon_eq(rule, f, role, got: Term, want: Term, why: str):
        a, b = sa.canon_top(got), sa.canon_top(want)
        sample = {"implementation": short(show(a), 400), "definition": short(show(b), 400)}
        if has_unknown(got):
            rep.unknown(rule, construct(f, role), "uses an idiom outside the evaluator: " + short(show(got)), loc(f))
        elif a == b:
            rep.proven(rule, construct(f, role), loc=loc(f), sample=sample)
        else:
            rep.refuted(rule, construct(f, role), f"{why}; implementation normal form {short(show(a), 300)} ≠ definition {short(show(b), 300)}", loc(f), sample=sample)

    s_ = var("%s")
    c_ = var("%c")
    Gd, Gu = ("attr", G, "directed"), ("attr", G, "undirected")
    for op, nxf in (("ancestors_inclusive", "nx.ancestors"), ("descendants_inclusive", "nx.descendants")):
        f = method(op)
        paths = return_paths(ev.run(f, {f.params[1]: S}, self_term=G))
        want = ("union", S, ("bigunion", ("comp", "set", ("call", nxf, (Gd, s_), ()), ((s_, S, ()),))))
        if not paths:
            rep.unknown("R14.2", construct(f, "closure"), "no return path", loc(f))
        for k_, p_ in enumerate(paths):
            # every way the routine can answer (a size threshold, a fast path ...) must be the definition
            canon_eq("R14.2", f, "closure" if len(paths) == 1 else f"closure#path{k_}", p_.value, want,
                     f"{op}(S) must be S ∪ ⋃_{{s∈S}} {nxf}(directed component, s) (reflexive, over directed edges)")
    f = method("districts")
    paths = return_paths(ev.run(f, {}, self_term=G))
    want = ("comp", "set", ("setof", c_), ((c_, ("call", "nx.connected_components", (Gu,), ()), ()),))
    if len(paths) == 1:
        canon_eq("R14.2", f, "partition", paths[0].value, want, "districts() must be the connected components of the bidirected component over all nodes")
    else:
        rep.unknown("R14.2", construct(f, "partition"), f"{len(paths)} return paths", loc(f))

    def pred(x):
        return ("meth", Gd, "predecessors", (x,), ())

    def succ(x):
        return ("meth", Gd, "successors", (x,), ())

    f = method("get_markov_pillow")
    paths = return_paths(ev.run(f, {"nodes": S}, self_term=G))
    want = ("diff", ("bigunion", ("comp", "set", pred(s_), ((s_, S, ()),))), S)
    if len(paths) == 1:
        canon_eq("R14.2", f, "pillow", paths[0].value, want, "get_markov_pillow(N) must be (⋃_{n∈N} parents(n)) ∖ N")
    else:
        rep.unknown("R14.2", construct(f, "pillow"), f"{len(paths)} return paths", loc(f))
    f = method("get_markov_blanket")
    paths = return_paths(ev.run(f, {"nodes": S}, self_term=G))
    t_ = var("%t")
    inner = ("union", pred(s_), ("bigunion", ("comp", "set", ("union", ("setlit", (t_,)), pred(t_)), ((t_, succ(s_), ()),))))
    want = ("diff", ("bigunion", ("comp", "set", inner, ((s_, S, ()),))), S)
    if len(paths) == 1:
        canon_eq("R14.2", f, "blanket", paths[0].value, want,
                 "get_markov_blanket(N) must be (⋃_{n∈N} parents(n) ∪ children(n) ∪ parents(children(n))) ∖ N")
    else:
        rep.unknown("R14.2", construct(f, "blanket"), f"{len(paths)} return paths", loc(f))

    flat_graph_rows(model, rep, "R14.2")

    # copy
    f = method("copy")
    paths = return_paths(ev.run(f, {}, self_term=G))
    tr = graph_triple(paths[0].value, sa) if len(paths) == 1 else None
    if tr is not None and compare(sa.member(n, tr[0]), inV)[0] and compare(sa.member(e, tr[1]), eD)[0] and compare(sa.member(e, tr[2]), eU)[0]:
        rep.proven("R14.2", construct(f, "copy"), loc=loc(f))
    else:
        rep.refuted("R14.2", construct(f, "copy"), "copy() must return a new graph with copies of both components", loc(f))

    # topological_sort / pre
    f = method("topological_sort")
    paths = return_paths(ev.run(f, {}, self_term=G))
    want = ("call", "list", (("call", "nx.topological_sort", (Gd,), ()),), ())
    if len(paths) == 1:
        canon_eq("R14.2", f, "order", paths[0].value, want, "topological_sort() must order the directed component")
    # ---------------------------------------------------------------- R14.2 nodes on directed paths (reference comparison)
    from ..refcmp import load_reference, run_table
    load_reference(model, "yvref.c14", "c14_ref.py")
    VS = ("set", ("cls", "y0.dsl.Variable"))

    def _mk14(model_, prims=()):
        return lambda: Evaluator(model_, primitives=set(prims))
    table = [
        ("R14.2", "y0.graph._get_nodes_in_directed_paths_dag", "nodes_on_directed_paths_dag", {"graph": "nx.DiGraph", "sources": VS, "targets": VS}, (),
         "directed-paths-dag", "v is on a path s ~> v ~> t for some pair; endpoints count only for pairs that are connected"),
        ("R14.2", "y0.graph._get_nodes_in_directed_paths_cyclic", "nodes_on_directed_paths_cyclic", {"graph": "nx.DiGraph", "sources": VS, "targets": VS}, (),
         "directed-paths-cyclic", "all nodes of all simple directed paths from a source to a target"),
    ]
    present = [row for row in table if model.has_func(row[1])]
    GT = ("cls", NXMG)
    from .. import nxden

    run_table(model, rep, [
        ("R14.2", f"{NXMG}.pre", "prefix_before", {"self": GT, "nodes": VS, "topological_sort_order": ("union", (("list", ("cls", "y0.dsl.Variable")), "none"))},
         (f"{NXMG}.topological_sort", "y0.graph._ensure_set"), "prefix", "the prefix of the order before the first of the given nodes", {"impl_self_type": GT}),
        ("R14.2", f"{NXMG}.intervene", "intervened", {"self": GT, "variables": ("set", ("cls", "y0.dsl.Intervention"))},
         ("y0.dsl.Variable.intervene", "y0.dsl.CounterfactualVariable.intervene", f"{NXMG}.from_edges"), "filters",
         "every node relabelled; a directed edge is kept iff its target is not intervened, a bidirected edge iff neither endpoint is", {"impl_self_type": GT}),
        ("R14.2", "y0.dsl._to_interventions", "as_interventions", {"variables": ("list", ("cls", "y0.dsl.Variable"))}, (), "one-intervention-per-variable",
         "the subscripts a node gets under intervene(S) are exactly S: every given variable becomes one intervention, none is merged with another or dropped"),
        ("R14.4", f"{NXMG}.__eq__", "same_graph", {"self": GT, "other": GT}, (), "set-views",
         "same node set, directed edge set and bidirected edge set, compared through set-like views", {"impl_self_type": GT}),
    ], "yvref.c14", _mk14, SetAlg(rewriter(graph_rewrite)), construct=construct, loc=loc, post=nxden.post_effects_only)
    intervened_ancestor_rows(model, rep, "R14.2")
    if present:
        run_table(model, rep, present, "yvref.c14", _mk14, SetAlg(), construct=construct, loc=loc)
    else:
        rep.unknown("R14.2", "y0.graph:get_nodes_in_directed_paths#definition", "the two path routines are no longer separate functions; not compared", "src/y0/graph.py", required=False)

    # ---------------------------------------------------------------- R14.5 one-shot iterables
    from .. import linear
    ops5 = ["subgraph", "remove_in_edges", "remove_out_edges", "remove_nodes_from", "intervene", "ancestors_inclusive", "descendants_inclusive",
            "get_markov_pillow", "get_markov_blanket", "pre", "get_district", "get_intervened_ancestors", "get_no_effect_on_outcomes"]
    for op in ops5:
        if NXMG + "." + op not in model.functions:
            continue
        f5 = model.func(NXMG + "." + op)
        if not linear.iterable_params(f5):
            continue
        bad5 = linear.check(f5)
        if bad5:
            prm, n_ = bad5[0]
            rep.refuted("R14.5", construct(f5, "one-shot-iterable"), f"`{prm}` is declared Iterable but is walked {n_} times along one path: for an iterator / generator "
                        "argument every walk after the first sees nothing (e.g. the right nodes but no edges)", loc(f5))
        else:
            rep.proven("R14.5", construct(f5, "one-shot-iterable"), loc=loc(f5))
    for q5 in ("y0.graph.get_nodes_in_directed_paths", "y0.graph._ensure_set", "y0.graph._include_adjacent", "y0.graph._exclude_source", "y0.graph._exclude_target",
               "y0.graph._exclude_adjacent"):
        if model.has_func(q5) and linear.iterable_params(model.func(q5)):
            f5 = model.func(q5)
            bad5 = linear.check(f5)
            (rep.refuted if bad5 else rep.proven)("R14.5", construct(f5, "one-shot-iterable"),
                                                  f"`{bad5[0][0]}` is declared Iterable but is walked {bad5[0][1]} times along one path" if bad5 else "", loc(f5))

    # ---------------------------------------------------------------- R14.3 receiver untouched
    eff = Effects(model)
    ops = ["subgraph", "remove_in_edges", "remove_out_edges", "remove_nodes_from", "intervene", "ancestors_inclusive",
           "descendants_inclusive", "districts", "get_markov_pillow", "get_markov_blanket", "moralize", "disorient", "pre",
           "topological_sort", "copy", "get_district", "is_connected", "get_intervened_ancestors", "get_no_effect_on_outcomes",
           "nodes", "__eq__"]
    for op in ops:
        f = method(op)
        sm = eff.summary(f)
        bad = [(p, es) for p, es in sm.mutates.items()]
        if not bad:
            rep.proven("R14.3", construct(f, "pure"), loc=loc(f), nontrivial=bool(sm.benign) or True)
        else:
            p, es = bad[0]
            rep.refuted("R14.3", construct(f, "pure"), f"may modify its argument `{p}`: {es[0].how}", loc(f, es[0].line))
    # module-level functions of graph.py that the operations use (private helpers come and go with refactorings: every helper that exists
    # is checked; the effects of helpers are in any case part of their callers' summaries above)
    helpers = ["y0.graph.get_nodes_in_directed_paths", "y0.graph.iter_moral_links"] + sorted(
        fn_.qname for fn_ in model.funcs_in_module("y0.graph") if fn_.cls is None and fn_.name.startswith("_") and not fn_.name.startswith("__"))
    for fn in helpers:
        f = model.func(fn)
        sm = eff.summary(f)
        if not sm.mutates:
            rep.proven("R14.3", construct(f, "pure"), loc=loc(f))
        else:
            p, es = next(iter(sm.mutates.items()))
            rep.refuted("R14.3", construct(f, "pure"), f"may modify its argument `{p}`: {es[0].how}", loc(f, es[0].line))
    # results must be fresh objects, not views of the receiver's state
    for op in ("subgraph", "remove_in_edges", "remove_out_edges", "remove_nodes_from", "intervene", "moralize", "disorient", "copy",
               "ancestors_inclusive", "descendants_inclusive", "districts", "get_markov_pillow", "get_markov_blanket"):
        f = method(op)
        sm = eff.summary(f)
        if "self" in sm.returns_roots or (f.params and f.params[0] in sm.returns_roots):
            rep.refuted("R14.3", construct(f, "fresh-result"), "may return (a view of) the receiver's own state instead of a new object", loc(f))
        else:
            rep.proven("R14.3", construct(f, "fresh-result"), loc=loc(f))

    rep.stats.update({
        "functions_analysed": len(ev.inlined) + len(eff.summaries),
        "call_sites_resolved": ev.calls_resolved,
        "call_sites_unresolved": ev.calls_unresolved,
        "exhaustive": True,
    })
    rep.assumptions += [
        "S ⊆ V(G) (rows with n∈S, n∉V(G) are outside the property's quantifier)",
        "nodes of a graph passed to intervene() are plain variables (the TypeError guard rows are excluded)",
        "intervene and get_nodes_in_directed_paths: only filter structure / purity are decided (value-level constructs)",
    ]


def intervened_ancestor_rows(model: Model, rep: Report, rule: str) -> None:
    """get_intervened_ancestors / get_no_effect_on_outcomes against their definitions (ID line 3, TRSO line 3 and the transport of surrogate
    outcomes read W off these); also run by the rules of the properties that rest on them."""
    from ..refcmp import load_reference, run_table
    if "yvref.c14" not in model.modules:
        load_reference(model, "yvref.c14", "c14_ref.py")
    GT = ("cls", NXMG)
    VS = ("set", ("cls", "y0.dsl.Variable"))
    prims = (f"{NXMG}.remove_in_edges", f"{NXMG}.ancestors_inclusive", f"{NXMG}.nodes", "y0.graph._ensure_set")
    rows = [
        (rule, f"{NXMG}.get_intervened_ancestors", "ancestors_after_intervening", {"self": GT, "interventions": VS, "outcomes": VS}, prims, "An(Y)-after-do(X)",
         "the ancestors of the outcomes in the graph with the arrows into EVERY intervened node removed", {"impl_self_type": GT}),
        (rule, f"{NXMG}.get_no_effect_on_outcomes", "without_effect_on", {"self": GT, "interventions": VS, "outcomes": VS}, prims, "V-X-An(Y)",
         "the nodes that are neither intervened on nor ancestors of the outcomes once the arrows into the intervened nodes are removed", {"impl_self_type": GT}),
    ]
    rows = [r for r in rows if model.has_func(r[1])]

    def _mk(model_, prims_=()):
        return lambda: Evaluator(model_, primitives=set(prims_))
    run_table(model, rep, rows, "yvref.c14", _mk, SetAlg(rewriter(graph_rewrite)), construct=construct, loc=loc)


def flat_graph_rows(model: Model, rep: Report, rule: str, which=("disorient", "moralize")) -> None:
    """disorient / moralize by reference comparison (graphs compared by what they contain); also run by the properties whose paths are
    enumerated on the flat graph."""
    from .. import nxden as _nxden
    from ..refcmp import load_reference as _lr, run_table as _rt
    if "yvref.c14" not in model.modules:
        _lr(model, "yvref.c14", "c14_ref.py")
    _GT = ("cls", NXMG)
    rows = [
        (rule, f"{NXMG}.disorient", "flat_graph", {"self": _GT}, (), "flat-graph", "a fresh undirected graph with every node and both edge families", {"impl_self_type": _GT}),
        (rule, f"{NXMG}.moralize", "moralized", {"self": _GT}, (), "moral-links", "a copy of the graph with every two parents of every node married", {"impl_self_type": _GT}),
    ]
    rows = [r for r in rows if r[1].split(".")[-1] in which]
    _rt(model, rep, rows, "yvref.c14", lambda m_, prims: (lambda: Evaluator(m_, primitives=set(prims), prim_methods={"add_node", "add_directed_edge", "add_undirected_edge"})),
        SetAlg(rewriter(graph_rewrite)), construct=construct, loc=loc, post=_nxden.post)
