"""C05 -- surrogate-outcome / transport (TRSO) estimands (partial refinement to Tikka & Karvanen 2018).

R5.0  where domains may differ: get_nodes_to_transport = (De(Z_i) ∖ W_i) ∪ (C-comp(W_i) ∖ An(W_i) in G with edges into Z_i removed);
      create_transport_diagram copies the graph and adds one T_v -> v per node to transport.
R5.1  line table of trso(): guards of lines 1-4 in published order over the *regular* nodes; failure returns None exactly at the
      single-district test; line 9 / line 10 selection; no raise reachable.
R5.2  line-6 gate: a source domain is used only if Z_i ∩ X ≠ ∅ and every transport node is separated from every outcome given X in the
      diagram with edges into X removed; the sub-query (X ∖ Z_i, G_i ∖ (Z_i ∩ X), active = Z_i ∩ X, domain = i).
R5.3  c-factor from the current distribution (line 9): numerator sums the successors, denominator the node and its successors, both of
      query.expression, product over the district, outer sum over district ∖ Y; line 10 factors condition on the predecessors.
R5.4  activation is R6.2, R5.5 transport-node freedom is R6.3 (re-run).
R5.6  purity: every trso_lineN works on a deep copy; nothing reachable from the caller's sets/graph is mutated.
R5.7  with no usable surrogate the line-6 block is skipped and lines 1-4 coincide with ID's (structural part).
"""

from __future__ import annotations

import ast

from ..effects import Effects
from ..model import AnalysisError, Model
from ..report import Report
from ..setalg import SetAlg, compare, f_and, f_not, f_or, show_formula, show_row
from ..symeval import Evaluator
from ..terms import NONE, Term, const, mapterm, show, subterms, var
from .common import GRAPH_PRIMS, NXMG, VARIABLE, construct, graph_rewrite, graph_var, loc, return_paths, rewriter, short, typed, varset, kwargs_of
from . import c06
from .c06 import T, TPRIMS, TPM, CI, _regular_rewrite

LINES = ["trso_line1", "trso_line2", "trso_line3", "trso_line4", "trso_line6", "trso_line9", "trso_line10", "activate_domain_and_interventions",
         "_pillow_has_transport", "_c14n_safe"]


def _setattrs(t: Term) -> dict:
    out = {}
    for s in subterms(t):
        if s[0] == "setattr":
            out[s[1]] = s[2]
        if s[0] == "setitem-attr":
            out[(s[1], "item")] = (s[2], s[3])
        if s[0] == "deep":
            out[("deep", s[1])] = (s[2], s[3])
    return out


def _base_copy(t: Term):
    while t[0] in ("mut", "accum"):
        t = t[2] if t[0] == "accum" else t[1]
    return t


def run(model: Model, rep: Report, tier: str) -> None:
    rep.level = "other"
    rep.explanation = (
        "trso() and each of its helper steps are compared, path pair by path pair, with the algorithm written out as plain Python in "
        "yv/refs/c05_ref.py (and the transport diagram in c06_ref.py): both sides go through the same evaluator; trso() is compared with its line "
        "helpers as primitives (guards and their order, which helper gets which arguments, canonicalisation of every result, `None` for no estimand, "
        "exception classes), every helper on its own (selection nodes, the line-6 gate and sub-query, record updates of lines 3 / 4 / 10 on a deep "
        "copy, line 9's c-factor). Purity is the effects analysis (including shallow-copy aliasing); population tags and transport-node exclusion are "
        "C06's rules. Decides this structure; does not decide the transport formula's value, which of several usable domains is chosen (open in the "
        "source), nor termination."
    )
    rep.trusted_base = ["Tikka & Karvanen 2018 (soundness of TRSO)", "C04 separation oracle", "C14 graph primitives", "copy.deepcopy returns an independent object"]
    rep.floors = {"R5.0": 2, "R5.1": 1, "R5.2": 2, "R5.3": 5, "R5.6": 8, "R6.2": 5 if model.has_func("y0.algorithm.transport._line_6_helper") else 4, "R6.3": 5, "R6.5": 2}
    sa = SetAlg(rewrite=rewriter(graph_rewrite, _regular_rewrite))
    n = var("%n")
    r5_helpers(model, rep)
    from . import c14 as _c14
    _c14.intervened_ancestor_rows(model, rep, "R5.0")
    r5_1_ref(model, rep)
    r5_6(model, rep)
    c06.r6_2(model, rep)
    c06.r6_3(model, rep)
    c06.r6_5(model, rep)  # the problem handed to TRSO: every source domain with its own experiments and diagram


def r5_helpers(model, rep) -> None:
    """Every helper step of TRSO against its definition written out in yv/refs/c05_ref.py (and the transport diagram against c06_ref): where
    the selection nodes point, the line-6 gate and sub-query, the record updates of lines 3 / 4 / 10 on a deep copy, line 9's c-factor."""
    from .. import nxden
    from ..refcmp import load_reference, run_table
    from .dslcommon import DSL_PRIMS

    for name, fn in (("yvref.c05", "c05_ref.py"), ("yvref.c06", "c06_ref.py")):
        if name not in model.modules:
            load_reference(model, name, fn)
    V = ("cls", VARIABLE)
    G = ("cls", NXMG)
    VS = ("set", V)
    Q = ("cls", f"{T}.TRSOQuery")
    POP = ("cls", "y0.dsl.Population")
    CI_ = "y0.algorithm.conditional_independencies.are_d_separated"
    H = {f"{T}.get_transport_nodes", f"{T}.get_regular_nodes", f"{T}.is_transport_node", f"{T}._upgrade_variables", "y0.dsl._upgrade_variables", CI_,
         "y0.mutate.canonicalize_expr.canonicalize"}

    def mk(model_, prims):
        return lambda: Evaluator(model_, primitives=set(GRAPH_PRIMS) | set(DSL_PRIMS) | set(prims), prim_methods={"__mul__", "__truediv__", "__or__", "simplify", "intervene"})

    table = [
        ("R5.0", f"{T}.get_nodes_to_transport", "nodes_to_transport", {"surrogate_interventions": VS, "surrogate_outcomes": VS, "graph": G}, H, "selection-nodes",
         "(De(Z_i) ∖ W_i) ∪ (C(W_i) ∖ An(W_i) in G with the edges into Z_i removed)"),
        (("R5.2", f"{T}._line_6_helper", "line_6_for_domain", {"query": Q, "domain": POP, "graph": G}, H | {f"{T}.all_transports_d_separated"}, "gate-and-subquery",
          "usable iff Z_i ∩ X ≠ ∅ and the separation gate holds; then, on a deep copy: X ∖ Z_i, the domain activated, its diagram minus Z_i ∩ X, active interventions Z_i ∩ X")
         if model.has_func(f"{T}._line_6_helper") else
         # the per-domain step is not a routine of its own (any more): line 6 as a whole, with the definition's per-domain step written out
         ("R5.2", f"{T}.trso_line6", "line_6", {"query": Q}, H | {f"{T}.all_transports_d_separated"}, "gate-and-subquery",
          "for every source domain: usable iff Z_i ∩ X ≠ ∅ and the separation gate holds; then, on a deep copy: X ∖ Z_i, the domain activated, its diagram minus Z_i ∩ X")),
        ("R5.2", f"{T}.all_transports_d_separated", "transports_separated", {"graph": G, "target_interventions": VS, "target_outcomes": VS}, H, "separation-gate",
         "EVERY selection node is separated from EVERY outcome given X in the diagram with the edges into X removed"),
        ("R5.3", f"{T}.trso_line9", "line_9", {"query": Q, "district": VS}, H, "c-factor",
         "Π over the district of (Σ_{after v} P / Σ_{v and after} P) in topological order without selection nodes, summed over the district's non-outcomes"),
        ("R5.3", f"{T}.trso_line10", "line_10", {"query": Q, "district": VS, "new_surrogate_interventions": ("dict", POP, VS)}, H, "line10-factors",
         "on a deep copy: X ∩ S', Π_{v∈S'} P(v | predecessors) in the active domain, G[S'], the updated experiment table"),
        ("R5.3", f"{T}.trso_line3", "line_3", {"query": Q, "additional_interventions": VS}, H, "line3-update", "a deep copy with the extra interventions added, nothing else"),
        ("R5.3", f"{T}.trso_line2", "line_2", {"query": Q, "outcomes_ancestors": VS}, H, "line2-restriction",
         "on a deep copy: X ∩ An(Y); every domain's diagram restricted to its own An(Y); the distribution in hand summed over the regular nodes of the "
         "CURRENT domain's diagram that are not in An(Y)"),
        ("R5.3", f"{T}.trso_line4", "line_4", {"query": Q, "components": ("iter", ("frozenset", V))}, H, "line4-subproblems",
         "one deep copy per district: outcomes = the district, interventions = every other regular node"),
    ]
    run_table(model, rep, table, "yvref.c05", mk, SetAlg(rewriter(graph_rewrite)), construct=construct, loc=loc)
    run_table(model, rep, [
        ("R5.0", f"{T}.create_transport_diagram", "transport_diagram", {"graph": G, "nodes_to_transport": ("iter", V)},
         {f"{T}.create_transport_diagram", f"{T}.get_nodes_to_transport", f"{T}.transport_variable"}, "selection-diagram",
         "the graph (all nodes, directed and bidirected edges) plus one transport node T_v -> v per variable to transport"),
    ], "yvref.c06", lambda m_, prims: (lambda: Evaluator(m_, primitives=set(GRAPH_PRIMS) | set(prims), prim_methods={"add_node", "add_directed_edge", "add_undirected_edge"})),
        SetAlg(rewriter(graph_rewrite)), construct=construct, loc=loc, post=nxden.post)


def r5_1_ref(model, rep) -> None:
    """trso() against the algorithm written out (yv/refs/c05_ref.py: lines 1-4, 6/7 -- only while no experiment is active --, 8/11, 9, 10 with
    the transport-node gate, every recursive result canonicalised, `None` for "no estimand"), line helpers as primitives on both sides:
    guards and their ORDER, which helper gets which arguments, what is returned, which exception classes can escape."""
    from ..refcmp import load_reference, run_table
    from .dslcommon import DSL_PRIMS

    if "yvref.c05" not in model.modules:
        load_reference(model, "yvref.c05", "c05_ref.py")
    Q = ("cls", f"{T}.TRSOQuery")
    H = {f"{T}.get_transport_nodes", f"{T}.get_regular_nodes", f"{T}.is_transport_node", "y0.mutate.canonicalize_expr.canonicalize",
         f"{T}.activate_domain_and_interventions"} | {f"{T}.trso_line{i}" for i in (1, 2, 3, 4, 6, 9, 10)}
    run_table(model, rep, [
        ("R5.1", f"{T}.trso", "trso_algorithm", {"query": Q}, H, "lines-1-11",
         "lines 1, 2, 3, 4 (None if a sub-problem fails), 6/7 (only while no experiment is active; the activated result of a usable domain), "
         "8/11 (one district: no estimand), 9, 10 (no estimand if the enclosing district's pillow has a selection node while an experiment is active)"),
    ], "yvref.c05", lambda m_, prims: (lambda: Evaluator(m_, primitives=set(GRAPH_PRIMS) | set(DSL_PRIMS) | set(prims),
                                                        prim_methods={"__mul__", "__truediv__", "__or__", "simplify", "intervene"})),
        SetAlg(rewriter(graph_rewrite)), construct=construct, loc=loc)


def r5_0(model, rep, sa, n):
    f = model.func(f"{T}.get_nodes_to_transport")
    ev = Evaluator(model, primitives=set(GRAPH_PRIMS) | {f"{NXMG}.get_intervened_ancestors", "y0.dsl._upgrade_variables"})
    Z = varset(ev, "surrogate_interventions")
    W = varset(ev, "surrogate_outcomes")
    G = graph_var(ev, "graph")
    rets = return_paths(ev.run(f, {"surrogate_interventions": Z, "surrogate_outcomes": W, "graph": G}))
    problems = []
    if len(rets) != 1:
        problems.append(f"{len(rets)} return paths")
    else:
        def unup(t):
            return mapterm(t, lambda s: kwargs_of(s).get("variables", s[2][0] if s[2] else None) if s[0] == "call" and str(s[1]).endswith("_upgrade_variables") else None)
        v = unup(rets[0].value)
        De = ("meth", G, "descendants_inclusive", (), (("sources", Z),))
        AnZ = ("meth", G, "get_intervened_ancestors", (), (("interventions", Z), ("outcomes", W)))
        comp = var("%c")
        Cc = ("accum", "union", ("empty",), comp, ((comp, ("meth", G, "districts", (), ()), (("truth", ("inter", W, comp)),)),), const(False))
        want = ("union", ("diff", De, W), ("diff", Cc, AnZ))
        a, b = sa.canon_top(("setof", v)), sa.canon_top(("setof", want))
        if a != b:
            # pinpoint the usual mistake
            if any(s[0] == "meth" and s[2] == "ancestors_inclusive" and s[1] == G for s in subterms(v)) and not any(s[0] == "meth" and s[2] == "get_intervened_ancestors" for s in subterms(v)):
                problems.append("ancestors of the surrogate outcomes are taken in G itself; the published set uses G with the edges into the experiment variables Z_i removed "
                                "(a district member that reaches W_i only through Z_i must still get a transport node)")
            else:
                problems.append("nodes to transport are not (De(Z_i) ∖ W_i) ∪ (C(W_i) ∖ An(W_i)_{G_{Z̄_i}}): " + short(show(a), 300))
    (rep.refuted if problems else rep.proven)("R5.0", construct(f, "selection-nodes"), "; ".join(problems), loc(f))
    f = model.func(f"{T}.create_transport_diagram")
    from . import c14
    ev, sa14 = c14.mk(model)
    ev.primitives |= {f"{T}.transport_variable"}
    G = graph_var(ev, "graph")
    NT = typed(ev, "nodes_to_transport", ("iter", ("cls", VARIABLE)))
    rets = return_paths(ev.run(f, {"graph": G, "nodes_to_transport": NT}))
    problems = []
    if len(rets) != 1 or c14.graph_triple(rets[0].value, sa14) is None:
        problems.append("result is not a fresh graph built by add_node/add_*_edge")
    else:
        N, D, U = c14.graph_triple(rets[0].value, sa14)
        e = var("%e")
        if not compare(sa14.member(n, N), sa14.member(n, ("V", G)))[0]:
            problems.append("the diagram does not keep exactly the nodes of the graph (plus transport nodes through their edges)")
        if not compare(sa14.member(e, U), sa14.member(e, ("Eu", G)))[0]:
            problems.append("bidirected edges are not copied exactly")
        parts = sa14.union_parts(D)
        tn = [p for p in parts if any(s[0] == "call" and str(s[1]).endswith("transport_variable") for s in subterms(p))]
        rest = [p for p in parts if p not in tn]
        if not (len(rest) == 1 and compare(sa14.member(e, rest[0]), sa14.member(e, ("Ed", G)))[0]):
            problems.append("directed edges are not copied exactly")
        ok_t = False
        for p in tn:
            for s in subterms(p):
                if s[0] == "comp" and len(s[3]) == 1 and sa14.strip(s[3][0][1]) == NT and not s[3][0][2] and s[2][0] == "tuplelit":
                    tv, tgt = s[2][1]
                    if tgt == s[3][0][0] and tv[0] == "call" and kwargs_of(tv).get("variable") == s[3][0][0]:
                        ok_t = True
        if not ok_t:
            problems.append("not exactly one edge T_v -> v for every node to transport")
    (rep.refuted if problems else rep.proven)("R5.0", construct(f, "selection-diagram"), "; ".join(problems), loc(f))


def r5_1(model, rep, sa, n):
    f = model.func(f"{T}.trso")
    prims = set(TPRIMS) | {f"{T}.{x}" for x in LINES}
    ev = Evaluator(model, primitives=prims, prim_methods=set(TPM))
    q = typed(ev, "query", ("cls", f"{T}.TRSOQuery"))
    paths = ev.run(f, {"query": q})
    G = ("index", ("attr", q, "graphs"), ("attr", q, "domain"))
    X, Y = ("attr", q, "target_interventions"), ("attr", q, "target_outcomes")
    REG = ("call", f"{T}.get_regular_nodes", (), (("graph", G),))
    An = ("meth", G, "ancestors_inclusive", (), (("sources", Y),))
    W = ("meth", G, "get_no_effect_on_outcomes", (X, Y), ())
    H = ("meth", G, "remove_nodes_from", (), (("vertices", X),))
    DH = ("meth", H, "districts", (), ())
    tX = sa.cond(("truth", X))
    tN = sa.cond(("truth", ("diff", REG, An)))
    tW = sa.cond(("truth", W))
    many = sa.cond(("lt", const(1), ("len", DH)))

    def guard(p):
        return f_and(*[sa.cond(c) for c in p.conds])

    def implies(f1, f2):
        return compare(f_and(f1, f_not(f2)), False)[0]

    def find(pred):
        return [p for p in paths if pred(p)]

    def callee(p, name):
        return any(s[0] == "call" and s[1] == f"{T}.{name}" for s in subterms(p.value))

    checks = []
    # line 1
    ps = find(lambda p: callee(p, "trso_line1"))
    ok = len(ps) == 1 and compare(guard(ps[0]), f_not(tX))[0]
    if ok:
        k = kwargs_of([s for s in subterms(ps[0].value) if s[0] == "call" and s[1] == f"{T}.trso_line1"][0])
        ok = k.get("expression") == ("attr", q, "expression") and k.get("graph") == G and k.get("target_outcomes") == Y
    checks.append(("line1", ok, "line 1 (X = ∅ → Σ_{V∖Y} P) is not taken exactly when there are no target interventions, with the current expression and graph"))
    # line 2
    ps = find(lambda p: callee(p, "trso_line2"))
    ok = len(ps) == 1 and compare(guard(ps[0]), f_and(tX, tN))[0]
    if ok:
        k = kwargs_of([s for s in subterms(ps[0].value) if s[0] == "call" and s[1] == f"{T}.trso_line2"][0])
        ok = k.get("outcomes_ancestors") == An and k.get("query") == q and any(s[0] == "recurse" for s in subterms(ps[0].value))
    checks.append(("line2", ok, "line 2 is not guarded by (regular nodes ∖ An(Y)_G ≠ ∅) right after line 1, or does not recurse on trso_line2(query, An(Y)_G)"))
    # line 3
    ps = find(lambda p: callee(p, "trso_line3"))
    ok = len(ps) == 1 and compare(guard(ps[0]), f_and(tX, f_not(tN), tW))[0]
    if ok:
        k = kwargs_of([s for s in subterms(ps[0].value) if s[0] == "call" and s[1] == f"{T}.trso_line3"][0])
        ok = k.get("additional_interventions") == W and k.get("query") == q
    checks.append(("line3", ok, "line 3 is not guarded by W = (V∖X)∖An(Y)_{G_X̄} ≠ ∅ after lines 1-2, or does not add exactly W"))
    # line 4
    ps = find(lambda p: any(s[0] == "call" and s[1] == f"{T}.trso_line4" for s in subterms((p.value, p.conds))))
    ok = len(ps) == 2 and all(implies(guard(p), f_and(tX, f_not(tN), f_not(tW), many)) for p in ps)
    if ok:
        none_p = [p for p in ps if p.value == NONE]
        val_p = [p for p in ps if p.value != NONE]
        ok = len(none_p) == 1 and len(val_p) == 1
        if ok:
            v = val_p[0].value
            sums = [s for s in subterms(v) if s[0] == "call" and str(s[1]).endswith("Sum.safe")]
            ok = len(sums) == 1 and compare(sa.member(n, kwargs_of(sums[0]).get("ranges")), f_and(sa.member(n, REG), f_not(sa.member(n, X)), f_not(sa.member(n, Y))))[0]
            k4 = kwargs_of([s for s in subterms(v) if s[0] == "call" and s[1] == f"{T}.trso_line4"][0])
            ok = ok and k4.get("components") == DH and k4.get("query") == q
            ok = ok and any(c[0] == "isnone" and c[1][0] == "recurse" for c in none_p[0].conds)
    checks.append(("line4", ok, "line 4 (several districts of G∖X → Σ_{V∖(Y∪X)} Π_i TRSO(S_i, ...), None if a factor fails) deviates"))
    # failure points: None only via line 4 sub-failure, the single-district test, or the transport-in-pillow test
    ps = find(lambda p: p.kind == "return" and p.value == NONE and not callee(p, "trso_line4") and not any(any(s[0] == "call" and s[1] == f"{T}.trso_line4" for s in subterms(c)) for c in p.conds))
    DG = ("meth", G, "districts", (), ())
    few = f_or(sa.cond(("eq", ("len", DG), const(0))), sa.cond(("eq", ("len", DG), const(1))))
    pil = lambda p: any(any(s[0] == "call" and s[1] == f"{T}._pillow_has_transport" for s in subterms(c)) and c[0] != "not" for c in p.conds)  # noqa: E731
    ok = bool(ps) and all(implies(guard(p), f_and(tX, f_not(tN), f_not(tW), f_not(many))) and (implies(guard(p), few) or pil(p)) for p in ps)
    checks.append(("fail", ok, "TRSO gives up (returns None) somewhere else than at the single-district test (line 8) or the transport-node-in-pillow test"))
    # line 9 / 10 selection
    S = ("meth", DH, "pop", (), ())
    ps9 = find(lambda p: callee(p, "trso_line9"))
    inS = sa.cond(("in", S, DG))
    ok = bool(ps9) and all(implies(guard(p), f_and(inS, f_not(few), f_not(many))) for p in ps9)
    if ok:
        for p in ps9:
            k = kwargs_of([s for s in subterms(p.value) if s[0] == "call" and s[1] == f"{T}.trso_line9"][0])
            ok = ok and sa.strip(k.get("district")) == S and k.get("query") == q
    checks.append(("line9", ok, "line 9 is not taken exactly when the single district S of G∖X is a district of G, with district = S"))
    ps10 = find(lambda p: callee(p, "trso_line10"))
    ok = bool(ps10) and all(implies(guard(p), f_and(f_not(inS), f_not(few), f_not(many))) for p in ps10)
    if ok:
        for p in ps10:
            k = kwargs_of([s for s in subterms(p.value) if s[0] == "call" and s[1] == f"{T}.trso_line10"][0])
            d = k.get("district")
            comps = [s for s in subterms(d) if s[0] == "comp" and len(s[3]) == 1]
            ok = ok and len(comps) == 1 and comps[0][3][0][1] == DG and comps[0][3][0][2] == (("subset", S, comps[0][3][0][0]),) and comps[0][2] == comps[0][3][0][0]
            ok = ok and any(s[0] == "recurse" for s in subterms(p.value))
    checks.append(("line10", ok, "line 10 does not recurse on the unique district of G that contains S"))
    for name, ok, why in checks:
        (rep.proven if ok else rep.refuted)("R5.1", construct(f, name), "" if ok else why, loc(f))
    # raises must be dead: RuntimeError guards
    live = []
    for p in paths:
        if p.kind != "raise":
            continue
        g = guard(p)
        # |C(G∖X)| = 0 is impossible for a non-empty graph ; not exactly one district of G containing S contradicts refinement
        zero = sa.cond(("eq", ("len", DH), const(0)))
        uniq = any(c[0] == "ne" and c[1][0] == "len" and c[1][1][0] == "comp" and c[2] == const(1) for c in p.conds)
        if implies(g, zero) or uniq:
            continue
        live.append(f"{show(p.value)} when [{short(show_formula(g), 200)}]")
    (rep.refuted if live else rep.proven)("R5.1", construct(f, "dead-raises"), "trso() can fail with " + "; ".join(live) if live else "", loc(f),
                                          sample={"axioms": ["G∖X has at least one district (Y ⊆ V∖X non-empty)", "exactly one district of G contains the district S of G∖X"]})
    # R5.7: the line-6 block is guarded by the surrogate table
    ps6 = find(lambda p: any(s[0] == "call" and s[1] == f"{T}.trso_line6" for s in subterms((p.value, p.conds))))
    gate = f_and(f_not(sa.cond(("truth", ("attr", q, "active_interventions")))), sa.cond(("truth", ("attr", q, "surrogate_interventions"))))
    ok = bool(ps6) and all(implies(guard(p), f_and(gate, f_not(many), f_not(tW), f_not(tN), tX)) for p in ps6)
    (rep.proven if ok else rep.refuted)("R5.7", construct(f, "line6-gate"), "" if ok else
                                        "source domains are consulted although an experiment is already active or no surrogate experiment is declared (with none declared TRSO must reduce to ID's lines)", loc(f))
    rep.stats["paths_of_trso"] = len(paths)


def r5_2(model, rep, sa, n):
    f = model.func(f"{T}._line_6_helper")
    ev = Evaluator(model, primitives=set(TPRIMS) | {f"{T}.all_transports_d_separated"}, prim_methods=set(TPM))
    q = typed(ev, "query", ("cls", f"{T}.TRSOQuery"))
    d = typed(ev, "domain", ("cls", VARIABLE))
    g = graph_var(ev, "graph")
    paths = return_paths(ev.run(f, {"query": q, "domain": d, "graph": g}))
    X, Y = ("attr", q, "target_interventions"), ("attr", q, "target_outcomes")
    Zi = ("index", ("attr", q, "surrogate_interventions"), d)
    problems = []
    used = [p for p in paths if p.value != NONE]
    if len(used) != 1:
        problems.append(f"{len(used)} paths use the source domain")
    else:
        p = used[0]
        gd = f_and(*[sa.cond(c) for c in p.conds])
        need1 = sa.cond(("truth", ("inter", Zi, X)))
        sepc = ("call", f"{T}.all_transports_d_separated", (), (("graph", g), ("target_interventions", X), ("target_outcomes", Y)))
        need2 = sa.cond(sepc)
        if not compare(f_and(gd, f_not(need1)), False)[0]:
            problems.append("a source domain is used although none of its experiment variables is a target intervention (Z_i ∩ X = ∅)")
        if not compare(f_and(gd, f_not(need2)), False)[0]:
            problems.append("a source domain is used without testing that its transport nodes are separated from the outcomes")
        sets = _setattrs(p.value)
        if _base_copy(p.value)[0] != "copyof":
            problems.append("the sub-query is not a deep copy of the query")
        ti = sets.get("target_interventions")
        if ti is None or not compare(sa.member(n, ti), f_and(sa.member(n, X), f_not(sa.member(n, Zi))))[0]:
            problems.append("remaining interventions are not X ∖ Z_i")
        gi = sets.get(("graphs", "item"))
        if gi is None:
            problems.append("the domain's diagram is not replaced")
        else:
            key, val = gi
            if not (val[0] == "meth" and val[2] == "remove_nodes_from" and val[1] == g and compare(sa.member(n, kwargs_of(val).get("vertices")), f_and(sa.member(n, Zi), sa.member(n, X)))[0]):
                problems.append("the sub-query's diagram is not G_i with Z_i ∩ X removed")
    (rep.refuted if problems else rep.proven)("R5.2", construct(f, "gate-and-subquery"), "; ".join(problems), loc(f))
    f = model.func(f"{T}.all_transports_d_separated")
    ev = Evaluator(model, primitives=set(TPRIMS), prim_methods=set(TPM))
    g = graph_var(ev, "graph")
    X = varset(ev, "target_interventions")
    Y = varset(ev, "target_outcomes")
    rets = return_paths(ev.run(f, {"graph": g, "target_interventions": X, "target_outcomes": Y}))
    problems = []
    from .common import quantifier_of
    from ..symeval import bool_paths
    qv = rets[0].value if len(rets) == 1 else quantifier_of(bool_paths(rets))
    if qv is None or qv[0] != "all":
        problems.append("the separation must hold for ALL pairs (transport node, outcome)")
    else:
        c = qv[1]
        body = c[2]
        while body[0] == "truth":
            body = body[1]
        c = (c[0], c[1], body, c[3])
        gens = c[3]
        tn = [gq for gq in gens if gq[1][0] == "call" and str(gq[1][1]).endswith("get_transport_nodes")]
        yo = [gq for gq in gens if sa.strip(gq[1]) == Y]
        if len(tn) != 1 or len(yo) != 1 or len(gens) != 2:
            problems.append("quantifiers do not range over the transport nodes of the diagram and the target outcomes")
        else:
            call = c[2]
            kw = kwargs_of(call)
            if not (call[0] == "call" and call[1] == CI and {kw.get("a"), kw.get("b")} == {tn[0][0], yo[0][0]}):
                problems.append("are_d_separated is not asked about (transport node, outcome)")
            if not compare(sa.member(n, kw.get("conditions")), sa.member(n, X))[0]:
                problems.append("the conditioning set is not the target interventions X")
            gg = kw.get("graph")
            if not (gg[0] == "meth" and gg[2] == "remove_in_edges" and gg[1] == g and compare(sa.member(n, kwargs_of(gg).get("vertices")), sa.member(n, X))[0]):
                problems.append("the test graph is not the diagram with edges into X removed")
            extra = [k for k in tn[0][2] if not (k[0] == "in" and k[1] == tn[0][0])]
            if extra or yo[0][2]:
                problems.append("some (transport node, outcome) pairs are skipped")
    (rep.refuted if problems else rep.proven)("R5.2", construct(f, "separation-gate"), "; ".join(problems), loc(f))


def r5_3(model, rep, sa, n):
    f = model.func(f"{T}.trso_line9")
    ev = Evaluator(model, primitives=set(TPRIMS), prim_methods=set(TPM))
    q = typed(ev, "query", ("cls", f"{T}.TRSOQuery"))
    D = varset(ev, "district")
    rets = return_paths(ev.run(f, {"query": q, "district": D}))
    problems = []
    E = ("attr", q, "expression")
    if len(rets) != 1:
        problems.append(f"{len(rets)} return paths")
    else:
        v = rets[0].value
        outer = v if v[0] == "call" and str(v[1]).endswith("Sum.safe") else None
        if outer is None or not compare(sa.member(n, kwargs_of(outer).get("ranges")), f_and(sa.member(n, D), f_not(sa.member(n, ("attr", q, "target_outcomes")))))[0]:
            problems.append("the outer sum is not over district ∖ Y")
        acc = [s for s in subterms(v) if s[0] == "accum" and s[1] == "op*"]
        if len(acc) != 1:
            problems.append("no product over the district's nodes")
        else:
            a = acc[0]
            (node, it, conds), = a[4]
            if sa.strip(it) != D or conds:
                problems.append("the product does not range over every node of the district")
            frac = a[3]
            if not (frac[0] == "op" and frac[1] == "/"):
                problems.append("a factor is not a ratio of two marginals")
            else:
                num, den = frac[2], frac[3]
                ok_e = all(x[0] == "call" and str(x[1]).endswith("Sum.safe") and kwargs_of(x).get("expression") == E for x in (num, den))
                if not ok_e:
                    problems.append("numerator/denominator are not sums of the distribution currently in hand (query.expression)")
                else:
                    rn, rd = kwargs_of(num).get("ranges"), kwargs_of(den).get("ranges")
                    # zones relative to `node` in the order ORD
                    ORD = None
                    for s in subterms(rn):
                        if s[0] == "slice":
                            ORD = s[1]
                    if ORD is None:
                        problems.append("ranges are not taken from positions in a variable order")
                    else:
                        idx = ("meth", ORD, "index", (node,), ())
                        want_n = ("diff", ("setof", ORD), ("setof", ("slice", ORD, NONE, ("op", "+", idx, const(1)))))
                        want_d = ("diff", ("setof", ORD), ("setof", ("slice", ORD, NONE, idx)))
                        cn, cd = sa.canon_top(("setof", rn)), sa.canon_top(("setof", rd))
                        if cn == sa.canon_top(want_d) and cd == sa.canon_top(want_n):
                            problems.append("numerator and denominator ranges are exchanged (numerator must sum the variables after v, the denominator v and the variables after it)")
                        elif cn != sa.canon_top(want_n):
                            problems.append("the numerator does not sum exactly the variables after v in the order")
                        elif cd != sa.canon_top(want_d):
                            problems.append("the denominator does not sum exactly v and the variables after it")
    (rep.refuted if problems else rep.proven)("R5.3", construct(f, "c-factor"), "; ".join(problems), loc(f))
    # line 10: factors P(v | predecessors) in the current domain's order, restricted query
    f = model.func(f"{T}.trso_line10")
    ev = Evaluator(model, primitives=set(TPRIMS), prim_methods=set(TPM))
    q = typed(ev, "query", ("cls", f"{T}.TRSOQuery"))
    D = varset(ev, "district")
    nsi = var("new_surrogate_interventions")
    rets = return_paths(ev.run(f, {"query": q, "district": D, "new_surrogate_interventions": nsi}))
    problems = []
    if len(rets) != 1:
        problems.append(f"{len(rets)} return paths")
    else:
        v = rets[0].value
        sets = _setattrs(v)
        if _base_copy(v)[0] != "copyof":
            problems.append("not a deep copy")
        ti = sets.get("target_interventions")
        if ti is None or not compare(sa.member(n, ti), f_and(sa.member(n, ("attr", q, "target_interventions")), sa.member(n, D)))[0]:
            problems.append("interventions are not restricted to X ∩ S'")
        gi = sets.get(("graphs", "item"))
        G = ("index", ("attr", q, "graphs"), ("attr", q, "domain"))
        if gi is None or not (gi[1][0] == "meth" and gi[1][2] == "subgraph" and gi[1][1] == G and sa.strip(kwargs_of(gi[1]).get("vertices")) == D and gi[0] == ("attr", q, "domain")):
            problems.append("the current domain's diagram is not restricted to G[S']")
        if sets.get("surrogate_interventions") != nsi:
            problems.append("surrogate table not updated")
        ex = sets.get("expression")
        leaves = [s for s in subterms(ex) if s[0] in ("rec", "new") and str(s[1]).endswith("PopulationProbability")] if ex else []
        if len(leaves) != 1:
            problems.append("the new distribution is not a product of one conditional per node")
        else:
            dist = dict(leaves[0][2]).get("distribution")
            arg = kwargs_of(dist).get("distribution") if dist and dist[0] == "call" else None
            if not (arg and arg[0] == "op" and arg[1] == "|"):
                problems.append("a factor is not a conditional v | predecessors")
            else:
                node, pre = arg[2], arg[3]
                core = sa.strip(pre)
                if not (core[0] == "slice" and core[2] == NONE and core[3][0] == "meth" and core[3][2] == "index" and core[3][3] == (node,) and core[3][1] == core[1]):
                    problems.append("a node is not conditioned on exactly its predecessors in the current order (Q[S'] = Π_v P(v | v_π^{(<v)})): conditioned on " + short(show(pre), 120))
    (rep.refuted if problems else rep.proven)("R5.3", construct(f, "line10-factors"), "; ".join(problems), loc(f))
    # line 2 / 3 / 4 helpers
    f = model.func(f"{T}.trso_line3")
    ev = Evaluator(model, primitives=set(TPRIMS), prim_methods=set(TPM))
    q = typed(ev, "query", ("cls", f"{T}.TRSOQuery"))
    A = varset(ev, "additional_interventions")
    rets = return_paths(ev.run(f, {"query": q, "additional_interventions": A}))
    ok = len(rets) == 1 and _base_copy(rets[0].value)[0] == "copyof" and _setattrs(rets[0].value).get(("deep", (("attr", "target_interventions"),))) == ("update", (A,))
    (rep.proven if ok else rep.refuted)("R5.3", construct(f, "line3-update"), "" if ok else "line 3 must add the no-effect nodes to the interventions of a deep copy of the query", loc(f))


def r5_6(model, rep):
    eff = Effects(model)
    for fn in ("trso", "trso_line1", "trso_line2", "trso_line3", "trso_line4", "trso_line6", *(("_line_6_helper",) if model.has_func(f"{T}._line_6_helper") else ()), "trso_line9", "trso_line10",
               "activate_domain_and_interventions", "all_transports_d_separated", "identify_target_outcomes", "surrogate_to_transport",
               "create_transport_diagram", "get_nodes_to_transport"):
        f = model.func(f"{T}.{fn}")
        sm = eff.summary(f)
        if sm.mutates:
            p, es = next(iter(sm.mutates.items()))
            rep.refuted("R5.6", construct(f, "pure"), f"may modify the caller's `{p}`: {es[0].how}", loc(f, es[0].line))
        else:
            rep.proven("R5.6", construct(f, "pure"), loc=loc(f))
