"""Obligations, verdicts, evidence files, known findings, exit codes."""

from __future__ import annotations

import json
import os
import sys
import time
from dataclasses import dataclass, field
from typing import Any

VERIF = os.path.dirname(os.path.dirname(os.path.abspath(__file__)))
EVIDENCE_DIR = os.path.join(VERIF, "evidence")
REPLAY_DIR = os.path.join(VERIF, "replay")
KNOWN_FINDINGS = os.path.join(VERIF, "known_findings.json")

PROVEN, REFUTED, UNKNOWN = "PROVEN", "REFUTED", "UNKNOWN"


@dataclass
class Obligation:
    rule: str  # e.g. R14.1
    construct: str  # "<module>:<qualname>#<role>"  (never a line number)
    verdict: str
    detail: str = ""  # normal forms / witness in words
    loc: str = ""  # file:line, informational only
    nontrivial: bool = True
    required: bool = True  # belongs to the hand-confirmed instance floor
    sample: Any = None
    inherited: str = ""  # thorough tier: the property whose rule this is (trusted base of the property being checked)

    @property
    def key(self) -> str:
        return f"{self.rule}@{self.construct}"


@dataclass
class Report:
    property_id: str
    tier: str
    level: str = "other"
    obligations: list[Obligation] = field(default_factory=list)
    assumptions: list[str] = field(default_factory=list)
    trusted_base: list[str] = field(default_factory=list)
    explanation: str = ""
    rule_text: str = ""
    floors: dict[str, int] = field(default_factory=dict)  # rule -> minimum number of obligations
    stats: dict[str, Any] = field(default_factory=dict)
    errors: list[str] = field(default_factory=list)
    t0: float = field(default_factory=time.time)

    def add(self, rule: str, construct: str, verdict: str, detail: str = "", loc: str = "", **kw: Any) -> Obligation:
        ob = Obligation(rule, construct, verdict, detail, loc, **kw)
        self.obligations.append(ob)
        return ob

    def proven(self, rule, construct, detail="", loc="", **kw):
        return self.add(rule, construct, PROVEN, detail, loc, **kw)

    def refuted(self, rule, construct, detail="", loc="", **kw):
        return self.add(rule, construct, REFUTED, detail, loc, **kw)

    def unknown(self, rule, construct, detail="", loc="", **kw):
        return self.add(rule, construct, UNKNOWN, detail, loc, **kw)

    def error(self, msg: str) -> None:
        self.errors.append(msg)


def load_known() -> list[dict]:
    if not os.path.exists(KNOWN_FINDINGS):
        return []
    with open(KNOWN_FINDINGS, encoding="utf-8") as fh:
        data = json.load(fh)
    return data.get("findings", [])


def _downgrade_outside_idioms(rep: Report) -> None:
    """Three-valued discipline (DESIGN §0): a refutation is only believed when the evaluator could read the construct.  A function that
    contains a general `while` loop (not the one peeling idiom the evaluator knows) is outside its accepted statement set: its loop-carried
    values are havoc, so a mismatch reported for it is a recognition failure (UNKNOWN -> exit 2), never a VIOLATION."""
    import ast

    model = getattr(rep, "model", None)
    if model is None:
        return
    for ob in rep.obligations:
        if ob.verdict != REFUTED:
            continue
        mod, _, rest = ob.construct.partition(":")
        qual = rest.split("#")[0]
        f = model.functions.get(f"{mod}.{qual}")
        if f is None:
            continue
        whiles = [n for n in ast.walk(f.node) if isinstance(n, ast.While)]
        general = []
        for w in whiles:
            t = w.test
            peel = (isinstance(t, ast.Call) and isinstance(t.func, ast.Name) and t.func.id == "isinstance" and t.args and isinstance(t.args[0], ast.Name)
                    and any(isinstance(b_, ast.Assign) and isinstance(b_.value, ast.Attribute) and isinstance(b_.value.value, ast.Name)
                            and b_.value.value.id == t.args[0].id for b_ in w.body))
            if not peel:
                general.append(w)
        if general:
            ob.verdict = UNKNOWN
            ob.detail = f"the function contains a general while loop (line {general[0].lineno}), which is outside the evaluator's accepted statement set; reported mismatch not believed: " + ob.detail[:300]


def finish(rep: Report, seed: int = 0) -> int:
    """Print the per-obligation lines, write evidence, return the exit code."""
    all_known = [k for k in load_known() if k.get("status") == "known"]
    known = [k for k in all_known if k.get("property") == rep.property_id]
    known_keys = {f"{k['rule']}@{k['construct']}": k for k in known}
    dep_known_keys: dict = {}
    for k in all_known:
        dep_known_keys.setdefault(f"{k['rule']}@{k['construct']}", []).append(k)
    violations = []
    known_hit = []
    dep_known = []
    unknown_required = []
    seen_keys = set()
    _downgrade_outside_idioms(rep)
    for ob in rep.obligations:
        line = f"{ob.verdict:8s} {ob.rule:7s} {ob.construct}  {ob.loc}"
        if ob.verdict != PROVEN and ob.detail:
            line += f"\n           {ob.detail}"
        print(line)
        seen_keys.add(ob.key)
        if ob.verdict == REFUTED:
            if ob.key in known_keys:
                known_hit.append((ob, known_keys[ob.key]))
            elif getattr(ob, "inherited", None) and ob.key in dep_known_keys:
                # a recorded finding of the property this one rests on: reported by that property's own check
                ks = dep_known_keys[ob.key]
                dep_known.append((ob, next((k for k in ks if k.get("property") == ob.inherited), ks[0])))
            else:
                violations.append(ob)
        elif ob.verdict == UNKNOWN and ob.required:
            unknown_required.append(ob)
    # instance floors: a rule that matches fewer sites than confirmed by hand is broken, not passing
    per_rule: dict[str, int] = {}
    for ob in rep.obligations:
        per_rule[ob.rule] = per_rule.get(ob.rule, 0) + 1
    for rule, floor in rep.floors.items():
        if per_rule.get(rule, 0) < floor:
            rep.error(f"rule {rule}: {per_rule.get(rule, 0)} obligations < floor {floor} (rule matches fewer sites than confirmed by hand)")
    for ob, k in known_hit:
        print(f"KNOWN-FINDING: property={rep.property_id} {ob.rule} {ob.construct}: {k.get('what', ob.detail)}")
    for ob, k in dep_known:
        print(f"DEPENDENCY-KNOWN-FINDING: property={k.get('property')} (trusted base of {rep.property_id}) {ob.rule} {ob.construct}")
    wall = time.time() - rep.t0
    n_ob = len(rep.obligations)
    n_proven = sum(1 for o in rep.obligations if o.verdict == PROVEN)
    distinct_nontrivial = len({o.key for o in rep.obligations if o.nontrivial and o.verdict in (PROVEN, REFUTED)})
    samples = []
    for ob in rep.obligations[:]:
        if ob.sample is not None and len(samples) < 6:
            samples.append({"rule": ob.rule, "construct": ob.construct, "verdict": ob.verdict, "loc": ob.loc, "normal_forms": ob.sample})
    if not samples:
        for ob in rep.obligations[:4]:
            samples.append({"rule": ob.rule, "construct": ob.construct, "verdict": ob.verdict, "loc": ob.loc, "detail": ob.detail})
    coverage = {
        "obligations": n_ob,
        "discharged": n_proven,
        "evaluations": max(n_ob, 1),
        "distinct_nontrivial": distinct_nontrivial,
        "rule": rep.rule_text
        or "one obligation per (rule, construct); non-trivial = decided with a non-constant normal form; distinct by rule+construct",
        "samples": samples,
        "explanation": rep.explanation,
        "checker_cmd": f"/venv/bin/python /verif/yv/check.py {rep.property_id} --tier {rep.tier}",
        "trusted_base": rep.trusted_base,
        "exhaustive": False,
        "refuted": len(violations) + len(known_hit) + len(dep_known),
        "unknown": sum(1 for o in rep.obligations if o.verdict == UNKNOWN),
        "known_findings_matched": [o.key for o, _ in known_hit],
        "refuted_keys": sorted({o.key for o in rep.obligations if o.verdict == REFUTED}),
        "per_rule": per_rule,
        "instance_floor": rep.floors,
    }
    coverage.update(rep.stats)
    ev = {
        "property_id": rep.property_id,
        "tier": rep.tier,
        "seed": seed,
        "level": rep.level,
        "coverage": coverage,
        "assumptions": rep.assumptions,
        "wall_s": round(wall, 3),
        "violations": len(violations),
    }
    os.makedirs(EVIDENCE_DIR, exist_ok=True)
    with open(os.path.join(EVIDENCE_DIR, f"{rep.property_id}.json"), "w", encoding="utf-8") as fh:
        json.dump(ev, fh, indent=1, default=str, ensure_ascii=False)
    code = 0
    if violations:
        os.makedirs(REPLAY_DIR, exist_ok=True)
        path = os.path.join(REPLAY_DIR, f"{rep.property_id}.json")
        with open(path, "w", encoding="utf-8") as fh:
            json.dump(
                {"property": rep.property_id, "violations": [
                    {"rule": o.rule, "construct": o.construct, "loc": o.loc, "detail": o.detail, "normal_forms": o.sample} for o in violations]},
                fh, indent=1, default=str, ensure_ascii=False)
        for o in violations:
            print(f"VIOLATION property={rep.property_id} replay={path} rule={o.rule} construct={o.construct} at {o.loc}")
        code = 1
    if rep.errors or unknown_required:
        for e in rep.errors:
            print(f"ANALYSIS-ERROR: {e}")
        for o in unknown_required:
            print(f"ANALYSIS-INCOMPLETE: {o.rule} {o.construct} at {o.loc}: {o.detail}")
        if code == 0:
            code = 2
    print(
        f"SUMMARY property={rep.property_id} tier={rep.tier} obligations={n_ob} proven={n_proven} "
        f"refuted={len(violations) + len(known_hit)} known={len(known_hit)} dependency_known={len(dep_known)} unknown={coverage['unknown']} wall={wall:.2f}s exit={code}"
    )
    return code
